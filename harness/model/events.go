package model

import (
	"sort"

	"verif/harness/gen"
)

// Ev is an event handed to the instance.
type Ev struct {
	Kind string `json:"kind"` // signal | message
	Ref  string `json:"ref"`
	Op   string `json:"op,omitempty"`
}

// Matches implements the matching rules of signal and message events.
func Matches(d gen.EventDef, e Ev) bool {
	if d.Kind == "timer" {
		// a firing of the timer written as d.TimerExpr (the harness delivers it
		// to the model when it advanced the mock clock past the due time)
		return e.Kind == "timer" && e.Ref == d.TimerExpr
	}
	if d.Kind != e.Kind || d.Ref != e.Ref {
		return false
	}
	if d.Kind == "message" {
		return d.Op == e.Op
	}
	return true
}

func nodeMatches(n *gen.Node, e Ev) bool {
	for _, d := range n.Defs {
		if Matches(d, e) {
			return true
		}
	}
	return false
}

// Event delivers e: every listening catch event whose definition matches
// releases all its waiting tokens; boundary events of waiting activities react.
func (m *M) Event(e Ev) Obs {
	m.obs = &Obs{}
	// collect first, then release (an event reaches the listeners armed at
	// the moment of delivery, not those armed by its own consequences)
	type rel struct {
		s    *Scope
		node *gen.Node
		toks []*Token
	}
	var rels []rel
	for _, s := range m.scopes {
		ids := make([]string, 0, len(s.armed))
		for id := range s.armed {
			ids = append(ids, id)
		}
		sort.Strings(ids)
		for _, id := range ids {
			ts := s.armed[id]
			if len(ts) == 0 {
				continue
			}
			n := s.G.Node(id)
			if n.ParallelMul && len(n.Defs) > 1 {
				if !m.parallelSatisfied(s, n, e) {
					continue
				}
			} else if !nodeMatches(n, e) {
				continue
			}
			rels = append(rels, rel{s, n, ts})
			s.armed[id] = nil
		}
	}
	// boundary events
	type brel struct {
		r *Req
		b *gen.Node
	}
	var brels []brel
	for _, r := range m.Pending {
		if r.Interrupted || r.Tok.dead {
			continue
		}
		g := r.Tok.Scope.G
		for _, b := range g.Nodes {
			if b.Kind == gen.KBoundary && b.AttachedTo == r.Node.ID && nodeMatches(b, e) {
				brels = append(brels, brel{r, b})
			}
		}
	}
	// boundary events attached to running sub-processes
	type srel struct {
		sc *Scope
		b  *gen.Node
	}
	var srels []srel
	for _, sc := range m.scopes {
		if sc.Parent == nil || sc.SubTok == nil || sc.SubTok.dead || sc.interrupted {
			continue
		}
		for _, b := range sc.Parent.G.Nodes {
			if b.Kind == gen.KBoundary && b.AttachedTo == sc.SubNode.ID && nodeMatches(b, e) {
				srels = append(srels, srel{sc, b})
			}
		}
	}
	for _, rl := range rels {
		for _, t := range rl.toks {
			if t.dead {
				continue
			}
			m.obs.Fired = append(m.obs.Fired, rl.node.ID)
			// event-based gateway: the first alternative to fire withdraws the others
			if t.Group != 0 {
				for _, o := range m.groups[t.Group] {
					if o != t && !o.dead {
						m.withdraw(o)
					}
				}
				delete(m.groups, t.Group)
			}
			m.leave(t, rl.node)
		}
	}
	for _, br := range brels {
		if br.r.Interrupted {
			continue
		}
		if m.AsIs {
			// known deviation: at most once, never withdraws the host; one gate
			// per host node
			if m.boundaryFired[br.b.ID] || !m.hostGate[br.r.Node.ID] {
				continue
			}
			m.boundaryFired[br.b.ID] = true
			m.obs.Fired = append(m.obs.Fired, br.b.ID)
			nt := m.newToken(br.r.Tok.Scope, "", br.b.ID)
			nt.Cohort = br.r.Tok.Cohort
			m.leave(nt, br.b)
			continue
		}
		m.obs.Fired = append(m.obs.Fired, br.b.ID)
		if br.b.CancelAct {
			// interrupting: the activity's token continues on the exception flow
			br.r.Interrupted = true
			m.leave(br.r.Tok, br.b)
		} else {
			nt := m.newToken(br.r.Tok.Scope, "", br.b.ID)
			nt.Cohort = br.r.Tok.Cohort
			m.leave(nt, br.b)
		}
	}
	for _, sr := range srels {
		if sr.sc.interrupted || sr.sc.SubTok == nil {
			continue
		}
		if m.AsIs {
			if m.boundaryFired[sr.b.ID] {
				continue
			}
			m.boundaryFired[sr.b.ID] = true
			m.obs.Fired = append(m.obs.Fired, sr.b.ID)
			nt := m.newToken(sr.sc.Parent, "", sr.b.ID)
			nt.Cohort = sr.sc.SubTok.Cohort
			m.leave(nt, sr.b)
			continue
		}
		m.obs.Fired = append(m.obs.Fired, sr.b.ID)
		if sr.b.CancelAct {
			// interrupting: every inner token is withdrawn, inner requests lose their effect
			sr.sc.interrupted = true
			m.cancelScope(sr.sc)
			t := sr.sc.SubTok
			sr.sc.SubTok = nil
			m.leave(t, sr.b)
		} else {
			nt := m.newToken(sr.sc.Parent, "", sr.b.ID)
			nt.Cohort = sr.sc.SubTok.Cohort
			m.leave(nt, sr.b)
		}
	}
	m.run()
	return m.finish()
}

// cancelScope withdraws every token inside a sub-process activation.
func (m *M) cancelScope(sc *Scope) {
	for _, t := range m.tokens {
		if t.dead {
			continue
		}
		for s := t.Scope; s != nil; s = s.Parent {
			if s == sc {
				m.kill(t)
				break
			}
		}
	}
	for _, r := range m.Pending {
		for s := r.Tok.Scope; s != nil; s = s.Parent {
			if s == sc {
				r.Interrupted = true
			}
		}
	}
	for id := range sc.armed {
		sc.armed[id] = nil
	}
	for id := range sc.incWait {
		sc.incWait[id] = nil
	}
}

// withdraw removes a losing alternative of an event-based gateway.
func (m *M) withdraw(t *Token) {
	s := t.Scope
	ts := s.armed[t.Node]
	for i, x := range ts {
		if x == t {
			s.armed[t.Node] = append(ts[:i:i], ts[i+1:]...)
			break
		}
	}
	m.kill(t)
	m.checkScopeDone(s)
}

// parallelSatisfied is the accounting of a parallel-multiple catch event
// (property C14): per node it counts how often each definition has been
// matched by events delivered while the node was listening, over the whole
// life of the instance, and how often the node has fired. The node fires when
// its least-matched definition has been matched more often than it has fired:
// it never fires more often than that minimum, and has fired exactly k times
// whenever every definition has been matched exactly k times. Matches that
// are in surplus when the node fires keep counting for a later listener;
// events delivered while the node is not listening are never counted (C11).
func (m *M) parallelSatisfied(s *Scope, n *gen.Node, e Ev) bool {
	if m.parCount == nil {
		m.parCount = map[string][]int{}
		m.parFired = map[string]int{}
	}
	key := n.ID
	c := m.parCount[key]
	if c == nil {
		c = make([]int, len(n.Defs))
		m.parCount[key] = c
	}
	matched := false
	for i, d := range n.Defs {
		if Matches(d, e) {
			c[i]++
			matched = true
			break
		}
	}
	if !matched {
		return false
	}
	mn := c[0]
	for _, v := range c {
		if v < mn {
			mn = v
		}
	}
	if mn > m.parFired[key] {
		m.parFired[key]++
		return true
	}
	return false
}

// Armed lists node ids with listening tokens (sorted, with multiplicity).
func (m *M) Armed() []string {
	var out []string
	for _, s := range m.scopes {
		for id, ts := range s.armed {
			for range ts {
				out = append(out, id)
			}
		}
	}
	sort.Strings(out)
	return out
}
