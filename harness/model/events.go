package model

import (
	"sort"

	"verif/harness/gen"
)

// Ev is an event handed to the instance.
type Ev struct {
	Kind string `json:"kind"` // signal | message
	Ref  string `json:"ref"`
	Op   string `json:"op,omitempty"`
}

// Matches implements the matching rules of signal and message events.
func Matches(d gen.EventDef, e Ev) bool {
	if d.Kind != e.Kind || d.Ref != e.Ref {
		return false
	}
	if d.Kind == "message" {
		return d.Op == e.Op
	}
	return true
}

func nodeMatches(n *gen.Node, e Ev) bool {
	for _, d := range n.Defs {
		if Matches(d, e) {
			return true
		}
	}
	return false
}

// Event delivers e: every listening catch event whose definition matches
// releases all its waiting tokens; boundary events of waiting activities react.
func (m *M) Event(e Ev) Obs {
	m.obs = &Obs{}
	// collect first, then release (an event reaches the listeners armed at
	// the moment of delivery, not those armed by its own consequences)
	type rel struct {
		s    *Scope
		node *gen.Node
		toks []*Token
	}
	var rels []rel
	for _, s := range m.scopes {
		ids := make([]string, 0, len(s.armed))
		for id := range s.armed {
			ids = append(ids, id)
		}
		sort.Strings(ids)
		for _, id := range ids {
			ts := s.armed[id]
			if len(ts) == 0 {
				continue
			}
			n := s.G.Node(id)
			if n.ParallelMul && len(n.Defs) > 1 {
				if !m.parallelSatisfied(s, n, e) {
					continue
				}
			} else if !nodeMatches(n, e) {
				continue
			}
			rels = append(rels, rel{s, n, ts})
			s.armed[id] = nil
		}
	}
	// boundary events
	type brel struct {
		r *Req
		b *gen.Node
	}
	var brels []brel
	for _, r := range m.Pending {
		if r.Interrupted || r.Tok.dead {
			continue
		}
		g := r.Tok.Scope.G
		for _, b := range g.Nodes {
			if b.Kind == gen.KBoundary && b.AttachedTo == r.Node.ID && nodeMatches(b, e) {
				brels = append(brels, brel{r, b})
			}
		}
	}
	for _, rl := range rels {
		for _, t := range rl.toks {
			if t.dead {
				continue
			}
			m.obs.Fired = append(m.obs.Fired, rl.node.ID)
			// event-based gateway: the first alternative to fire withdraws the others
			if t.Group != 0 {
				for _, o := range m.groups[t.Group] {
					if o != t && !o.dead {
						m.withdraw(o)
					}
				}
				delete(m.groups, t.Group)
			}
			m.leave(t, rl.node)
		}
	}
	for _, br := range brels {
		if br.r.Interrupted {
			continue
		}
		m.obs.Fired = append(m.obs.Fired, br.b.ID)
		if br.b.CancelAct {
			// interrupting: the activity's token continues on the exception flow
			br.r.Interrupted = true
			m.leave(br.r.Tok, br.b)
		} else {
			nt := m.newToken(br.r.Tok.Scope, "", br.b.ID)
			nt.Cohort = br.r.Tok.Cohort
			m.leave(nt, br.b)
		}
	}
	m.run()
	return m.finish()
}

// withdraw removes a losing alternative of an event-based gateway.
func (m *M) withdraw(t *Token) {
	s := t.Scope
	ts := s.armed[t.Node]
	for i, x := range ts {
		if x == t {
			s.armed[t.Node] = append(ts[:i:i], ts[i+1:]...)
			break
		}
	}
	m.kill(t)
	m.checkScopeDone(s)
}

// parallelSatisfied keeps, per catch node, which definitions have been
// matched since it was armed; true when all are (state then reset).
func (m *M) parallelSatisfied(s *Scope, n *gen.Node, e Ev) bool {
	if m.parSeen == nil {
		m.parSeen = map[string]map[int]bool{}
	}
	key := n.ID
	seen := m.parSeen[key]
	if seen == nil {
		seen = map[int]bool{}
		m.parSeen[key] = seen
	}
	for i, d := range n.Defs {
		if Matches(d, e) {
			seen[i] = true
			break
		}
	}
	if len(seen) == len(n.Defs) {
		delete(m.parSeen, key)
		return true
	}
	return false
}

// Armed lists node ids with listening tokens (sorted, with multiplicity).
func (m *M) Armed() []string {
	var out []string
	for _, s := range m.scopes {
		for id, ts := range s.armed {
			for range ts {
				out = append(out, id)
			}
		}
	}
	sort.Strings(out)
	return out
}
