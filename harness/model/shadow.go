package model

import (
	"fmt"
	"sort"

	"verif/harness/gen"
)

// The shadow serves ONE purpose: telling whether a run is inside the pattern
// of known finding C05-F1, so that a failure is attributed to that finding
// only where the finding can explain it. It is not part of the oracle.
//
// Finding C05-F1: the engine's inclusive gateway does not wait for "the tokens
// of the fork activation" but for the live flows that are filed under the same
// node as the first arrival. A flow is filed under the node at which it was
// created (a start event; a fork, for every outgoing flow but the first, which
// continues the arriving flow under its old entry) and re-filed only when it
// leaves an inclusive gateway. Where the two sets differ the gateway fires
// before its branches are in, or waits for strangers. The shadow keeps, for
// every model token, the nodes the engine may have filed it under (a set: at a
// parallel join the first arrival survives, which depends on the schedule) and
// reports a risk when, at some inclusive gateway, the filed-under set of the
// engine can differ from the set the property speaks of. The rules are
// deliberately independent of the order in which concurrent tokens move.
type shadow struct {
	created map[string]int  // node -> tokens ever filed under it at creation (forks other than inclusive gateways, start and boundary events)
	origin  map[int]string  // inclusive activation -> its gateway
	mixed   map[int]bool    // some token of the activation was not filed under its gateway alone
	overlap map[int]bool    // the gateway had live tokens filed under it when this activation began (or a later one began while this one lived)
	parks   []shadowPark    // every arrival at an inclusive gateway
	notes   map[string]bool // reasons (for evidence)
}

type shadowPark struct {
	gw     string
	locs   []string
	cohort int
}

func (m *M) shInit() {
	if m.sh.created == nil {
		m.sh = shadow{created: map[string]int{}, origin: map[int]string{}, mixed: map[int]bool{}, overlap: map[int]bool{}, notes: map[string]bool{}}
	}
}

// born: token t was created at node loc.
func (m *M) born(t *Token, loc string) {
	m.shInit()
	if len(t.Locs) == 1 {
		m.sh.created[t.Locs[0]]--
	}
	t.Locs = []string{loc}
	m.sh.created[loc]++
}

// passed: token t continues out of node src.
func (m *M) passed(t *Token, src string) {
	if n := t.Scope.G.Node(src); n != nil && n.Kind == gen.KInc {
		t.Locs = []string{src}
	}
}

// merged: at a join, keep and gone are merged; either may be the survivor.
func (m *M) merged(keep, gone *Token) {
	set := map[string]bool{}
	for _, l := range keep.Locs {
		set[l] = true
	}
	for _, l := range gone.Locs {
		set[l] = true
	}
	keep.Locs = keep.Locs[:0:0]
	for l := range set {
		keep.Locs = append(keep.Locs, l)
	}
	sort.Strings(keep.Locs)
}

func (m *M) parked(t *Token, gw string) {
	m.shInit()
	m.sh.parks = append(m.sh.parks, shadowPark{gw: gw, locs: append([]string(nil), t.Locs...), cohort: t.Cohort})
}

// newCohort: inclusive gateway gw fires for token t and starts activation c.
func (m *M) newCohort(c int, t *Token, gw string) {
	m.shInit()
	m.sh.origin[c] = gw
	for _, o := range m.tokens {
		if o.dead || o == t {
			continue
		}
		for _, l := range o.Locs {
			if l == gw {
				m.sh.overlap[c] = true
				if o.Cohort != 0 {
					m.sh.overlap[o.Cohort] = true
				}
			}
		}
	}
}

// shadowStep runs after every move of the model.
func (m *M) shadowStep() {
	m.shInit()
	for _, t := range m.tokens {
		if t.dead || t.Cohort == 0 {
			continue
		}
		if len(t.Locs) != 1 || t.Locs[0] != m.sh.origin[t.Cohort] {
			m.sh.mixed[t.Cohort] = true
		}
	}
}

// CohortRisk reports why, in the run so far, the engine's filed-under
// bookkeeping (finding C05-F1) may have differed from the tokens the property
// speaks of at some inclusive gateway; empty = it cannot have.
func (m *M) CohortRisk() []string {
	m.shInit()
	m.shadowStep()
	why := map[string]bool{}
	for _, p := range m.sh.parks {
		if p.cohort == 0 {
			// outside every inclusive activation the engine waits for the
			// arrival alone unless another token was ever filed under the
			// same node (whichever of the candidates it is)
			for _, l := range p.locs {
				if m.sh.created[l] >= 2 {
					why[fmt.Sprintf("%s: arrival filed under %s with %d others", p.gw, l, m.sh.created[l]-1)] = true
				}
			}
			continue
		}
		if len(p.locs) != 1 {
			why[fmt.Sprintf("%s: arrival filed under one of %v", p.gw, p.locs)] = true
			continue
		}
		l := p.locs[0]
		{
			switch {
			case l != m.sh.origin[p.cohort]:
				why[fmt.Sprintf("%s: arrival of activation %s filed under %s", p.gw, m.sh.origin[p.cohort], l)] = true
			case m.sh.mixed[p.cohort]:
				why[fmt.Sprintf("%s: activation of %s has tokens filed elsewhere", p.gw, l)] = true
			case m.sh.overlap[p.cohort]:
				why[fmt.Sprintf("%s: activations of %s overlap", p.gw, l)] = true
			}
		}
	}
	out := make([]string, 0, len(why))
	for k := range why {
		out = append(out, k)
	}
	sort.Strings(out)
	return out
}
