// Package model is the reference BPMN token game (DESIGN.md 2.2). It is
// written from the BPMN 2.0 execution semantics quoted in the property
// statements, not from the engine source, and shares no code with the engine.
package model

import (
	"fmt"
	"sort"

	"verif/harness/gen"
)

// Scope is one activation of a process or sub-process.
type Scope struct {
	ID      int
	G       *gen.Graph
	Parent  *Scope
	SubNode *gen.Node // the sub-process node in the parent graph (nil for root)
	SubTok  *Token    // parent token waiting for this activation
	live    int       // tokens alive in this scope (incl. nested scopes' waiting parent tokens)
	// node state, per scope
	parWait     map[string]map[string]int // par gateway -> incoming flow -> waiting tokens
	parTok      map[string][]*Token       // par gateway -> parked token objects
	incWait     map[string][]*Token       // inclusive gateway -> tokens parked at the join
	armed       map[string][]*Token       // catch event -> tokens listening
	started     bool
	interrupted bool
}

// Token is one BPMN token.
type Token struct {
	ID    int
	Scope *Scope
	Flow  string // flow it arrived on ("" for a start-event token)
	Node  string // node it is at
	// event-based gateway group (tokens created by the same gateway activation)
	Group int
	// Cohort is the inclusive-fork activation this token descends from (0 = none).
	Cohort int
	// boundary listener token
	BoundaryOf *Req
	dead       bool
	// Locs shadows the engine's bookkeeping of known finding C05-F1 (see
	// shadow.go): the nodes the engine may have filed this token under.
	Locs []string
}

// Req is an outstanding task request.
type Req struct {
	Seq      int
	Node     *gen.Node
	Tok      *Token
	Attempts int // re-requests made so far for this token at this activity
	// boundary listeners armed with this request
	Interrupted bool
}

// Obs collects what one stimulus must make observable.
type Obs struct {
	Requests  []string // node ids of new task requests (multiset)
	Flows     []string // sequence flows traversed (multiset)
	Ends      []string // root-level end events reached (multiset)
	InnerEnds []string // end events reached inside sub-processes
	Errors    []string // "xor:<id>" / "inc:<id>" no-effective-flow errors, "task:<id>" task errors
	Landmarks []string // sub-process activations completed
	Stuck     []string // nodes where a token is parked forever by specification
	Fired     []string // catch / boundary events that fired (one entry per released token)
}

func (o *Obs) sortAll() {
	sort.Strings(o.Requests)
	sort.Strings(o.Flows)
	sort.Strings(o.Ends)
	sort.Strings(o.Errors)
	sort.Strings(o.Landmarks)
	sort.Strings(o.Stuck)
}

// M is the model state of one instance.
type M struct {
	Root    *Scope
	Vars    map[string]any
	Pending []*Req
	queue   []*Token
	obs     *Obs
	nextTok int
	nextReq int
	nextSc  int
	nextGrp int
	nextCoh int
	tokens  []*Token
	scopes  []*Scope
	// EarlyFired counts inclusive joins fired by the early (BPMN) rule on request of the driver.
	EarlyFired int
	// HeldBack: at the end of some step an inclusive gateway held a token
	// that the BPMN rule would have released (the property allows both).
	HeldBack bool
	// StuckTokens are parked forever (gateway without effective flow).
	StuckTokens []*Token
	// AllEnds accumulates every end event reached, AllFlows every flow taken.
	AllEnds      []string
	AllFlows     []string
	AllLandmarks []string
	// AllErrors accumulates the error keys ("xor:<id>", "inc:<id>", "task:<id>").
	AllErrors []string
	// groups: event-based gateway group id -> member tokens
	groups   map[int][]*Token
	parCount map[string][]int
	parFired map[string]int
	// AsIs switches the boundary-event rules to what the engine is KNOWN to
	// do instead of what BPMN says (known findings C10-F1/F2/F3): a boundary
	// event's listener is a token of the instance from the first activation
	// of its host until it fires (so an unfired listener keeps the instance
	// from completing), it fires at most once, and an interrupting boundary
	// event does not withdraw its host (the normal flow still continues when
	// the host is answered). Used only to tell a known deviation from a new one.
	AsIs          bool
	hostActivated map[string]bool
	boundaryFired map[string]bool
	// hostGate (as-is): the engine keeps ONE "active" gate per host node, opened
	// by every request of the host and closed by every answer - with several
	// tokens in the host the first answer closes it for the others too
	hostGate  map[string]bool
	rootFired map[string]bool // start events fired so far (StartOnly)
	sh        shadow
}

// New creates the model for a program with initial variables.
func New(g *gen.Graph, vars map[string]any) *M {
	m := &M{Vars: map[string]any{}, groups: map[int][]*Token{}, hostActivated: map[string]bool{}, boundaryFired: map[string]bool{}, hostGate: map[string]bool{}}
	for k, v := range vars {
		m.Vars[k] = v
	}
	m.Root = m.newScope(g, nil, nil, nil)
	return m
}

func (m *M) newScope(g *gen.Graph, parent *Scope, sub *gen.Node, tok *Token) *Scope {
	m.nextSc++
	s := &Scope{ID: m.nextSc, G: g, Parent: parent, SubNode: sub, SubTok: tok,
		parWait: map[string]map[string]int{}, parTok: map[string][]*Token{}, incWait: map[string][]*Token{}, armed: map[string][]*Token{}}
	m.scopes = append(m.scopes, s)
	return s
}

func (m *M) newToken(s *Scope, flow, node string) *Token {
	m.nextTok++
	t := &Token{ID: m.nextTok, Scope: s, Flow: flow, Node: node}
	s.live++
	m.tokens = append(m.tokens, t)
	m.born(t, node)
	return t
}

func (m *M) kill(t *Token) {
	if t.dead {
		return
	}
	t.dead = true
	t.Scope.live--
}

// Start fires every start event of the root process.
func (m *M) Start() Obs {
	m.obs = &Obs{}
	m.startScope(m.Root)
	m.run()
	return m.finish()
}

// StartOnly fires the named start events of the root process only (the
// public API allows triggering start events one by one). The instance cannot
// be complete before every start event has fired.
func (m *M) StartOnly(ids []string) Obs {
	m.obs = &Obs{}
	s := m.Root
	if m.rootFired == nil {
		m.rootFired = map[string]bool{}
	}
	type st struct {
		t *Token
		n *gen.Node
	}
	var starts []st
	for _, id := range ids {
		n := s.G.Node(id)
		if n == nil || n.Kind != gen.KStart || m.rootFired[id] {
			continue
		}
		m.rootFired[id] = true
		starts = append(starts, st{m.newToken(s, "", n.ID), n})
	}
	all := true
	for _, n := range s.G.Nodes {
		if n.Kind == gen.KStart && !m.rootFired[n.ID] {
			all = false
		}
	}
	s.started = all
	for _, x := range starts {
		m.leave(x.t, x.n)
	}
	m.run()
	return m.finish()
}

func (m *M) startScope(s *Scope) {
	s.started = true
	// all start events fire together: create every token before one of them
	// can be consumed (a start event whose outgoing flows are all false ends
	// its token at once, which must not make the scope look finished)
	type st struct {
		t *Token
		n *gen.Node
	}
	var starts []st
	for _, n := range s.G.Nodes {
		if n.Kind == gen.KStart {
			starts = append(starts, st{m.newToken(s, "", n.ID), n})
		}
	}
	for _, x := range starts {
		m.leave(x.t, x.n)
	}
}

func (m *M) finish() Obs {
	o := *m.obs
	o.sortAll()
	m.AllEnds = append(m.AllEnds, o.Ends...)
	m.AllFlows = append(m.AllFlows, o.Flows...)
	m.AllLandmarks = append(m.AllLandmarks, o.Landmarks...)
	m.AllErrors = append(m.AllErrors, o.Errors...)
	m.obs = nil
	if !m.HeldBack && len(m.AmbiguousJoins()) > 0 {
		m.HeldBack = true
	}
	return o
}

// condTrue evaluates a flow's condition: absent or informal = true.
func (m *M) condTrue(f *gen.Flow) bool {
	if f.Cond == nil || !f.Formal {
		return true
	}
	v, ok := f.Cond.Eval(m.Vars)
	return ok && v
}

// leave moves token t out of node n along every outgoing flow whose
// condition holds (implicit inclusive split of activities/events); with no
// such flow the token is consumed.
func (m *M) leave(t *Token, n *gen.Node) {
	var outs []*gen.Flow
	for _, fid := range n.Out {
		f := t.Scope.G.Flow(fid)
		if m.condTrue(f) {
			outs = append(outs, f)
		}
	}
	m.emit(t, outs)
}

// emit continues t on the first flow and forks new tokens on the others.
func (m *M) emit(t *Token, outs []*gen.Flow) (emitted []*Token) {
	if len(outs) == 0 {
		m.kill(t)
		m.checkScopeDone(t.Scope)
		return nil
	}
	for i, f := range outs {
		m.obs.Flows = append(m.obs.Flows, f.ID)
		if i == 0 {
			t.Flow, t.Node = f.ID, f.Dst
			t.Group = 0
			m.passed(t, f.Src)
			m.queue = append(m.queue, t)
			emitted = append(emitted, t)
		} else {
			nt := m.newToken(t.Scope, f.ID, f.Dst)
			nt.Cohort = t.Cohort
			m.born(nt, f.Src)
			m.queue = append(m.queue, nt)
			emitted = append(emitted, nt)
		}
	}
	return emitted
}

func (m *M) run() {
	for {
		for len(m.queue) > 0 {
			t := m.queue[0]
			m.queue = m.queue[1:]
			if t.dead {
				continue
			}
			m.arrive(t)
			m.shadowStep()
		}
		// Inclusive joins are evaluated only when nothing else can move.
		if !m.fireInclusiveJoins() {
			return
		}
		m.shadowStep()
	}
}

func (m *M) arrive(t *Token) {
	s := t.Scope
	n := s.G.Node(t.Node)
	switch n.Kind {
	case gen.KTask:
		m.request(t, n, 0)
	case gen.KEnd:
		if s.Parent == nil {
			// end events inside a sub-process are not visible on the
			// instance's trace stream (the engine filters them), so only
			// root-level end events are part of the observable outcome
			m.obs.Ends = append(m.obs.Ends, n.ID)
		} else {
			m.obs.InnerEnds = append(m.obs.InnerEnds, n.ID)
		}
		m.kill(t)
		m.checkScopeDone(s)
	case gen.KXor:
		m.xor(t, n)
	case gen.KPar:
		w := s.parWait[n.ID]
		if w == nil {
			w = map[string]int{}
			s.parWait[n.ID] = w
		}
		w[t.Flow]++
		ready := true
		for _, in := range n.In {
			if w[in] == 0 {
				ready = false
			}
		}
		s.parTok[n.ID] = append(s.parTok[n.ID], t)
		if !ready {
			// parked at the join
			return
		}
		for _, in := range n.In {
			w[in]--
		}
		// N tokens (one per incoming flow) are merged into one continuing
		// token (this one); the other N-1 are consumed.
		used := map[string]bool{t.Flow: true}
		var keep []*Token
		for _, pt := range s.parTok[n.ID] {
			if pt == t {
				continue
			}
			if !used[pt.Flow] {
				used[pt.Flow] = true
				m.merged(t, pt)
				m.kill(pt)
			} else {
				keep = append(keep, pt)
			}
		}
		s.parTok[n.ID] = keep
		var outs []*gen.Flow
		for _, fid := range n.Out {
			outs = append(outs, s.G.Flow(fid))
		}
		m.emit(t, outs)
	case gen.KInc:
		// every inclusive gateway applies the join rule, also with a single
		// incoming flow (a sibling of the fork may still be on its way to end)
		s.incWait[n.ID] = append(s.incWait[n.ID], t)
		m.parked(t, n.ID)
	case gen.KSub:
		m.hostActivated[n.ID] = true
		inner := m.newScope(n.Inner, s, n, t)
		m.startScope(inner)
		m.checkScopeDone(inner)
	case gen.KCatch:
		s.armed[n.ID] = append(s.armed[n.ID], t)
	case gen.KThrow:
		m.leave(t, n)
	case gen.KEbg:
		m.nextGrp++
		grp := m.nextGrp
		var outs []*gen.Flow
		for _, fid := range n.Out {
			outs = append(outs, s.G.Flow(fid))
		}
		before := len(m.queue)
		m.emit(t, outs)
		for _, q := range m.queue[before:] {
			q.Group = grp
			m.groups[grp] = append(m.groups[grp], q)
		}
	default:
		panic("model: unsupported node kind " + n.Kind)
	}
}

func (m *M) request(t *Token, n *gen.Node, attempts int) {
	m.nextReq++
	r := &Req{Seq: m.nextReq, Node: n, Tok: t, Attempts: attempts}
	m.hostActivated[n.ID] = true
	m.hostGate[n.ID] = true
	m.Pending = append(m.Pending, r)
	m.obs.Requests = append(m.obs.Requests, n.ID)
}

func (m *M) xor(t *Token, n *gen.Node) {
	s := t.Scope
	for _, fid := range n.Out {
		if fid == n.Default {
			continue
		}
		f := s.G.Flow(fid)
		if m.condTrue(f) {
			m.emit(t, []*gen.Flow{f})
			return
		}
	}
	if n.Default != "" {
		m.emit(t, []*gen.Flow{s.G.Flow(n.Default)})
		return
	}
	m.obs.Errors = append(m.obs.Errors, "xor:"+n.ID)
	m.obs.Stuck = append(m.obs.Stuck, n.ID)
	m.StuckTokens = append(m.StuckTokens, t)
}

func (m *M) incSplit(t *Token, n *gen.Node) {
	s := t.Scope
	var outs []*gen.Flow
	for _, fid := range n.Out {
		if fid == n.Default {
			continue
		}
		f := s.G.Flow(fid)
		if m.condTrue(f) {
			outs = append(outs, f)
		}
	}
	if len(outs) == 0 {
		if n.Default != "" {
			outs = []*gen.Flow{s.G.Flow(n.Default)}
		} else {
			m.obs.Errors = append(m.obs.Errors, "inc:"+n.ID)
			m.obs.Stuck = append(m.obs.Stuck, n.ID)
			m.StuckTokens = append(m.StuckTokens, t)
			return
		}
	}
	m.nextCoh++
	m.newCohort(m.nextCoh, t, n.ID)
	for _, e := range m.emit(t, outs) {
		e.Cohort = m.nextCoh
	}
}

// positions returns, for every live token of scope s (including pending
// requests, parked tokens and waiting sub-process parents), the node it is at.
func (m *M) positions(s *Scope) []string {
	var pos []string
	for _, r := range m.Pending {
		if r.Tok.Scope == s && !r.Tok.dead {
			pos = append(pos, r.Node.ID)
		}
	}
	for nid, w := range s.parWait {
		for _, c := range w {
			for i := 0; i < c; i++ {
				pos = append(pos, nid)
			}
		}
	}
	for nid, ts := range s.armed {
		for range ts {
			pos = append(pos, nid)
		}
	}
	for _, st := range m.StuckTokens {
		if st.Scope == s {
			pos = append(pos, st.Node)
		}
	}
	for _, sc := range m.scopes {
		if sc.Parent == s && sc.SubTok != nil && !sc.SubTok.dead && sc.live > 0 {
			pos = append(pos, sc.SubNode.ID)
		}
	}
	return pos
}

// reach reports whether node `from` has a path to flow `target`'s... i.e. to
// arriving at gateway gw via incoming flow `in`, without passing through gw.
func reach(g *gen.Graph, from string, gw string, in string) bool {
	seen := map[string]bool{}
	var dfs func(n string) bool
	dfs = func(n string) bool {
		if seen[n] {
			return false
		}
		seen[n] = true
		node := g.Node(n)
		if node == nil {
			return false
		}
		outs := append([]string(nil), node.Out...)
		// boundary events attached to n are additional exits
		for _, b := range g.Nodes {
			if b.Kind == gen.KBoundary && b.AttachedTo == n {
				outs = append(outs, b.Out...)
			}
		}
		for _, fid := range outs {
			if fid == in {
				return true
			}
			f := g.Flow(fid)
			if f.Dst == gw {
				continue
			}
			if dfs(f.Dst) {
				return true
			}
		}
		return false
	}
	return dfs(from)
}

// earlyEnabled is the BPMN 2.0 inclusive-join rule: enabled iff no token
// elsewhere has a path to an empty incoming flow unless it also has a path to
// a non-empty one.
func (m *M) earlyEnabled(s *Scope, id string) bool {
	ts := s.incWait[id]
	if len(ts) == 0 {
		return false
	}
	n := s.G.Node(id)
	has := map[string]bool{}
	for _, t := range ts {
		has[t.Flow] = true
	}
	for _, p := range m.positions(s) {
		if p == id {
			continue
		}
		toEmpty, toFull := false, false
		for _, in := range n.In {
			if reach(s.G, p, id, in) {
				if has[in] {
					toFull = true
				} else {
					toEmpty = true
				}
			}
		}
		if toEmpty && !toFull {
			return false
		}
	}
	return true
}

// lateEnabled is the latest moment the property allows: every live token of
// the fork activation has arrived at the join (or ended elsewhere).
func (m *M) lateEnabled(s *Scope, id string) bool {
	ts := s.incWait[id]
	if len(ts) == 0 {
		return false
	}
	c := ts[0].Cohort
	if c == 0 {
		// token that descends from no inclusive fork: plain BPMN rule
		return m.earlyEnabled(s, id)
	}
	at := map[*Token]bool{}
	for _, t := range ts {
		at[t] = true
	}
	for _, t := range m.tokens {
		if t.dead || t.Cohort != c || at[t] {
			continue
		}
		return false
	}
	return true
}

func (m *M) fireJoin(s *Scope, id string) {
	ts := s.incWait[id]
	n := s.G.Node(id)
	c := ts[0].Cohort
	var keep []*Token
	var first *Token
	for _, t := range ts {
		if t.Cohort != c {
			keep = append(keep, t)
			continue
		}
		if first == nil {
			first = t
		} else {
			m.kill(t)
		}
	}
	s.incWait[id] = keep
	m.incSplit(first, n)
}

// fireInclusiveJoins fires one join that is enabled by the late rule.
func (m *M) fireInclusiveJoins() bool {
	for _, s := range m.scopes {
		ids := make([]string, 0, len(s.incWait))
		for id := range s.incWait {
			ids = append(ids, id)
		}
		sort.Strings(ids)
		for _, id := range ids {
			if m.lateEnabled(s, id) {
				m.fireJoin(s, id)
				return true
			}
		}
	}
	return false
}

// AmbiguousJoins lists joins that the BPMN rule enables although a token of
// the fork is still alive elsewhere (it can no longer reach the join): the
// property allows the join to fire now or when that token ends.
func (m *M) AmbiguousJoins() (out []string) {
	for _, s := range m.scopes {
		for id := range s.incWait {
			if !m.lateEnabled(s, id) && m.earlyEnabled(s, id) {
				out = append(out, id)
			}
		}
	}
	sort.Strings(out)
	return
}

// FireEarly fires join id by the early rule and runs to quiescence.
func (m *M) FireEarly(id string) Obs {
	m.obs = &Obs{}
	for _, s := range m.scopes {
		if len(s.incWait[id]) > 0 {
			m.fireJoin(s, id)
			m.EarlyFired++
			break
		}
	}
	m.run()
	return m.finish()
}

func (m *M) checkScopeDone(s *Scope) {
	if s.live > 0 || !s.started {
		return
	}
	if s.Parent == nil {
		return
	}
	if s.SubTok == nil || s.SubTok.dead {
		return
	}
	t := s.SubTok
	s.SubTok = nil
	m.obs.Landmarks = append(m.obs.Landmarks, s.SubNode.ID)
	m.leave(t, s.SubNode)
}

// Answer kinds.
const (
	AnsOK    = "ok"
	AnsErr   = "err"   // error without handler: error trace, then continue
	AnsSkip  = "skip"  // error + skip handler: continue
	AnsExit  = "exit"  // error + exit handler: token stops
	AnsRetry = "retry" // error + retry handler with Retries
)

// Answer is the payload of one effective task answer.
type Answer struct {
	Kind    string         `json:"kind"`
	Results map[string]any `json:"results,omitempty"`
	Retries int            `json:"retries,omitempty"`
}

// FindPending returns the index of the oldest pending request of node id.
func (m *M) FindPending(node string) int {
	for i, r := range m.Pending {
		if r.Node.ID == node {
			return i
		}
	}
	return -1
}

// Answer applies one effective answer to pending request i.
func (m *M) Answer(i int, a Answer) Obs {
	m.obs = &Obs{}
	r := m.Pending[i]
	m.Pending = append(m.Pending[:i:i], m.Pending[i+1:]...)
	n := r.Node
	t := r.Tok
	m.hostGate[n.ID] = false
	if r.Interrupted || t.dead {
		// the activity was interrupted: the answer has no effect
		return m.finish()
	}
	switch a.Kind {
	case AnsOK, "":
		for _, name := range n.Results {
			if v, ok := a.Results[name]; ok {
				m.Vars[name] = v
			}
		}
		m.disarmBoundary(r)
		m.leave(t, n)
	case AnsErr, AnsSkip:
		m.obs.Errors = append(m.obs.Errors, "task:"+n.ID)
		// results accompany the answer regardless of the error
		for _, name := range n.Results {
			if v, ok := a.Results[name]; ok {
				m.Vars[name] = v
			}
		}
		m.disarmBoundary(r)
		m.leave(t, n)
	case AnsExit:
		m.obs.Errors = append(m.obs.Errors, "task:"+n.ID)
		m.disarmBoundary(r)
		m.kill(t)
		m.checkScopeDone(t.Scope)
	case AnsRetry:
		m.obs.Errors = append(m.obs.Errors, "task:"+n.ID)
		if r.Attempts < a.Retries {
			m.disarmBoundary(r)
			m.request(t, n, r.Attempts+1)
		} else {
			m.disarmBoundary(r)
			m.kill(t)
			m.checkScopeDone(t.Scope)
		}
	}
	m.run()
	return m.finish()
}

func (m *M) disarmBoundary(r *Req) {}

// Done reports whether no token remains anywhere.
func (m *M) Done() bool {
	if m.AsIs && m.unfiredListeners() > 0 {
		return false
	}
	return m.Root.live == 0 && m.Root.started
}

// unfiredListeners counts (as-is mode) the boundary events whose host has been
// activated and that have not fired: each holds a token of the instance.
func (m *M) unfiredListeners() int {
	n := 0
	var walk func(g *gen.Graph)
	walk = func(g *gen.Graph) {
		for _, b := range g.Nodes {
			if b.Kind == gen.KBoundary && m.hostActivated[b.AttachedTo] && !m.boundaryFired[b.ID] {
				n++
			}
			if b.Inner != nil {
				walk(b.Inner)
			}
		}
	}
	walk(m.Root.G)
	return n
}

// StuckBySpec reports whether the instance can never complete because a
// gateway had no effective flow (the property says it takes no flow).
func (m *M) StuckBySpec() bool { return len(m.StuckTokens) > 0 }

// PendingIDs lists pending request node ids (sorted).
func (m *M) PendingIDs() []string {
	var out []string
	for _, r := range m.Pending {
		out = append(out, r.Node.ID)
	}
	sort.Strings(out)
	return out
}

func (m *M) String() string {
	return fmt.Sprintf("model{pending=%v live=%d vars=%v}", m.PendingIDs(), m.Root.live, m.Vars)
}
