package drive

import (
	"context"
	"encoding/json"
	"fmt"
	"os"
	"reflect"
	"sort"
	"strings"
	"time"

	"github.com/olive-io/bpmn/schema"
	bpmn "github.com/olive-io/bpmn/v2"
	"github.com/olive-io/bpmn/v2/pkg/data"

	"verif/harness/gen"
	"verif/harness/model"
	"verif/harness/perturb"
	"verif/harness/quiesce"
)

// Case is a fully drawn lock-step case (the replayable descriptor).
type Case struct {
	Prog     *gen.Block                `json:"prog"`
	Lang     string                    `json:"lang"`
	DeclSeed int                       `json:"declSeed"`
	Vars     map[string]any            `json:"vars"`
	Answers  map[string][]model.Answer `json:"answers"` // per task node id, k-th request -> answer (last repeats)
	Schedule []int                     `json:"schedule"`
	// Perturb is the schedule-perturbation seed (0 = off), see package perturb.
	Perturb uint64 `json:"perturb,omitempty"`
	// Graph, if set, is used instead of lowering Prog (hand-built shapes).
	Graph *gen.Graph `json:"graph,omitempty"`
	// IDStyle selects how node / flow ids look (gen.B.Style): ids that are
	// prefixes / suffixes of each other, differ only in case, carry dots,
	// dashes and non-ASCII letters.
	IDStyle int `json:"idStyle,omitempty"`
	// CancelBuildAfter > 0: the instance is started with a context that does not
	// descend from its construction context (bpmn.WithContext), and the
	// construction context is cancelled after that many answers. The instance
	// lives on the context it was started with: everything goes on as before.
	CancelBuildAfter int `json:"cancelBuildAfter,omitempty"`
	// Rank, if set, orders the pending set (by rank, then request sequence)
	// instead of the node id; used to address the same logical task in two
	// different lowerings of one program.
	Rank map[string]int `json:"-"`
}

// Normalize repairs JSON round-trip types (float64 -> int64).
func (c *Case) Normalize() {
	fix := func(m map[string]any) {
		for k, v := range m {
			switch x := v.(type) {
			case float64:
				m[k] = int64(x)
			case int:
				m[k] = int64(x)
			case json.Number:
				n, _ := x.Int64()
				m[k] = n
			}
		}
	}
	fix(c.Vars)
	for _, as := range c.Answers {
		for i := range as {
			fix(as[i].Results)
		}
	}
}

// Step records one stimulus and what followed.
type Step struct {
	Stimulus string   `json:"stimulus"`
	Expected []string `json:"expected"`
	Got      []string `json:"got"`
}

// Outcome of a lock-step run.
type Outcome struct {
	Symptom  string // "" = conforms
	Detail   string
	Steps    []Step
	Traces   []string
	Gs       string
	MaxPend  int
	LoopIter int
	Inconcl  string // non-empty: infrastructure problem (ceiling), no verdict
	Done     bool
	Stuck    bool
	Program  *gen.Program
	Summary  Summary
	// ErrorsSeen are the classified error traces of the whole run.
	Answered int
	// CohortRisk: why the run is inside the pattern of known finding C05-F1
	// (model.CohortRisk); empty = the finding cannot explain a failure.
	CohortRisk []string
	// HeldBack: an inclusive gateway of the model held a token the BPMN rule
	// would have released (model.M.HeldBack); both are allowed by C05.
	HeldBack bool
}

// Hooks lets property tests observe/extend the run.
type Hooks struct {
	// AfterStart is called after the start step (instance quiescent).
	AfterStart func(in *Inst, m *model.M)
	// BeforeClose is called at the end while the instance is still alive.
	BeforeClose func(in *Inst, m *model.M, out *Outcome)
	// Defs, if set, supplies an already parsed model instead of parsing the XML.
	NewInst func(xml string, vars map[string]any) (*Inst, error)
	// SkipVarCheck disables the final variable comparison.
	SkipVarCheck bool
	// AllowOtherErrors: error traces other than gateway / task errors are not a
	// failure (e.g. conditions that cannot be evaluated by design of the case).
	AllowOtherErrors bool
	// KeepAlive: do not cancel/close the instance (caller does).
	KeepAlive bool
}

// SplitVars separates a case's variable map into the instance variables and
// the data objects (keys gen.DataObjKey(name)).
func SplitVars(all map[string]any) (vars, dataObjects map[string]any) {
	for k, v := range all {
		if strings.HasPrefix(k, "$do$") {
			if dataObjects == nil {
				dataObjects = map[string]any{}
			}
			dataObjects[strings.TrimPrefix(k, "$do$")] = v
			continue
		}
		if vars == nil {
			vars = map[string]any{}
		}
		vars[k] = v
	}
	return
}

func multisetDiff(want, got []string) (missing, extra []string) {
	cnt := map[string]int{}
	for _, w := range want {
		cnt[w]++
	}
	for _, g := range got {
		cnt[g]--
	}
	keys := make([]string, 0, len(cnt))
	for k := range cnt {
		keys = append(keys, k)
	}
	sort.Strings(keys)
	for _, k := range keys {
		for i := 0; i < cnt[k]; i++ {
			missing = append(missing, k)
		}
		for i := 0; i < -cnt[k]; i++ {
			extra = append(extra, k)
		}
	}
	return
}

// BuildProgram lowers the case's AST (or uses Graph).
func (c *Case) BuildProgram() (*gen.Program, *gen.Lowered) {
	if c.Graph != nil {
		return &gen.Program{G: c.Graph, DefaultLang: c.Lang, DeclSeed: c.DeclSeed}, nil
	}
	lw := gen.LowerStyle(c.Prog, c.IDStyle)
	return &gen.Program{G: lw.G, DefaultLang: c.Lang, DeclSeed: c.DeclSeed}, lw
}

func (c *Case) answerFor(node string, k int) model.Answer {
	as := c.Answers[node]
	if len(as) == 0 {
		return model.Answer{Kind: model.AnsOK}
	}
	if k >= len(as) {
		k = len(as) - 1
	}
	return as[k]
}

// ApplyDataObjects gives the data objects declared in the process (id != name)
// their values the way the repository's own fixture does it: through the
// locator, by name, before the start.
func ApplyDataObjects(in *Inst, do map[string]any) {
	for name, v := range do {
		loc, ok := in.P.Locator().FindIItemAwareLocator(data.LocatorObject)
		if !ok {
			continue // the program declares no data object
		}
		if aware, found := loc.FindItemAwareByName(name); found {
			aware.Put(schema.NewValue(v))
		}
	}
}

// RunLockstep executes the case against the engine and the model in
// lock-step; pick chooses among n pending requests (nil: from c.Schedule).
func RunLockstep(c *Case, pick func(n int) int, hk *Hooks) *Outcome {
	if hk == nil {
		hk = &Hooks{}
	}
	out := &Outcome{}
	prog, _ := c.BuildProgram()
	out.Program = prog
	xml := prog.XML()
	schedPos := 0
	if pick == nil {
		pick = func(n int) int {
			v := 0
			if schedPos < len(c.Schedule) {
				v = c.Schedule[schedPos]
			}
			schedPos++
			if v < 0 {
				v = -v
			}
			return v % n
		}
	}

	if c.Perturb != 0 {
		perturb.Install(c.Perturb, 30, nil)
		defer perturb.Remove()
	}
	var in *Inst
	var err error
	if hk.NewInst != nil {
		in, err = hk.NewInst(xml, c.Vars)
	} else {
		ev, do := SplitVars(c.Vars)
		in, err = New(xml, Options{Vars: ev, SplitCtx: c.CancelBuildAfter > 0})
		if err == nil {
			ApplyDataObjects(in, do)
		}
	}
	if err != nil {
		out.Symptom, out.Detail = "construct", err.Error()+"\n"+xml
		return out
	}
	if !hk.KeepAlive {
		defer in.Close()
	}
	m := model.New(prog.G, c.Vars)
	defer func() { out.CohortRisk, out.HeldBack = m.CohortRisk(), m.HeldBack }()

	fail := func(sym, detail string, gs []quiesce.G) *Outcome {
		if os.Getenv("VERIF_DEBUG") != "" && (sym == "missing-request" || sym == "extra-request") {
			all := quiesce.Dump(quiesce.All())
			time.Sleep(150 * time.Millisecond)
			var later []string
			for _, tt := range in.NewTasks() {
				later = append(later, elemID(tt.GetActivity().Element()))
			}
			fmt.Fprintf(os.Stderr, "VERIF-DEBUG %s %s\nlater tasks: %v\nVERDICT-SNAPSHOT(mine):\n%s\nSNAPSHOT(all goroutines just after the verdict):\n%s\n", sym, detail, later, quiesce.Dump(gs), all)
		}
		out.Symptom, out.Detail = sym, detail
		out.Traces = DescribeAll(in.Traces())
		if gs != nil {
			out.Gs = quiesce.Dump(gs)
		}
		return out
	}

	// an instance that does not come to rest and has meanwhile produced tens
	// of thousands of traces (a whole conforming run of the largest generated
	// program stays below two thousand) is not slow, it is running in circles
	livelock := func(stage string, qerr error) *Outcome {
		if n := in.TraceCount(); n > 50000 {
			return fail("livelock", fmt.Sprintf("%s: the instance does not come to rest and has produced %d traces so far (it runs in circles): %.600s", stage, n, qerr.Error()), nil)
		}
		return nil
	}
	// pending engine requests by node id (FIFO)
	pend := map[string][]bpmn.TaskTrace{}
	kindOf := map[string]string{}
	prog.G.AllNodes(func(n *gen.Node, _ *gen.Graph) {
		if n.Kind == gen.KTask {
			k := n.TaskKind
			if k == "" {
				k = "task"
			}
			kindOf[n.ID] = k
		}
	})
	wrongType, wrongCtx := "", ""
	takeNew := func() []string {
		var ids []string
		for _, tt := range in.NewTasks() {
			id := elemID(tt.GetActivity().Element())
			pend[id] = append(pend[id], tt)
			ids = append(ids, id)
			// the request names the activity kind of the element it is for
			// (wherever the element sits: process level or inside sub-processes)
			if k, ok := kindOf[id]; ok && wrongType == "" {
				if got := string(tt.GetActivity().Type()); !strings.EqualFold(got, k) {
					wrongType = fmt.Sprintf("request for <%s id=%q> carries activity type %q", k, id, got)
				}
			}
			// ... and is made in the context the instance was started with
			// (its values, deadline, cancellation), at process level and inside
			// sub-processes alike
			if wrongCtx == "" && !CarriesRun(tt) {
				wrongCtx = fmt.Sprintf("the request for %q carries a context that does not descend from the context given to StartAll", id)
			}
		}
		sort.Strings(ids)
		return ids
	}

	// ---- start ------------------------------------------------------------
	startDone := make(chan error, 1)
	go func() { startDone <- in.StartAll() }()
	gs, qerr := in.Quiesce()
	if qerr != nil {
		out.Inconcl = "start: " + qerr.Error()
		return out
	}
	select {
	case e := <-startDone:
		if e != nil {
			return fail("start-error", e.Error(), gs)
		}
	default:
		return fail("start-blocked", "StartAll has not returned although every goroutine of the instance is parked", gs)
	}
	obs := m.Start()
	got := takeNew()
	obs.Requests = reconcile(m, obs.Requests, got)
	out.Steps = append(out.Steps, Step{Stimulus: "start", Expected: obs.Requests, Got: got})
	if miss, extra := multisetDiff(obs.Requests, got); len(miss)+len(extra) > 0 {
		sym := "missing-request"
		if len(extra) > 0 {
			sym = "extra-request"
		}
		return fail(sym, fmt.Sprintf("after start: missing %v extra %v (model pending %v)", miss, extra, m.PendingIDs()), gs)
	}
	if hk.AfterStart != nil {
		hk.AfterStart(in, m)
	}
	reqCount := map[string]int{}
	// a waiter that lives through the whole run: it must never report
	// completion while the model still holds a token or a request is pending
	earlyCtx, earlyCancel := context.WithCancel(context.Background())
	defer earlyCancel()
	earlyRes := make(chan bool, 1)
	go func() { earlyRes <- in.P.WaitUntilComplete(earlyCtx) }()
	earlyReturned := false
	// The property lets an inclusive gateway fire as early as the BPMN rule
	// allows; the model holds such tokens back until the late bound. When the
	// engine reports completion, joins the early rule enables are therefore
	// fired in the model before the two are compared (an early firing that
	// asks for a task contradicts the completion and is left to the caller).
	settleEarly := func() {
		for i := 0; i < 16 && !m.Done(); i++ {
			amb := m.AmbiguousJoins()
			if len(amb) == 0 {
				return
			}
			if o := m.FireEarly(amb[0]); len(o.Requests) > 0 {
				return
			}
		}
	}
	checkEarly := func(stage string, gs []quiesce.G) *Outcome {
		if earlyReturned {
			return nil
		}
		select {
		case v := <-earlyRes:
			earlyReturned = true
			if v {
				settleEarly()
			}
			if v && !m.Done() {
				return fail("complete-early", fmt.Sprintf("%s: WaitUntilComplete returned true while the model still holds tokens (pending %v)", stage, m.PendingIDs()), gs)
			}
		default:
		}
		return nil
	}

	// ---- answer loop ----------------------------------------------------------
	for len(m.Pending) > 0 {
		if len(m.Pending) > out.MaxPend {
			out.MaxPend = len(m.Pending)
		}
		if out.Answered > 400 {
			out.Inconcl = "more than 400 answers (runaway loop in the generated plan)"
			return out
		}
		// canonical order of the pending set: by node id then request sequence
		idx := make([]int, len(m.Pending))
		for i := range idx {
			idx[i] = i
		}
		sort.SliceStable(idx, func(a, b int) bool {
			ra, rb := m.Pending[idx[a]], m.Pending[idx[b]]
			if c.Rank != nil && c.Rank[ra.Node.ID] != c.Rank[rb.Node.ID] {
				return c.Rank[ra.Node.ID] < c.Rank[rb.Node.ID]
			}
			if ra.Node.ID != rb.Node.ID {
				return ra.Node.ID < rb.Node.ID
			}
			return ra.Seq < rb.Seq
		})
		pi := idx[pick(len(idx))]
		req := m.Pending[pi]
		node := req.Node.ID
		q := pend[node]
		if len(q) == 0 {
			return fail("missing-request", "internal: model pending "+node+" has no engine request", nil)
		}
		tt := q[0]
		pend[node] = q[1:]
		ans := c.answerFor(node, reqCount[node])
		reqCount[node]++
		if req.Node.Kind == gen.KTask && len(req.Node.Results) > 0 {
			for _, r := range req.Node.Results {
				if strings.HasPrefix(r, "lp") {
					if b, _ := ans.Results[r].(bool); b {
						out.LoopIter++
					}
				}
			}
		}
		doAnswer(tt, ans)
		out.Answered++
		if c.CancelBuildAfter > 0 && out.Answered == c.CancelBuildAfter {
			// the construction context ends; the run context lives on
			in.CancelBuild()
		}
		obs = m.Answer(pi, ans)
		gs, qerr = in.Quiesce()
		if qerr != nil {
			if o := livelock("after answering "+node, qerr); o != nil {
				return o
			}
			out.Inconcl = "after answering " + node + ": " + qerr.Error()
			return out
		}
		got = takeNew()
		if o := checkEarly("after answering "+node, gs); o != nil {
			return o
		}
		obs.Requests = reconcile(m, obs.Requests, got)
		out.Steps = append(out.Steps, Step{Stimulus: fmt.Sprintf("answer %s %s %v", node, ans.Kind, ans.Results), Expected: obs.Requests, Got: got})
		if miss, extra := multisetDiff(obs.Requests, got); len(miss)+len(extra) > 0 {
			sym := "missing-request"
			if len(extra) > 0 {
				sym = "extra-request"
			}
			return fail(sym, fmt.Sprintf("after answering %s: missing %v extra %v (model pending %v)", node, miss, extra, m.PendingIDs()), gs)
		}
	}

	// ---- end state ------------------------------------------------------------
	if wrongType != "" {
		return fail("activity-type", wrongType, nil)
	}
	if wrongCtx != "" {
		return fail("task-context", wrongCtx, nil)
	}
	out.Done, out.Stuck = m.Done(), m.StuckBySpec()
	wctx, wcancel := context.WithCancel(context.Background())
	wres := make(chan bool, 1)
	go func() { wres <- in.P.WaitUntilComplete(wctx) }()
	gs, qerr = in.Quiesce()
	if qerr != nil {
		wcancel()
		if o := livelock("at the end", qerr); o != nil {
			return o
		}
		out.Inconcl = "final: " + qerr.Error()
		return out
	}
	returned, complete := false, false
	select {
	case complete = <-wres:
		returned = true
	default:
	}
	wcancel()
	if !returned {
		select {
		case <-wres:
		case <-time.After(5 * time.Second):
		}
	}
	if returned && complete {
		settleEarly()
	}
	if m.Done() {
		if !returned || !complete {
			return fail("not-complete", fmt.Sprintf("model: no token left, all start events fired; WaitUntilComplete returned=%v value=%v at quiescence", returned, complete), gs)
		}
	} else {
		if returned && complete {
			return fail("complete-early", fmt.Sprintf("WaitUntilComplete returned true while the model still holds tokens (stuck by specification at %v)", stuckNodes(m)), gs)
		}
	}
	tr := in.Traces()
	sum := Summarize(tr)
	out.Summary = sum
	if miss, extra := multisetDiff(m.AllFlows, sum.Flows); len(miss)+len(extra) > 0 {
		return fail("flows", fmt.Sprintf("sequence flows taken: missing %v extra %v", miss, extra), gs)
	}
	if miss, extra := multisetDiff(m.AllEnds, sum.Ends); len(miss)+len(extra) > 0 {
		return fail("ends", fmt.Sprintf("end events reached: missing %v extra %v", miss, extra), gs)
	}
	if miss, extra := multisetDiff(m.AllLandmarks, sum.Landmarks); len(miss)+len(extra) > 0 {
		return fail("landmarks", fmt.Sprintf("sub-process completions: missing %v extra %v", miss, extra), gs)
	}
	// (after the flow comparison: a gateway that fires twice - a flows failure
	// with a cause of its own - makes a sub-process relay its inner traces twice)
	if rep := RepeatedFlowID(tr); rep != "" {
		return fail("flow-id-repeat", rep, gs)
	}
	// error traces: one per token that found no effective flow at an exclusive /
	// inclusive gateway (naming the gateway), one per task answer carrying an error
	var gotErr, unexpected []string
	for _, e := range sum.Errors {
		if strings.HasPrefix(e, "other:") {
			unexpected = append(unexpected, e)
		} else {
			gotErr = append(gotErr, e)
		}
	}
	if miss, extra := multisetDiff(m.AllErrors, gotErr); len(miss)+len(extra) > 0 {
		return fail("errors", fmt.Sprintf("error traces: missing %v extra %v", miss, extra), gs)
	}
	if len(unexpected) > 0 && !hk.AllowOtherErrors {
		return fail("unexpected-error", fmt.Sprint(unexpected), gs)
	}
	if hk.BeforeClose != nil {
		hk.BeforeClose(in, m, out)
		if out.Symptom != "" {
			out.Traces = DescribeAll(in.Traces())
			return out
		}
	}
	if m.Done() && sum.Cease != 1 {
		return fail("cease-count", fmt.Sprintf("instance complete but %d CeaseFlowTrace for the process", sum.Cease), gs)
	}
	if !m.Done() && sum.Cease != 0 {
		return fail("cease-count", fmt.Sprintf("instance not complete but %d CeaseFlowTrace", sum.Cease), gs)
	}
	if !hk.SkipVarCheck {
		gotVars := map[string]any{}
		for k, it := range in.P.Locator().CloneVariables() {
			gotVars[k] = it.Value()
		}
		wantVars, _ := SplitVars(m.Vars)
		if wantVars == nil {
			wantVars = map[string]any{}
		}
		if !reflect.DeepEqual(gotVars, wantVars) {
			return fail("vars", fmt.Sprintf("final variables: engine %v, model %v", gotVars, m.Vars), gs)
		}
	}
	return out
}

// reconcile accepts an inclusive join that fired inside the window the
// property allows (after every branch leading to it delivered, before every
// token of the fork has arrived or ended): if the engine shows requests the
// late-rule model does not expect and an ambiguous join exists, the model
// fires it by the early rule.
func reconcile(m *model.M, expected, got []string) []string {
	for i := 0; i < 8; i++ {
		_, extra := multisetDiff(expected, got)
		if len(extra) == 0 {
			return expected
		}
		amb := m.AmbiguousJoins()
		if len(amb) == 0 {
			return expected
		}
		o := m.FireEarly(amb[0])
		expected = append(append([]string(nil), expected...), o.Requests...)
		sort.Strings(expected)
	}
	return expected
}

func stuckNodes(m *model.M) []string {
	var out []string
	for _, t := range m.StuckTokens {
		out = append(out, t.Node)
	}
	return out
}

type planErr struct{ s string }

func (e planErr) Error() string { return e.s }

// DoAnswer performs an answer of the given kind on a task request.
func DoAnswer(tt bpmn.TaskTrace, a model.Answer) { doAnswer(tt, a) }

func doAnswer(tt bpmn.TaskTrace, a model.Answer) {
	switch a.Kind {
	case model.AnsOK, "":
		if len(a.Results) > 0 {
			tt.Do(bpmn.DoWithResults(a.Results))
		} else {
			tt.Do()
		}
	case model.AnsErr:
		tt.Do(bpmn.DoWithErr(planErr{"planned error"}))
	default:
		ch := make(chan bpmn.ErrHandler, 1)
		switch a.Kind {
		case model.AnsSkip:
			ch <- bpmn.ErrHandler{Mode: bpmn.SkipMode}
		case model.AnsExit:
			ch <- bpmn.ErrHandler{Mode: bpmn.ExitMode}
		case model.AnsRetry:
			ch <- bpmn.ErrHandler{Mode: bpmn.RetryMode, Retries: int32(a.Retries)}
		}
		tt.Do(bpmn.DoWithErrHandle(planErr{"planned error"}, ch))
	}
}
