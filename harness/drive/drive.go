// Package drive runs one engine instance through the public API only and
// exposes what a user can observe: the trace stream, task requests,
// WaitUntilComplete, the locator. See DESIGN.md 2.3.
package drive

import (
	"context"
	"fmt"
	"os"
	"sort"
	"strings"
	"sync"
	"sync/atomic"
	"time"

	"github.com/olive-io/bpmn/schema"
	bpmn "github.com/olive-io/bpmn/v2"
	"github.com/olive-io/bpmn/v2/pkg/clock"
	bpmnerrors "github.com/olive-io/bpmn/v2/pkg/errors"
	"github.com/olive-io/bpmn/v2/pkg/event"
	"github.com/olive-io/bpmn/v2/pkg/timer"
	"github.com/olive-io/bpmn/v2/pkg/tracing"

	"verif/harness/quiesce"
)

// Inst is a running instance with a recording subscriber.
type Inst struct {
	Defs   *schema.Definitions
	P      *bpmn.Process
	Ctx    context.Context
	Cancel context.CancelFunc
	Tr     *quiesce.Tracker
	// Clock is the mock clock of an instance created with Options.MockClock.
	Clock *clock.Mock

	// split contexts (Options.SplitCtx): base of the run context
	runBase   context.Context
	runCancel context.CancelFunc

	sub     chan tracing.ITrace
	mu      sync.Mutex
	traces  []tracing.ITrace
	tasks   []bpmn.TaskTrace
	taken   int
	readerD chan struct{}
	held     *heldIngress
	heldOnce sync.Once
	// OnTrace, if set, is called by the reader goroutine for every trace
	// (after recording). Used by C07 to cancel at an exact trace position.
	OnTrace func(idx int, t tracing.ITrace)
}

// Options for New.
type Options struct {
	Vars    map[string]any
	Extra   []bpmn.Option
	Tracker *quiesce.Tracker // nil: a new baseline is taken
	Ctx     context.Context
	// SplitCtx: the context the instance is STARTED with does not descend from
	// the context it is CONSTRUCTED with (bpmn.WithContext): Inst.CancelBuild
	// ends the construction context alone.
	SplitCtx bool
	// MockClock gives the instance a mock clock (at ClockBase), an own event
	// bus and the timer event definition builder, so that timer events in the
	// model fire when the test advances Inst.Clock - no real time involved.
	MockClock bool
	// BusyBus: the instance gets its events from an event source of the
	// caller's (bpmn.WithEventEgress) on which something happens while the
	// instance is still being built: every consumer that registers with the
	// source is handed an event nobody waits for straight away.
	BusyBus bool
	// HostTimers gives the instance the timer event definition builder on the
	// host clock (real time): only for timers that are not due during the test.
	HostTimers bool
	// ForeignDefs: the instance is created with the package-level
	// bpmn.NewProcess(processElement, definitions) and a definitions value
	// that is NOT the element's own document (schema.DefaultDefinitions()), as
	// the repository's engine tests do for explicit instantiation.
	ForeignDefs bool
	// HeldIngress (with MockClock): the event ingress the timers publish to
	// holds the FIRST timer event it is handed until Inst.ReleaseIngress is
	// called (a slow consumer): the next firing of a cycle timer then waits to
	// be handed over.
	HeldIngress bool
}

// heldIngress passes events on to the fan-out; the first timer event waits at the gate.
type heldIngress struct {
	fan  *event.FanOut
	gate chan struct{}
	seen int32
}

func (h *heldIngress) ConsumeEvent(ev event.IEvent) (event.ConsumptionResult, error) {
	isTimer := false
	switch ev.(type) {
	case event.TimerEvent, *event.TimerEvent:
		isTimer = true
	}
	if isTimer && atomic.AddInt32(&h.seen, 1) == 1 {
		<-h.gate
	}
	return h.fan.ConsumeEvent(ev)
}

// busySource hands every new consumer a retained event at registration.
type busySource struct{ fan *event.FanOut }

func (b busySource) RegisterEventConsumer(c event.IConsumer) error {
	err := b.fan.RegisterEventConsumer(c)
	_, _ = c.ConsumeEvent(event.NewSignalEvent("verif-retained"))
	return err
}

// ClockBase is the time a mock clock starts at.
var ClockBase = time.Date(2030, 1, 1, 0, 0, 0, 0, time.UTC)

// New parses the document and creates (but does not start) the instance.
func New(xmlDoc string, o Options) (*Inst, error) {
	tr := o.Tracker
	if tr == nil {
		tr = quiesce.Begin()
	}
	defs, err := schema.Parse([]byte(xmlDoc))
	if err != nil {
		return nil, fmt.Errorf("parse: %w", err)
	}
	return NewFromDefs(defs, tr, o)
}

// NewFromDefs creates the instance from a parsed model.
func NewFromDefs(defs *schema.Definitions, tr *quiesce.Tracker, o Options) (*Inst, error) {
	parent := o.Ctx
	if parent == nil {
		parent = context.Background()
	}
	ctx, cancel := context.WithCancel(parent)
	var mock *clock.Mock
	var held *heldIngress
	if o.MockClock {
		mock = clock.NewMockAt(ClockBase)
		ctx = clock.ToContext(ctx, mock)
	}
	opts := []bpmn.Option{bpmn.WithContext(ctx)}
	if o.Vars != nil {
		opts = append(opts, bpmn.WithVariables(o.Vars))
	}
	if o.MockClock {
		fan := event.NewFanOut()
		tracer := tracing.NewTracer(ctx)
		// (as package model of the repository does: timer builder first, the
		// plain wrapping builder for every other kind of definition)
		builder := event.DefinitionInstanceBuildingChain(timer.EventDefinitionInstanceBuilder(ctx, fan, tracer), event.WrappingDefinitionInstanceBuilder)
		var src event.ISource = fan
		if o.BusyBus {
			src = busySource{fan}
		}
		var ingress event.IConsumer = fan
		if o.HeldIngress {
			held = &heldIngress{fan: fan, gate: make(chan struct{})}
			ingress = held
			builder = event.DefinitionInstanceBuildingChain(timer.EventDefinitionInstanceBuilder(ctx, held, tracer), event.WrappingDefinitionInstanceBuilder)
		}
		opts = append(opts, bpmn.WithTracer(tracer), bpmn.WithProcessEventDefinitionInstanceBuilder(builder),
			bpmn.WithEventEgress(src), bpmn.WithEventIngress(ingress))
	} else if o.HostTimers {
		fan := event.NewFanOut()
		tracer := tracing.NewTracer(ctx)
		builder := event.DefinitionInstanceBuildingChain(timer.EventDefinitionInstanceBuilder(ctx, fan, tracer), event.WrappingDefinitionInstanceBuilder)
		opts = append(opts, bpmn.WithTracer(tracer), bpmn.WithProcessEventDefinitionInstanceBuilder(builder),
			bpmn.WithEventEgress(fan), bpmn.WithEventIngress(fan))
	} else if o.BusyBus {
		fan := event.NewFanOut()
		opts = append(opts, bpmn.WithEventEgress(busySource{fan}), bpmn.WithEventIngress(fan))
	}
	opts = append(opts, o.Extra...)
	var p *bpmn.Process
	var err error
	if o.ForeignDefs && len(*defs.Processes()) > 0 {
		foreign := schema.DefaultDefinitions()
		p, err = bpmn.NewProcess(&(*defs.Processes())[0], &foreign, opts...)
	} else {
		p, err = bpmn.NewEngine().NewProcess(defs, opts...)
	}
	if err != nil {
		cancel()
		return nil, fmt.Errorf("new process: %w", err)
	}
	in := &Inst{Defs: defs, P: p, Ctx: ctx, Cancel: cancel, Tr: tr, Clock: mock, readerD: make(chan struct{}), held: held}
	if o.SplitCtx {
		in.runBase, in.runCancel = context.WithCancel(context.Background())
		if mock != nil {
			in.runBase = clock.ToContext(in.runBase, mock)
		}
	}
	in.sub = p.Tracer().SubscribeChannel(make(chan tracing.ITrace))
	go in.reader()
	return in, nil
}

func (in *Inst) reader() {
	defer close(in.readerD)
	for t := range in.sub {
		if t == nil {
			continue
		}
		u := tracing.Unwrap(t)
		in.mu.Lock()
		in.traces = append(in.traces, u)
		idx := len(in.traces) - 1
		if tt, ok := u.(bpmn.TaskTrace); ok {
			in.tasks = append(in.tasks, tt)
		}
		cb := in.OnTrace
		in.mu.Unlock()
		if cb != nil {
			cb(idx, u)
		}
	}
}

type runKey struct{}

// RunValue is the value the context given to StartAll carries (and the
// context the instance was constructed with does not): a task request is made
// on behalf of the run, so its context must carry it, wherever the task sits.
const RunValue = "verif-run"

// RunContext is the context handed to StartAll: derived from the instance's
// context (so Cancel reaches it) plus the run value.
func (in *Inst) RunContext() context.Context {
	if in.runBase != nil {
		return context.WithValue(in.runBase, runKey{}, RunValue)
	}
	return context.WithValue(in.Ctx, runKey{}, RunValue)
}

// CancelBuild ends the construction context only (Options.SplitCtx).
func (in *Inst) CancelBuild() { in.Cancel() }

// CancelRun ends the context the instance was started with (Options.SplitCtx).
// ReleaseIngress lets a held first timer event (Options.HeldIngress) through.
func (in *Inst) ReleaseIngress() {
	if in.held != nil {
		in.heldOnce.Do(func() { close(in.held.gate) })
	}
}

func (in *Inst) CancelRun() {
	if in.runCancel != nil {
		in.runCancel()
	}
}

// CarriesRun reports whether a task request's context descends from the
// context the instance was started with.
func CarriesRun(tt bpmn.TaskTrace) bool {
	c := tt.Context()
	return c != nil && c.Value(runKey{}) == RunValue
}

// StartAll starts the instance (all start events).
func (in *Inst) StartAll() error { return in.P.StartAll(in.RunContext()) }

// Quiesce waits for the all-parked fixpoint.
func (in *Inst) Quiesce() ([]quiesce.G, error) { return in.Tr.Wait(0) }

// NewTasks returns the task requests that arrived since the last call.
func (in *Inst) NewTasks() []bpmn.TaskTrace {
	in.mu.Lock()
	defer in.mu.Unlock()
	out := append([]bpmn.TaskTrace(nil), in.tasks[in.taken:]...)
	in.taken = len(in.tasks)
	return out
}

// Traces returns a copy of everything recorded so far.
func (in *Inst) Traces() []tracing.ITrace {
	in.mu.Lock()
	defer in.mu.Unlock()
	return append([]tracing.ITrace(nil), in.traces...)
}

// TraceCount returns the number of traces recorded.
func (in *Inst) TraceCount() int {
	in.mu.Lock()
	defer in.mu.Unlock()
	return len(in.traces)
}

// Close cancels the instance and waits (bounded) for the reader to end.
func (in *Inst) Close() {
	in.Cancel()
	if in.runCancel != nil {
		in.runCancel()
	}
	in.ReleaseIngress()
	t0 := time.Now()
	defer func() {
		if d := time.Since(t0); d > 200*time.Millisecond && os.Getenv("VERIF_DEBUG") != "" {
			fmt.Fprintf(os.Stderr, "SLOW CLOSE %v\n%s\n", d, quiesce.Dump(in.Tr.Mine()))
		}
	}()
	select {
	case <-in.readerD:
	case <-time.After(2 * time.Second):
		// tracer did not terminate (leak) - keep draining in the background so
		// that later cases are not affected by a blocked broadcaster.
	}
}

// RepeatedFlowID returns a description of the first flow id that is announced
// (NewFlowTrace) more than once in the stream, or "".
func RepeatedFlowID(traces []tracing.ITrace) string {
	seen := map[string]int{}
	for i, t := range traces {
		if nf, ok := t.(bpmn.NewFlowTrace); ok {
			id := nf.FlowId.String()
			if at, dup := seen[id]; dup {
				return fmt.Sprintf("flow id %s is announced by NewFlowTrace at trace %d and again at trace %d", id, at, i)
			}
			seen[id] = i
		}
	}
	return ""
}

// Summary is the comparable digest of a trace slice.
type Summary struct {
	Requests  []string
	Flows     []string
	Ends      []string
	Errors    []string
	Landmarks []string
	Cease     int
	Other     []string // unexpected error texts
}

func elemID(n any) string {
	if b, ok := n.(schema.BaseElementInterface); ok {
		if id, present := b.Id(); present {
			return *id
		}
	}
	return "?"
}

// Summarize digests traces[from:].
func Summarize(traces []tracing.ITrace) Summary {
	var s Summary
	for _, t := range traces {
		switch tr := t.(type) {
		case bpmn.TaskTrace:
			s.Requests = append(s.Requests, elemID(tr.GetActivity().Element()))
		case bpmn.FlowTrace:
			for i := range tr.Flows {
				sf := tr.Flows[i].SequenceFlow()
				if sf != nil {
					if id, ok := sf.Id(); ok {
						s.Flows = append(s.Flows, *id)
					}
				}
			}
		case bpmn.CompletionTrace:
			if _, ok := tr.Node.(*schema.EndEvent); ok {
				s.Ends = append(s.Ends, elemID(tr.Node))
			}
		case bpmn.ErrorTrace:
			s.Errors = append(s.Errors, ClassifyError(tr.Error))
		case bpmn.ProcessLandMarkTrace:
			s.Landmarks = append(s.Landmarks, elemID(tr.Node))
		case bpmn.CeaseFlowTrace:
			if _, ok := tr.Process.(*schema.Process); ok {
				s.Cease++
			}
		}
	}
	sort.Strings(s.Requests)
	sort.Strings(s.Flows)
	sort.Strings(s.Ends)
	sort.Strings(s.Errors)
	sort.Strings(s.Landmarks)
	return s
}

// ClassifyError maps engine errors to the model's error keys.
func ClassifyError(err error) string {
	switch e := err.(type) {
	case bpmn.ExclusiveNoEffectiveSequenceFlows:
		return "xor:" + elemID(e.ExclusiveGateway)
	case bpmn.InclusiveNoEffectiveSequenceFlows:
		return "inc:" + elemID(e.InclusiveGateway)
	}
	if te, ok := err.(bpmnerrors.TaskExecError); ok {
		return "task:" + te.Id
	}
	return "other:" + fmt.Sprintf("%T:%v", err, err)
}

// Describe renders a trace compactly for histories in replay files.
func Describe(t tracing.ITrace) string {
	switch tr := t.(type) {
	case bpmn.TaskTrace:
		return "Task(" + elemID(tr.GetActivity().Element()) + ")"
	case bpmn.FlowTrace:
		var fl []string
		for i := range tr.Flows {
			sf := tr.Flows[i].SequenceFlow()
			id := "?"
			if sf != nil {
				if p, ok := sf.Id(); ok {
					id = *p
				}
			}
			fl = append(fl, id+"#"+tr.Flows[i].Id().String())
		}
		return "Flow(" + elemID(tr.Source) + "->" + strings.Join(fl, ",") + ")"
	case bpmn.VisitTrace:
		return "Visit(" + elemID(tr.Node) + ")"
	case bpmn.LeaveTrace:
		return "Leave(" + elemID(tr.Node) + ")"
	case bpmn.CompletionTrace:
		return "Completion(" + elemID(tr.Node) + ")"
	case bpmn.TerminationTrace:
		return "Termination(" + elemID(tr.Source) + "#" + tr.FlowId.String() + ")"
	case bpmn.NewFlowTrace:
		return "NewFlow(#" + tr.FlowId.String() + ")"
	case bpmn.ErrorTrace:
		return "Error(" + ClassifyError(tr.Error) + ")"
	case bpmn.CeaseFlowTrace:
		return "CeaseFlow(" + elemID(tr.Process) + ")"
	case bpmn.ProcessLandMarkTrace:
		return "LandMark(" + elemID(tr.Node) + ")"
	case bpmn.CancellationFlowTrace:
		return "CancelFlow(" + elemID(tr.Node) + ")"
	case bpmn.CancellationFlowNodeTrace:
		return "CancelNode(" + elemID(tr.Node) + ")"
	case bpmn.ActiveBoundaryTrace:
		return fmt.Sprintf("ActiveBoundary(%s,%v)", elemID(tr.Node), tr.Start)
	case bpmn.ActiveListeningTrace:
		return "Listening(" + elemID(tr.Node) + ")"
	case bpmn.EventObservedTrace:
		return "EventObserved(" + elemID(tr.Node) + ")"
	case bpmn.DeterminationMadeTrace:
		return "Determination(" + elemID(tr.Node) + ")"
	case bpmn.IncomingFlowProcessedTrace:
		return "IncomingProcessed(" + elemID(tr.Node) + ")"
	case bpmn.InstantiationTrace:
		return "Instantiation"
	}
	return fmt.Sprintf("%T", t)
}

// DescribeAll renders a trace slice.
func DescribeAll(ts []tracing.ITrace) []string {
	out := make([]string, len(ts))
	for i, t := range ts {
		out[i] = Describe(t)
	}
	return out
}

// Signal / Message make events. Events are immutable values: a caller may
// well keep ONE object per signal / message and hand it to instances again and
// again, so the harness does exactly that (the same object for the same
// reference, process-wide) - an engine that remembers the event it saw last
// meets the very same object the next time.
var evPool sync.Map

func Signal(ref string) event.IEvent {
	if e, ok := evPool.Load("s:" + ref); ok {
		return e.(event.IEvent)
	}
	e, _ := evPool.LoadOrStore("s:"+ref, event.NewSignalEvent(ref))
	return e.(event.IEvent)
}
func Message(ref string, op string) event.IEvent {
	key := "m:" + ref + "\x00" + op
	if e, ok := evPool.Load(key); ok {
		return e.(event.IEvent)
	}
	var ne event.IEvent
	if op == "" {
		ne = event.NewMessageEvent(ref, nil)
	} else {
		o := op
		ne = event.NewMessageEvent(ref, &o)
	}
	e, _ := evPool.LoadOrStore(key, ne)
	return e.(event.IEvent)
}
