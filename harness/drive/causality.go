package drive

import (
	"fmt"

	bpmn "github.com/olive-io/bpmn/v2"
	"github.com/olive-io/bpmn/v2/pkg/tracing"
)

// Causality checks the ordering grammar of C09 on a recorded trace sequence:
//   - NewFlowTrace(id) occurs once and is the first trace attributable to a
//     forked flow except for the FlowTrace that announces it; the announcing
//     FlowTrace precedes it
//   - per node, at every prefix #Leave <= #Visit
//   - nothing attributable to a flow follows its TerminationTrace
//
// It returns "" or a description of the first violation; forks counts the
// FlowTraces that announced more than one flow.
func Causality(traces []tracing.ITrace) (violation string, forks int) {
	newSeen := map[string]int{}
	terminated := map[string]int{}
	announced := map[string]int{}
	visits := map[string]int{}
	leaves := map[string]int{}
	for i, t := range traces {
		switch tr := t.(type) {
		case bpmn.NewFlowTrace:
			id := tr.FlowId.String()
			if _, dup := newSeen[id]; dup {
				return fmt.Sprintf("trace %d: NewFlowTrace for flow %s appears twice", i, id), forks
			}
			if at, ok := terminated[id]; ok {
				return fmt.Sprintf("trace %d: NewFlowTrace for flow %s after its TerminationTrace at %d", i, id, at), forks
			}
			newSeen[id] = i
		case bpmn.FlowTrace:
			if len(tr.Flows) > 1 {
				forks++
			}
			for k := range tr.Flows {
				id := tr.Flows[k].Id().String()
				if at, ok := terminated[id]; ok {
					return fmt.Sprintf("trace %d: FlowTrace mentions flow %s after its TerminationTrace at %d", i, id, at), forks
				}
				if k == 0 {
					// the continuing flow must already exist
					if _, ok := newSeen[id]; !ok {
						return fmt.Sprintf("trace %d: FlowTrace of continuing flow %s precedes its NewFlowTrace", i, id), forks
					}
					continue
				}
				if at, ok := newSeen[id]; ok {
					return fmt.Sprintf("trace %d: forked flow %s was started (NewFlowTrace at %d) before the FlowTrace that announces it", i, id, at), forks
				}
				announced[id] = i
			}
		case bpmn.TerminationTrace:
			id := tr.FlowId.String()
			if _, ok := newSeen[id]; !ok {
				return fmt.Sprintf("trace %d: TerminationTrace of flow %s precedes its NewFlowTrace", i, id), forks
			}
			if at, ok := terminated[id]; ok {
				return fmt.Sprintf("trace %d: second TerminationTrace of flow %s (first at %d)", i, id, at), forks
			}
			terminated[id] = i
		case bpmn.CancellationFlowTrace:
			id := tr.FlowId.String()
			if at, ok := terminated[id]; ok {
				return fmt.Sprintf("trace %d: CancellationFlowTrace of flow %s after its TerminationTrace at %d", i, id, at), forks
			}
		case bpmn.VisitTrace:
			visits[elemID(tr.Node)]++
		case bpmn.LeaveTrace:
			n := elemID(tr.Node)
			leaves[n]++
			if leaves[n] > visits[n] {
				return fmt.Sprintf("trace %d: node %s left %d times but visited %d times", i, n, leaves[n], visits[n]), forks
			}
		}
	}
	return "", forks
}
