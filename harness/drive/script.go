package drive

import (
	"context"
	"fmt"
	"sort"
	"strings"
	"time"

	bpmn "github.com/olive-io/bpmn/v2"
	"github.com/olive-io/bpmn/v2/pkg/event"

	"verif/harness/gen"
	"verif/harness/model"
	"verif/harness/perturb"
	"verif/harness/quiesce"
)

// Stim is one external stimulus of a scripted run.
type Stim struct {
	Kind  string        `json:"kind"` // answer | event | burst
	Pick  int           `json:"pick,omitempty"`
	Ev    *model.Ev     `json:"ev,omitempty"`
	Ans   *model.Answer `json:"ans,omitempty"`
	Burst []Stim        `json:"burst,omitempty"` // issued concurrently from separate goroutines
	// kind "clock": advance the instance's mock clock by ClockS seconds; Ev (if
	// set) is the timer firing the model receives afterwards
	ClockS int `json:"clockS,omitempty"`
}

func (s Stim) String() string {
	switch s.Kind {
	case "answer":
		return fmt.Sprintf("answer#%d", s.Pick)
	case "event":
		return fmt.Sprintf("event(%s %s %s)", s.Ev.Kind, s.Ev.Ref, s.Ev.Op)
	case "clock":
		return fmt.Sprintf("clock+%ds", s.ClockS)
	case "burst", "rapid":
		var parts []string
		for _, b := range s.Burst {
			parts = append(parts, b.String())
		}
		if s.Kind == "rapid" {
			return "back-to-back{" + strings.Join(parts, " ; ") + "}"
		}
		return "burst{" + strings.Join(parts, " || ") + "}"
	}
	return s.Kind
}

// ScriptCase is a replayable scripted case.
type ScriptCase struct {
	Graph   *gen.Graph     `json:"graph"`
	Lang    string         `json:"lang"`
	Vars    map[string]any `json:"vars,omitempty"`
	Script  []Stim         `json:"script"`
	Perturb uint64         `json:"perturb,omitempty"`
	// PerturbSites limits perturbation (nil = all sites).
	PerturbSites []string `json:"perturbSites,omitempty"`
	// Drain: after the script, answer all remaining requests (pick 0) and
	// expect completion iff the model is done.
	Drain bool `json:"drain"`
	// DrainAns, if set, is the answer given by the drain (default: plain ok).
	DrainAns *model.Answer `json:"drainAns,omitempty"`
	// PreStart events are delivered before StartAll, Early events right after
	// StartAll returned without waiting for the instance to settle. Both must be
	// events that match no catch event of the program (their effect would
	// otherwise depend on timing); every delivery must return.
	PreStart []model.Ev `json:"preStart,omitempty"`
	Early    []model.Ev `json:"early,omitempty"`
	// MockClock: the instance runs on a mock clock with the timer definition
	// builder; stimuli of kind "clock" advance it.
	MockClock bool `json:"mockClock,omitempty"`
	// ModelAsIs runs the reference model with the engine's KNOWN boundary-event
	// deviations (model.M.AsIs): used to decide whether a failure is exactly a
	// listed finding or something else.
	ModelAsIs bool `json:"modelAsIs,omitempty"`
	// BusyBus: see Options.BusyBus (an event reaches the instance while it is
	// being built).
	BusyBus bool `json:"busyBus,omitempty"`
}

// ScriptOutcome of a scripted run.
type ScriptOutcome struct {
	Symptom, Detail string
	Steps           []Step
	Traces          []string
	Gs              string
	Inconcl         string
	XML             string
	Done            bool
	Fired           []string // model: catch/boundary events that fired over the run
	BurstRaces      int      // bursts with more than one possible model outcome
	Skipped         int      // answer stimuli skipped because nothing was pending
	M               *model.M
	// NodeCancels: nodes for which a CancellationFlowNodeTrace was seen while
	// the instance was alive (before the driver ended it), with multiplicity
	NodeCancels []string
}

func canonicalPending(m *model.M) []int {
	idx := make([]int, len(m.Pending))
	for i := range idx {
		idx[i] = i
	}
	sort.SliceStable(idx, func(a, b int) bool {
		ra, rb := m.Pending[idx[a]], m.Pending[idx[b]]
		if ra.Node.ID != rb.Node.ID {
			return ra.Node.ID < rb.Node.ID
		}
		return ra.Seq < rb.Seq
	})
	return idx
}

// applyModel applies one non-burst stimulus to the model; ok=false if it is
// not applicable (answer with nothing pending).
func applyModel(m *model.M, s Stim) (obs model.Obs, node string, ok bool) {
	switch s.Kind {
	case "answer":
		if len(m.Pending) == 0 {
			return model.Obs{}, "", false
		}
		idx := canonicalPending(m)
		pi := idx[s.Pick%len(idx)]
		node = m.Pending[pi].Node.ID
		a := model.Answer{Kind: model.AnsOK}
		if s.Ans != nil {
			a = *s.Ans
		}
		return m.Answer(pi, a), node, true
	case "event":
		return m.Event(*s.Ev), "", true
	case "clock":
		// the clock moved; Ev (if any) is the timer firing the generator
		// computed to fall due at the new time
		if s.Ev != nil {
			return m.Event(*s.Ev), "", true
		}
		return model.Obs{}, "", true
	}
	return model.Obs{}, "", false
}

func replayModel(g *gen.Graph, vars map[string]any, hist []Stim, asIs bool) *model.M {
	m := model.New(g, vars)
	m.AsIs = asIs
	m.Start()
	for _, s := range hist {
		applyModel(m, s)
	}
	return m
}

func permutations(n int) [][]int {
	var out [][]int
	p := make([]int, n)
	for i := range p {
		p[i] = i
	}
	var rec func(k int)
	rec = func(k int) {
		if k == n {
			out = append(out, append([]int(nil), p...))
			return
		}
		for i := k; i < n; i++ {
			p[k], p[i] = p[i], p[k]
			rec(k + 1)
			p[k], p[i] = p[i], p[k]
		}
	}
	rec(0)
	return out
}

func toEvent(e model.Ev) event.IEvent {
	if e.Kind == "signal" {
		return Signal(e.Ref)
	}
	return Message(e.Ref, e.Op)
}

// RunScript executes a scripted case in lock-step with the model.
func RunScript(c *ScriptCase) *ScriptOutcome {
	out := &ScriptOutcome{}
	prog := &gen.Program{G: c.Graph, DefaultLang: c.Lang}
	out.XML = prog.XML()
	if c.Perturb != 0 {
		var sites map[string]bool
		if len(c.PerturbSites) > 0 {
			sites = map[string]bool{}
			for _, s := range c.PerturbSites {
				sites[s] = true
			}
		}
		perturb.Install(c.Perturb, 50, sites)
		defer perturb.Remove()
	}
	in, err := New(out.XML, Options{Vars: c.Vars, MockClock: c.MockClock, BusyBus: c.BusyBus})
	if err != nil {
		out.Symptom, out.Detail = "construct", err.Error()
		return out
	}
	defer in.Close()
	defer func() {
		// (runs before Close: the instance's context is still alive)
		for _, t := range in.Traces() {
			if ct, ok := t.(bpmn.CancellationFlowNodeTrace); ok {
				out.NodeCancels = append(out.NodeCancels, elemID(ct.Node))
			}
		}
	}()
	fail := func(sym, det string, gs []quiesce.G) *ScriptOutcome {
		out.Symptom, out.Detail = sym, det
		out.Traces = DescribeAll(in.Traces())
		if gs != nil {
			out.Gs = quiesce.Dump(gs)
		}
		return out
	}
	earlyDone := make(chan struct{})
	startDone := make(chan error, 1)
	go func() {
		for _, e := range c.PreStart {
			in.P.ConsumeEvent(toEvent(e))
		}
		startDone <- in.StartAll()
		for _, e := range c.Early {
			in.P.ConsumeEvent(toEvent(e))
		}
		close(earlyDone)
	}()
	gs, qerr := in.Quiesce()
	if qerr != nil {
		out.Inconcl = qerr.Error()
		return out
	}
	select {
	case e := <-startDone:
		if e != nil {
			return fail("start-error", e.Error(), gs)
		}
	default:
		if len(c.PreStart) > 0 {
			return fail("consume-blocked", "an event delivered before StartAll has not returned (or StartAll itself has not) although everything is parked", gs)
		}
		return fail("start-blocked", "StartAll has not returned at quiescence", gs)
	}
	select {
	case <-earlyDone:
	default:
		return fail("consume-blocked", "an event delivered right after StartAll has not returned although the instance is quiescent", gs)
	}
	m := model.New(c.Graph, c.Vars)
	m.AsIs = c.ModelAsIs
	obs := m.Start()
	var hist []Stim
	pend := map[string][]bpmn.TaskTrace{}
	takeNew := func() []string {
		var ids []string
		for _, tt := range in.NewTasks() {
			id := elemID(tt.GetActivity().Element())
			pend[id] = append(pend[id], tt)
			ids = append(ids, id)
		}
		sort.Strings(ids)
		return ids
	}
	got := takeNew()
	out.Steps = append(out.Steps, Step{Stimulus: "start", Expected: obs.Requests, Got: got})
	if miss, extra := multisetDiff(obs.Requests, got); len(miss)+len(extra) > 0 {
		return fail("requests", fmt.Sprintf("after start: missing %v extra %v", miss, extra), gs)
	}

	// persistent waiter: WaitUntilComplete called right after the start and kept
	// for the whole run; examined at every fixpoint - it must not have returned
	// true while the model still holds a token or a request is pending
	pwCtx, pwCancel := context.WithCancel(context.Background())
	defer pwCancel()
	pw := make(chan bool, 1)
	go func() { pw <- in.P.WaitUntilComplete(pwCtx) }()
	pwDone := false
	checkEarly := func(after string) *ScriptOutcome {
		if pwDone {
			return nil
		}
		select {
		case v := <-pw:
			pwDone = true
			if v && !m.Done() {
				return fail("complete-early", fmt.Sprintf("after %s: WaitUntilComplete returned true, model still holds tokens (armed %v pending %v)", after, m.Armed(), m.PendingIDs()), nil)
			}
		default:
		}
		return nil
	}

	// issue performs the engine side of a non-burst stimulus; returns a channel closed when the call returned
	issue := func(s Stim, node string) chan struct{} {
		done := make(chan struct{})
		switch s.Kind {
		case "answer":
			q := pend[node]
			tt := q[0]
			pend[node] = q[1:]
			a := model.Answer{Kind: model.AnsOK}
			if s.Ans != nil {
				a = *s.Ans
			}
			go func() { doAnswer(tt, a); close(done) }()
		case "event":
			ev := toEvent(*s.Ev)
			go func() { in.P.ConsumeEvent(ev); close(done) }()
		case "clock":
			in.Clock.Add(time.Duration(s.ClockS) * time.Second)
			close(done)
		}
		return done
	}

	runStim := func(s Stim) *ScriptOutcome {
		if s.Kind == "rapid" {
			// events delivered back-to-back from one goroutine, without waiting
			// for the instance to settle in between. The generator guarantees
			// that at most one of them can have an effect, so the outcome does
			// not depend on timing and the model applies them in order.
			done := make(chan struct{})
			evs := s.Burst
			go func() {
				for _, b := range evs {
					if b.Kind == "clock" {
						in.Clock.Add(time.Duration(b.ClockS) * time.Second)
						continue
					}
					in.P.ConsumeEvent(toEvent(*b.Ev))
				}
				close(done)
			}()
			gs, err := in.Quiesce()
			if err != nil {
				out.Inconcl = err.Error()
				return out
			}
			select {
			case <-done:
			default:
				return fail("consume-blocked", fmt.Sprintf("%s: a ConsumeEvent call has not returned although the instance is quiescent", s), gs)
			}
			var exp []string
			for _, b := range evs {
				hist = append(hist, b)
				if b.Ev == nil {
					continue
				}
				o := m.Event(*b.Ev)
				exp = append(exp, o.Requests...)
				out.Fired = append(out.Fired, o.Fired...)
			}
			sort.Strings(exp)
			got := takeNew()
			out.Steps = append(out.Steps, Step{Stimulus: s.String(), Expected: exp, Got: got})
			if miss, extra := multisetDiff(exp, got); len(miss)+len(extra) > 0 {
				return fail("requests", fmt.Sprintf("after %s: missing %v extra %v (model pending %v armed %v)", s, miss, extra, m.PendingIDs(), m.Armed()), gs)
			}
			return nil
		}
		if s.Kind != "burst" {
			// which node would the model answer?
			probe := replayModel(c.Graph, c.Vars, hist, c.ModelAsIs)
			_, node, ok := applyModel(probe, s)
			if !ok {
				out.Skipped++
				return nil
			}
			done := issue(s, node)
			gs, err := in.Quiesce()
			if err != nil {
				out.Inconcl = err.Error()
				return out
			}
			select {
			case <-done:
			default:
				sym := "do-blocked"
				if s.Kind == "event" {
					sym = "consume-blocked"
				}
				return fail(sym, fmt.Sprintf("%s has not returned although the instance is quiescent", s), gs)
			}
			obs, _, _ := applyModel(m, s)
			hist = append(hist, s)
			got := takeNew()
			exp := reconcile(m, obs.Requests, got)
			out.Fired = append(out.Fired, obs.Fired...)
			out.Steps = append(out.Steps, Step{Stimulus: s.String(), Expected: exp, Got: got})
			if miss, extra := multisetDiff(exp, got); len(miss)+len(extra) > 0 {
				return fail("requests", fmt.Sprintf("after %s: missing %v extra %v (model pending %v armed %v)", s, miss, extra, m.PendingIDs(), m.Armed()), gs)
			}
			return nil
		}
		// burst: resolve the engine targets against the current model state,
		// fire all concurrently, then accept any serialisation
		var dones []chan struct{}
		probe := replayModel(c.Graph, c.Vars, hist, c.ModelAsIs)
		var members []Stim
		nodes := map[int]string{}
		for _, b := range s.Burst {
			if b.Kind == "answer" {
				// answers inside a burst address distinct pending requests by canonical index
				idx := canonicalPending(probe)
				if len(idx) == 0 || b.Pick >= len(idx) {
					out.Skipped++
					continue
				}
				nodes[len(members)] = probe.Pending[idx[b.Pick]].Node.ID
			}
			members = append(members, b)
		}
		// distinct answers only
		seenPick := map[int]bool{}
		var uniq []Stim
		un := map[int]string{}
		for i, b := range members {
			if b.Kind == "answer" {
				if seenPick[b.Pick] {
					continue
				}
				seenPick[b.Pick] = true
			}
			un[len(uniq)] = nodes[i]
			uniq = append(uniq, b)
		}
		members, nodes = uniq, un
		if len(members) == 0 {
			return nil
		}
		release := make(chan struct{})
		for i, b := range members {
			b := b
			node := nodes[i]
			done := make(chan struct{})
			dones = append(dones, done)
			switch b.Kind {
			case "answer":
				q := pend[node]
				tt := q[0]
				pend[node] = q[1:]
				a := model.Answer{Kind: model.AnsOK}
				if b.Ans != nil {
					a = *b.Ans
				}
				go func() { <-release; doAnswer(tt, a); close(done) }()
			case "event":
				ev := toEvent(*b.Ev)
				go func() { <-release; in.P.ConsumeEvent(ev); close(done) }()
			case "clock":
				// the clock moves while the other members are being delivered
				adv := time.Duration(b.ClockS) * time.Second
				go func() { <-release; in.Clock.Add(adv); close(done) }()
			}
		}
		close(release)
		gs, err := in.Quiesce()
		if err != nil {
			out.Inconcl = err.Error()
			return out
		}
		for i, d := range dones {
			select {
			case <-d:
			default:
				sym := "do-blocked"
				if members[i].Kind == "event" {
					sym = "consume-blocked"
				}
				return fail(sym, fmt.Sprintf("burst member %s has not returned although the instance is quiescent", members[i]), gs)
			}
		}
		got := takeNew()
		// candidate serialisations. Answers in the burst were resolved against
		// the pre-burst pending set: translate them to node-addressed answers.
		type cand struct {
			m   *model.M
			exp []string
			ser []Stim
			f   []string
		}
		var cands []cand
		sigs := map[string]bool{}
		for _, p := range permutations(len(members)) {
			mm := replayModel(c.Graph, c.Vars, hist, c.ModelAsIs)
			var exp, fired []string
			var ser []Stim
			okAll := true
			for _, j := range p {
				b := members[j]
				if b.Kind == "answer" {
					pi := mm.FindPending(nodes[j])
					if pi < 0 {
						okAll = false
						break
					}
					a := model.Answer{Kind: model.AnsOK}
					if b.Ans != nil {
						a = *b.Ans
					}
					// express as canonical pick for the history
					idx := canonicalPending(mm)
					pick := 0
					for k, x := range idx {
						if x == pi {
							pick = k
						}
					}
					o := mm.Answer(pi, a)
					exp = append(exp, o.Requests...)
					fired = append(fired, o.Fired...)
					ser = append(ser, Stim{Kind: "answer", Pick: pick, Ans: b.Ans})
				} else {
					if b.Ev != nil {
						o := mm.Event(*b.Ev)
						exp = append(exp, o.Requests...)
						fired = append(fired, o.Fired...)
					}
					ser = append(ser, b)
				}
			}
			if !okAll {
				continue
			}
			sort.Strings(exp)
			sig := strings.Join(exp, ",") + "|" + strings.Join(mm.PendingIDs(), ",") + "|" + strings.Join(mm.Armed(), ",")
			if !sigs[sig] {
				sigs[sig] = true
			}
			cands = append(cands, cand{mm, exp, ser, fired})
		}
		if len(sigs) > 1 {
			out.BurstRaces++
		}
		var allowed []string
		for _, cd := range cands {
			exp := reconcile(cd.m, cd.exp, got)
			if miss, extra := multisetDiff(exp, got); len(miss)+len(extra) == 0 {
				m = cd.m
				hist = append(hist, cd.ser...)
				out.Fired = append(out.Fired, cd.f...)
				out.Steps = append(out.Steps, Step{Stimulus: s.String(), Expected: exp, Got: got})
				return nil
			}
			allowed = append(allowed, fmt.Sprint(cd.exp))
		}
		out.Steps = append(out.Steps, Step{Stimulus: s.String(), Expected: []string{"one of: " + strings.Join(dedup(allowed), " | ")}, Got: got})
		return fail("requests", fmt.Sprintf("after %s: requests %v match no serialisation of the burst; allowed: %s", s, got, strings.Join(dedup(allowed), " | ")), gs)
	}

	// every catch event the model has seen listening must have announced it
	// (ActiveListeningTrace) on the instance's stream, wherever it sits - at
	// process level or inside sub-processes: that trace is how a caller (and a
	// process set) learns that an event can be delivered now
	everArmed := map[string]bool{}
	noteArmed := func() {
		for _, id := range m.Armed() {
			everArmed[id] = true
		}
	}
	noteArmed()
	for _, s := range c.Script {
		if r := runStim(s); r != nil {
			return r
		}
		noteArmed()
		if r := checkEarly(s.String()); r != nil {
			return r
		}
	}
	if c.Drain {
		for guard := 0; len(m.Pending) > 0 && guard < 200; guard++ {
			// skip interrupted requests' answers? they are no-ops in the model and must be in the engine
			if r := runStim(Stim{Kind: "answer", Pick: 0, Ans: c.DrainAns}); r != nil {
				return r
			}
			if r := checkEarly("a drain answer"); r != nil {
				return r
			}
		}
	}
	out.M = m
	out.Done = m.Done()
	// completion
	wctx, cancel := context.WithCancel(context.Background())
	res := make(chan bool, 1)
	go func() { res <- in.P.WaitUntilComplete(wctx) }()
	gs, qerr = in.Quiesce()
	if qerr != nil {
		cancel()
		out.Inconcl = qerr.Error()
		return out
	}
	returned, val := false, false
	select {
	case val = <-res:
		returned = true
	default:
	}
	cancel()
	if !returned {
		select {
		case <-res:
		case <-time.After(5 * time.Second):
		}
	}
	if m.Done() && !(returned && val) {
		return fail("not-complete", fmt.Sprintf("model: no token left; WaitUntilComplete returned=%v value=%v at quiescence (armed %v pending %v)", returned, val, m.Armed(), m.PendingIDs()), gs)
	}
	if !m.Done() && returned && val {
		return fail("complete-early", fmt.Sprintf("WaitUntilComplete returned true, model still holds tokens (armed %v pending %v)", m.Armed(), m.PendingIDs()), gs)
	}
	if more := takeNew(); len(more) > 0 {
		return fail("requests", fmt.Sprintf("requests after the end of the script: %v", more), gs)
	}
	if rep := RepeatedFlowID(in.Traces()); rep != "" {
		return fail("flow-id-repeat", rep, gs)
	}
	announced := map[string]bool{}
	for _, t := range in.Traces() {
		if lt, ok := t.(bpmn.ActiveListeningTrace); ok {
			announced[elemID(lt.Node)] = true
		}
	}
	for id := range everArmed {
		if n := c.Graph.Node(id); n == nil && !graphHas(c.Graph, id) {
			continue
		}
		if !announced[id] && isCatch(c.Graph, id) {
			return fail("listening-not-announced", fmt.Sprintf("catch event %s was listening (it reacted / could react to events) but no ActiveListeningTrace for it reached the instance's subscribers", id), gs)
		}
	}
	sum := Summarize(in.Traces())
	var unexpected []string
	for _, e := range sum.Errors {
		if strings.HasPrefix(e, "other:") {
			unexpected = append(unexpected, e)
		}
	}
	if len(unexpected) > 0 {
		return fail("unexpected-error", fmt.Sprint(unexpected), gs)
	}
	return out
}

func graphHas(g *gen.Graph, id string) bool {
	found := false
	g.AllNodes(func(n *gen.Node, _ *gen.Graph) {
		if n.ID == id {
			found = true
		}
	})
	return found
}

// isCatch: an intermediate catch event (boundary events announce themselves
// the same way but are armed per request in the model, not listed by Armed).
func isCatch(g *gen.Graph, id string) bool {
	is := false
	g.AllNodes(func(n *gen.Node, _ *gen.Graph) {
		if n.ID == id && n.Kind == gen.KCatch {
			is = true
		}
	})
	return is
}

func dedup(xs []string) []string {
	seen := map[string]bool{}
	var out []string
	for _, x := range xs {
		if !seen[x] {
			seen[x] = true
			out = append(out, x)
		}
	}
	return out
}
