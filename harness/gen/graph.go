// Package gen holds the process-graph representation shared by the XML
// lowering (what the engine sees) and the reference token game (package
// model), and the rapid generators that draw block-structured programs.
package gen

import (
	"fmt"
	"sort"
	"strings"
)

// Node kinds.
const (
	KStart    = "startEvent"
	KEnd      = "endEvent"
	KTask     = "task" // any of the 9 task element kinds, see Node.TaskKind
	KXor      = "exclusiveGateway"
	KPar      = "parallelGateway"
	KInc      = "inclusiveGateway"
	KEbg      = "eventBasedGateway"
	KCatch    = "intermediateCatchEvent"
	KThrow    = "intermediateThrowEvent"
	KSub      = "subProcess"
	KBoundary = "boundaryEvent"
)

// TaskKinds are the element names of the nine task kinds the engine supports.
var TaskKinds = []string{"task", "serviceTask", "userTask", "scriptTask", "manualTask", "businessRuleTask", "sendTask", "receiveTask", "callActivity"}

// EventDef is a signal or message event definition.
type EventDef struct {
	Kind string `json:"kind"` // "signal" | "message" | "timer"
	Ref  string `json:"ref,omitempty"`
	Op   string `json:"op,omitempty"` // operationRef for messages
	// timer
	TimerKind string `json:"timerKind,omitempty"` // timeDate|timeDuration|timeCycle
	TimerExpr string `json:"timerExpr,omitempty"`
}

// Node is a flow node.
type Node struct {
	ID       string   `json:"id"`
	Kind     string   `json:"kind"`
	TaskKind string   `json:"taskKind,omitempty"`
	Out      []string `json:"out,omitempty"` // outgoing flow ids in <outgoing> LISTING order
	In       []string `json:"in,omitempty"`
	// InDoc, if set, is what the DOCUMENT lists as the node's incoming flows
	// instead of In (a stale list, e.g. after nodes were inserted in front of a
	// join by hand): the sequence flows themselves still say where they lead
	InDoc []string `json:"inDoc,omitempty"`
	Default  string   `json:"default,omitempty"`
	Results  []string `json:"results,omitempty"` // declared result fields (olive:results)
	// ResultTypes optionally declares the item type per result (same index).
	ResultTypes []string `json:"resultTypes,omitempty"`
	DataOutputs []string `json:"dataOutputs,omitempty"`
	// Props: olive properties without a value - resolved by name from the
	// instance variables whenever the task is requested
	Props       []string   `json:"props,omitempty"`
	Retries     int        `json:"retries,omitempty"`
	Defs        []EventDef `json:"defs,omitempty"`
	ParallelMul bool       `json:"parallelMultiple,omitempty"`
	Inner       *Graph     `json:"inner,omitempty"` // sub-process content
	AttachedTo  string     `json:"attachedTo,omitempty"`
	CancelAct   bool       `json:"cancelActivity,omitempty"`
}

// Flow is a sequence flow.
type Flow struct {
	ID     string `json:"id"`
	Src    string `json:"src"`
	Dst    string `json:"dst"`
	Cond   *Cond  `json:"cond,omitempty"`
	Formal bool   `json:"formal,omitempty"` // false with Cond!=nil => informal expression (always true)
	Lang   string `json:"lang,omitempty"`   // "", "expr", "xpath" (explicit language attr)
	Raw    string `json:"raw,omitempty"`    // raw condition text overriding the rendering of Cond
}

// Graph is the content of a process or sub-process.
type Graph struct {
	Nodes []*Node `json:"nodes"`
	Flows []*Flow `json:"flows"`
	// DataObjects are declared as <dataObject id=do_name name=name/> (id and name differ).
	DataObjects []string `json:"dataObjects,omitempty"`
	// DataObjectBodies: JSON bodies (olive:dataObjectBody) of declared data
	// objects, by name; a name listed here need not be in DataObjects.
	DataObjectBodies map[string]string `json:"dataObjectBodies,omitempty"`
	// Props are integer olive properties declared on the process itself
	// (conditions read them with getProp(name)).
	Props map[string]int64 `json:"props,omitempty"`
}

// Program is a complete generated definitions document with one process.
type Program struct {
	G *Graph `json:"g"`
	// DefaultLang is the definitions-level expressionLanguage: "expr" or "xpath".
	DefaultLang string `json:"defaultLang"`
	// DeclOrder permutes element declaration order in the XML (seed).
	DeclSeed int `json:"declSeed"`
	// ProcessID / executable flag for process sets.
	ProcessID string `json:"processId,omitempty"`
}

func (g *Graph) Node(id string) *Node {
	for _, n := range g.Nodes {
		if n.ID == id {
			return n
		}
	}
	return nil
}

func (g *Graph) Flow(id string) *Flow {
	for _, f := range g.Flows {
		if f.ID == id {
			return f
		}
	}
	return nil
}

// AllNodes walks nodes including sub-process content.
func (g *Graph) AllNodes(fn func(n *Node, owner *Graph)) {
	for _, n := range g.Nodes {
		fn(n, g)
		if n.Inner != nil {
			n.Inner.AllNodes(fn)
		}
	}
}

// AllFlows walks flows including sub-process content.
func (g *Graph) AllFlows(fn func(f *Flow, owner *Graph)) {
	for _, f := range g.Flows {
		fn(f, g)
	}
	for _, n := range g.Nodes {
		if n.Inner != nil {
			n.Inner.AllFlows(fn)
		}
	}
}

// CountNodes returns the number of flow nodes including nested ones.
func (g *Graph) CountNodes() int {
	c := 0
	g.AllNodes(func(*Node, *Graph) { c++ })
	return c
}

// builder helpers ------------------------------------------------------------

// B incrementally builds a Graph with fresh ids.
type B struct {
	G      *Graph
	prefix string
	n      *int
	// Style of the generated ids (all styles give unique, legal XML names):
	//   0  <kind><n>                    t3, t12 (one id may be a PREFIX of another)
	//   1  q..q<kind><n/3>              t4, qt4, qqt4 (one id is a proper SUFFIX of another)
	//   2  <kind | KIND><n/2>           t3, T3 (ids that differ only in case)
	//   3  <kind>.<n>-é                 ids with dots, dashes and non-ASCII letters
	Style int
}

func NewB() *B {
	c := 0
	return &B{G: &Graph{}, n: &c}
}

// NewBStyle is NewB with an id style.
func NewBStyle(style int) *B {
	b := NewB()
	b.Style = style
	return b
}

// Sub returns a builder for a nested graph sharing the id counter.
func (b *B) Sub() *B { return &B{G: &Graph{}, n: b.n, Style: b.Style} }

func (b *B) fresh(p string) string {
	*b.n++
	n := *b.n
	switch b.Style {
	case 1:
		// within a group of three consecutive ids of one kind the shorter ones are
		// proper suffixes of the longer ones; every other group runs the other way
		r := n % 3
		if (n/3)%2 == 1 {
			r = 2 - r
		}
		return fmt.Sprintf("%s%s%d", strings.Repeat("q", r), p, n/3)
	case 2:
		if n%2 == 1 {
			return fmt.Sprintf("%s%d", strings.ToUpper(p), n/2)
		}
		return fmt.Sprintf("%s%d", p, n/2)
	case 3:
		return fmt.Sprintf("%s.%d-é", p, n)
	}
	return fmt.Sprintf("%s%d", p, n)
}

func (b *B) Add(kind string) *Node {
	p := map[string]string{KStart: "start", KEnd: "end", KTask: "t", KXor: "x", KPar: "p", KInc: "i", KEbg: "eg",
		KCatch: "c", KThrow: "th", KSub: "sub", KBoundary: "b"}[kind]
	n := &Node{ID: b.fresh(p), Kind: kind}
	if kind == KTask {
		n.TaskKind = "task"
	}
	b.G.Nodes = append(b.G.Nodes, n)
	return n
}

// Connect adds a sequence flow src->dst and appends it to the listing orders.
func (b *B) Connect(src, dst *Node) *Flow {
	f := &Flow{ID: b.fresh("f"), Src: src.ID, Dst: dst.ID}
	b.G.Flows = append(b.G.Flows, f)
	src.Out = append(src.Out, f.ID)
	dst.In = append(dst.In, f.ID)
	return f
}

// XML lowering ----------------------------------------------------------------

const (
	LangExpr  = "https://github.com/expr-lang/expr"
	LangXPath = "http://www.w3.org/1999/XPath"
)

func langURI(l string) string {
	if l == "xpath" {
		return LangXPath
	}
	return LangExpr
}

func esc(s string) string {
	r := strings.NewReplacer("&", "&amp;", "<", "&lt;", ">", "&gt;", `"`, "&quot;")
	return r.Replace(s)
}

type perm struct{ s uint64 }

func (p *perm) next() uint64 {
	p.s += 0x9E3779B97F4A7C15
	z := p.s
	z = (z ^ (z >> 30)) * 0xBF58476D1CE4E5B9
	z = (z ^ (z >> 27)) * 0x94D049BB133111EB
	return z ^ (z >> 31)
}

func shuffle(p *perm, xs []string) {
	for i := len(xs) - 1; i > 0; i-- {
		j := int(p.next() % uint64(i+1))
		xs[i], xs[j] = xs[j], xs[i]
	}
}

// XML renders the program as a BPMN 2.0 document. With DeclSeed != 0 the
// declaration order of elements inside each (sub-)process is permuted; the
// <outgoing>/<incoming> listing order of every node is kept (it is
// semantically relevant for exclusive gateways).
func (p *Program) XML() string {
	var sb strings.Builder
	sb.WriteString(`<?xml version="1.0" encoding="UTF-8"?>` + "\n")
	sb.WriteString(`<bpmn:definitions xmlns:bpmn="http://www.omg.org/spec/BPMN/20100524/MODEL" xmlns:olive="http://olive.io/spec/BPMN/MODEL" xmlns:xsi="http://www.w3.org/2001/XMLSchema-instance" id="Defs_1" targetNamespace="http://bpmn.io/schema/bpmn"`)
	fmt.Fprintf(&sb, ` expressionLanguage="%s">`+"\n", langURI(p.DefaultLang))
	pid := p.ProcessID
	if pid == "" {
		pid = "Proc_1"
	}
	fmt.Fprintf(&sb, `<bpmn:process id="%s" isExecutable="true">`+"\n", pid)
	if len(p.G.Props) > 0 {
		sb.WriteString("<bpmn:extensionElements><olive:properties>")
		names := make([]string, 0, len(p.G.Props))
		for n := range p.G.Props {
			names = append(names, n)
		}
		sort.Strings(names)
		for _, n := range names {
			fmt.Fprintf(&sb, `<olive:property name="%s" value="%d" type="integer"/>`, n, p.G.Props[n])
		}
		sb.WriteString("</olive:properties></bpmn:extensionElements>\n")
	}
	pm := &perm{s: uint64(p.DeclSeed)}
	writeGraph(&sb, p.G, p, pm)
	sb.WriteString("</bpmn:process>\n")
	// referenced signals / messages
	sigs, msgs := map[string]bool{}, map[string]bool{}
	p.G.AllNodes(func(n *Node, _ *Graph) {
		for _, d := range n.Defs {
			switch d.Kind {
			case "signal":
				sigs[d.Ref] = true
			case "message":
				msgs[d.Ref] = true
			}
		}
	})
	for _, s := range sortedKeys(sigs) {
		fmt.Fprintf(&sb, `<bpmn:signal id="%s" name="%s"/>`+"\n", s, s)
	}
	for _, s := range sortedKeys(msgs) {
		fmt.Fprintf(&sb, `<bpmn:message id="%s" name="%s"/>`+"\n", s, s)
	}
	sb.WriteString("</bpmn:definitions>\n")
	return withPrefix(sb.String(), NSPrefix(p.DeclSeed))
}

// NSPrefix is the prefix the document binds the BPMN model namespace to. It
// is derived from the declaration seed so that every campaign that varies the
// declaration order also varies the prefix: mostly "bpmn", sometimes another
// one modellers use ("bpmn2", "semantic"), sometimes none (default namespace).
func NSPrefix(declSeed int) string {
	switch declSeed % 7 {
	case 4:
		return "bpmn2"
	case 5:
		return "semantic"
	case 6:
		return ""
	}
	return "bpmn"
}

func withPrefix(doc, prefix string) string {
	switch prefix {
	case "bpmn":
		return doc
	case "":
		doc = strings.ReplaceAll(doc, "xmlns:bpmn=", "xmlns=")
		doc = strings.ReplaceAll(doc, "<bpmn:", "<")
		doc = strings.ReplaceAll(doc, "</bpmn:", "</")
		return strings.ReplaceAll(doc, `"bpmn:tFormalExpression"`, `"tFormalExpression"`)
	}
	doc = strings.ReplaceAll(doc, "xmlns:bpmn=", "xmlns:"+prefix+"=")
	doc = strings.ReplaceAll(doc, "<bpmn:", "<"+prefix+":")
	doc = strings.ReplaceAll(doc, "</bpmn:", "</"+prefix+":")
	return strings.ReplaceAll(doc, `"bpmn:tFormalExpression"`, `"`+prefix+`:tFormalExpression"`)
}

func sortedKeys(m map[string]bool) []string {
	out := make([]string, 0, len(m))
	for k := range m {
		out = append(out, k)
	}
	sort.Strings(out)
	return out
}

// GraphXML renders only the content of a process (used by multi-process documents).
func GraphXML(g *Graph, p *Program) string {
	var sb strings.Builder
	writeGraph(&sb, g, p, &perm{s: uint64(p.DeclSeed)})
	return sb.String()
}

func writeGraph(sb *strings.Builder, g *Graph, p *Program, pm *perm) {
	var parts []string
	for _, n := range g.Nodes {
		parts = append(parts, nodeXML(n, p, pm))
	}
	for _, f := range g.Flows {
		parts = append(parts, flowXML(f, p.DefaultLang))
	}
	for _, d := range g.DataObjects {
		if _, withBody := g.DataObjectBodies[d]; withBody {
			continue
		}
		parts = append(parts, fmt.Sprintf(`<bpmn:dataObject id="do_%s" name="%s"/>`+"\n", d, d))
	}
	for _, d := range sortedKeysS(g.DataObjectBodies) {
		parts = append(parts, fmt.Sprintf(`<bpmn:dataObject id="do_%s" name="%s"><bpmn:extensionElements><olive:dataObjectBody><![CDATA[%s]]></olive:dataObjectBody></bpmn:extensionElements></bpmn:dataObject>`+"\n", d, d, g.DataObjectBodies[d]))
	}
	if p.DeclSeed != 0 {
		shuffle(pm, parts)
	}
	for _, s := range parts {
		sb.WriteString(s)
	}
}

func flowXML(f *Flow, defLang string) string {
	var sb strings.Builder
	fmt.Fprintf(&sb, `<bpmn:sequenceFlow id="%s" sourceRef="%s" targetRef="%s"`, f.ID, f.Src, f.Dst)
	if f.Cond == nil {
		sb.WriteString("/>\n")
		return sb.String()
	}
	sb.WriteString(">")
	lang := f.Lang
	if lang == "" {
		lang = defLang
	}
	text := ""
	switch lang {
	case "xpath":
		text = f.Cond.XPath()
	default:
		text = f.Cond.Expr()
	}
	if f.Raw != "" {
		text = f.Raw
	}
	if f.Formal {
		sb.WriteString(`<bpmn:conditionExpression xsi:type="bpmn:tFormalExpression"`)
		if f.Lang != "" {
			fmt.Fprintf(&sb, ` language="%s"`, langURI(f.Lang))
		}
		fmt.Fprintf(&sb, `>%s</bpmn:conditionExpression>`, esc(text))
	} else {
		fmt.Fprintf(&sb, `<bpmn:conditionExpression>%s</bpmn:conditionExpression>`, esc(text))
	}
	sb.WriteString("</bpmn:sequenceFlow>\n")
	return sb.String()
}

func nodeXML(n *Node, p *Program, pm *perm) string {
	var sb strings.Builder
	el := n.Kind
	if n.Kind == KTask {
		el = n.TaskKind
	}
	fmt.Fprintf(&sb, `<bpmn:%s id="%s"`, el, n.ID)
	if n.Default != "" {
		fmt.Fprintf(&sb, ` default="%s"`, n.Default)
	}
	if n.Kind == KCatch || n.Kind == KStart {
		if n.ParallelMul {
			sb.WriteString(` parallelMultiple="true"`)
		}
	}
	if n.Kind == KBoundary {
		fmt.Fprintf(&sb, ` attachedToRef="%s" cancelActivity="%v"`, n.AttachedTo, n.CancelAct)
		if n.ParallelMul {
			sb.WriteString(` parallelMultiple="true"`)
		}
	}
	sb.WriteString(">\n")
	// extension elements
	if len(n.Results) > 0 || len(n.DataOutputs) > 0 || n.Retries > 0 || len(n.Props) > 0 {
		sb.WriteString("<bpmn:extensionElements>")
		if len(n.Props) > 0 {
			sb.WriteString("<olive:properties>")
			for _, pr := range n.Props {
				// "name" or "name:type"
				if i := strings.IndexByte(pr, ':'); i > 0 {
					fmt.Fprintf(&sb, `<olive:property name="%s" type="%s"/>`, pr[:i], pr[i+1:])
				} else {
					fmt.Fprintf(&sb, `<olive:property name="%s"/>`, pr)
				}
			}
			sb.WriteString("</olive:properties>")
		}
		if n.Retries > 0 {
			fmt.Fprintf(&sb, `<olive:taskDefinition type="t" retries="%d"/>`, n.Retries)
		}
		if len(n.Results) > 0 {
			sb.WriteString("<olive:results>")
			for i, r := range n.Results {
				ty := ""
				if i < len(n.ResultTypes) && n.ResultTypes[i] != "" {
					ty = fmt.Sprintf(` type="%s"`, n.ResultTypes[i])
				}
				fmt.Fprintf(&sb, `<olive:field name="%s"%s/>`, r, ty)
			}
			sb.WriteString("</olive:results>")
		}
		for _, d := range n.DataOutputs {
			fmt.Fprintf(&sb, `<olive:dataOutput name="%s" targetRef="%s"/>`, d, d)
		}
		sb.WriteString("</bpmn:extensionElements>\n")
	}
	ins := n.In
	if n.InDoc != nil {
		ins = n.InDoc
	}
	for _, in := range ins {
		fmt.Fprintf(&sb, "<bpmn:incoming>%s</bpmn:incoming>\n", in)
	}
	for _, out := range n.Out {
		fmt.Fprintf(&sb, "<bpmn:outgoing>%s</bpmn:outgoing>\n", out)
	}
	for i, d := range n.Defs {
		switch d.Kind {
		case "signal":
			fmt.Fprintf(&sb, `<bpmn:signalEventDefinition id="%s_d%d" signalRef="%s"/>`+"\n", n.ID, i, d.Ref)
		case "message":
			if d.Op != "" {
				fmt.Fprintf(&sb, `<bpmn:messageEventDefinition id="%s_d%d" messageRef="%s"><bpmn:operationRef>%s</bpmn:operationRef></bpmn:messageEventDefinition>`+"\n", n.ID, i, d.Ref, d.Op)
			} else {
				fmt.Fprintf(&sb, `<bpmn:messageEventDefinition id="%s_d%d" messageRef="%s"/>`+"\n", n.ID, i, d.Ref)
			}
		case "timer":
			fmt.Fprintf(&sb, `<bpmn:timerEventDefinition id="%s_d%d"><bpmn:%s xsi:type="bpmn:tFormalExpression">%s</bpmn:%s></bpmn:timerEventDefinition>`+"\n", n.ID, i, d.TimerKind, esc(d.TimerExpr), d.TimerKind)
		}
	}
	if n.Inner != nil {
		writeGraph(&sb, n.Inner, p, pm)
	}
	fmt.Fprintf(&sb, "</bpmn:%s>\n", el)
	return sb.String()
}

func sortedKeysS(m map[string]string) []string {
	out := make([]string, 0, len(m))
	for k := range m {
		out = append(out, k)
	}
	sort.Strings(out)
	return out
}
