package gen

import (
	"fmt"

	"pgregory.net/rapid"
)

// Block is the AST of a block-structured process (DESIGN.md 2.1).
type Block struct {
	K    string   `json:"k"` // task seq xor par inc loop sub end ctask mmerge
	Kids []*Block `json:"kids,omitempty"`
	// xor/inc/ctask: condition per kid (nil = unconditional flow). loop: Conds[0] = back condition.
	Conds    []*Cond  `json:"conds,omitempty"`
	Informal []bool   `json:"informal,omitempty"` // per cond: render as informal expression (always true)
	Langs    []string `json:"langs,omitempty"`    // per cond: explicit language attribute ("" = definitions default)
	Def      int      `json:"def"`                // xor/inc: index of the kid reached by the default flow, -1 none
	// DefCond: the default flow carries its kid's condition in the document
	// (legal; BPMN: a condition on a default flow is ignored)
	DefCond bool `json:"defCond,omitempty"`
	// OpenEnd (top block): no end event behind the last node when that node is
	// a task or a sub-process - it has NO outgoing sequence flow and its token
	// ends there (legal BPMN: implicit end)
	OpenEnd bool `json:"openEnd,omitempty"`
	Order    []int    `json:"order,omitempty"`    // xor/inc/ctask: permutation giving the <outgoing> listing order
	TaskKind string   `json:"taskKind,omitempty"`
	Results  []string `json:"results,omitempty"` // task: declared result names
	Name     string   `json:"name,omitempty"`    // task: stable logical name (answer plans are keyed by node id after lowering)
	Wrap     int      `json:"wrap,omitempty"`    // wrap this block in Wrap nested sub-processes
	LoopVar  string   `json:"loopVar,omitempty"`
	// Groups (mmerge): the branches are merged in groups, one exclusive gateway
	// per group, and the groups are synchronised by a PARALLEL join with one
	// incoming flow per group: several tokens arrive on each incoming flow of
	// the join, in any order (equal group sizes: that many tokens run the tail)
	Groups []int `json:"groups,omitempty"`
}

// port is an open exit of a lowered block.
type port struct {
	node      *Node
	asDefault bool // the connecting flow becomes node.Default
}

// Lowered is the result of lowering an AST.
type Lowered struct {
	G *Graph
	// TaskOf maps lowered task node ids to their AST block.
	TaskOf map[string]*Block
}

// LowerStyle is Lower with an id style (see B.Style).
func LowerStyle(blk *Block, style int) *Lowered {
	return LowerWith(NewBStyle(style), blk)
}

// Lower turns start -> blk -> end into a graph.
func Lower(blk *Block) *Lowered {
	b := NewB()
	lw := &Lowered{G: b.G, TaskOf: map[string]*Block{}}
	lw.lowerTop(b, blk)
	return lw
}

// LowerWith lowers start -> blk -> end into the graph of an existing builder
// (several processes of one definitions document share the id counter).
func LowerWith(b *B, blk *Block) *Lowered {
	lw := &Lowered{G: b.G, TaskOf: map[string]*Block{}}
	lw.lowerTop(b, blk)
	return lw
}

func (lw *Lowered) lowerTop(b *B, blk *Block) {
	defer func() {
		// data objects read by conditions anywhere (also inside sub-processes)
		// are declared on the process itself
		used := map[string]bool{}
		b.G.AllFlows(func(f *Flow, _ *Graph) {
			var walk func(c *Cond)
			walk = func(c *Cond) {
				if c == nil {
					return
				}
				if c.Op == "dobj" {
					used[c.Var] = true
				}
				if c.Op == "prop" {
					if b.G.Props == nil {
						b.G.Props = map[string]int64{}
					}
					b.G.Props[c.Var] = c.PV
				}
				walk(c.L)
				walk(c.R)
			}
			walk(f.Cond)
		})
		for _, n := range DataObjPool {
			if used[n] {
				b.G.DataObjects = append(b.G.DataObjects, n)
			}
		}
	}()
	st := b.Add(KStart)
	entry, exit := lw.lower(b, blk)
	if entry == nil {
		// empty body
		en := b.Add(KEnd)
		b.Connect(st, en)
		return
	}
	b.Connect(st, entry)
	if exit != nil && blk.OpenEnd && !exit.asDefault && (exit.node.Kind == KTask || exit.node.Kind == KSub) {
		return
	}
	if exit != nil {
		en := b.Add(KEnd)
		lw.connect(b, exit, en, nil, nil, 0)
	}
}

func (lw *Lowered) connect(b *B, from *port, to *Node, cond *Cond, blk *Block, i int) *Flow {
	f := b.Connect(from.node, to)
	if from.asDefault {
		from.node.Default = f.ID
	}
	if cond != nil {
		f.Cond = cond
		f.Formal = true
		if blk != nil {
			if i < len(blk.Informal) && blk.Informal[i] {
				f.Formal = false
			}
			if i < len(blk.Langs) {
				f.Lang = blk.Langs[i]
			}
		}
	}
	return f
}

// lower returns the entry node and the open exit (nil = terminal block).
func (lw *Lowered) lower(b *B, blk *Block) (entry *Node, exit *port) {
	if blk.Wrap > 0 {
		w := blk.Wrap
		blk.Wrap = w - 1 // (temporarily; the same block object must reach TaskOf)
		sub := b.Add(KSub)
		ib := b.Sub()
		sub.Inner = ib.G
		lw.lowerTop(ib, blk)
		blk.Wrap = w
		return sub, &port{node: sub}
	}
	switch blk.K {
	case "task":
		n := b.Add(KTask)
		if blk.TaskKind != "" {
			n.TaskKind = blk.TaskKind
		}
		n.Results = append([]string(nil), blk.Results...)
		lw.TaskOf[n.ID] = blk
		blk.Name = n.ID
		return n, &port{node: n}
	case "end":
		n := b.Add(KEnd)
		return n, nil
	case "seq":
		var first *Node
		var cur *port
		for _, k := range blk.Kids {
			e, x := lw.lower(b, k)
			if e == nil {
				continue
			}
			if first == nil {
				first = e
			} else {
				lw.connect(b, cur, e, nil, nil, 0)
			}
			cur = x
			if x == nil {
				break
			}
		}
		return first, cur
	case "sub":
		sub := b.Add(KSub)
		ib := b.Sub()
		sub.Inner = ib.G
		lw.lowerTop(ib, blk.Kids[0])
		return sub, &port{node: sub}
	case "xor", "inc", "par":
		kind := map[string]string{"xor": KXor, "inc": KInc, "par": KPar}[blk.K]
		split := b.Add(kind)
		merge := b.Add(kind)
		type br struct {
			e *Node
			x *port
		}
		brs := make([]br, len(blk.Kids))
		for i, k := range blk.Kids {
			if k == nil {
				continue
			}
			e, x := lw.lower(b, k)
			brs[i] = br{e, x}
		}
		order := blk.Order
		if len(order) != len(blk.Kids) {
			order = make([]int, len(blk.Kids))
			for i := range order {
				order[i] = i
			}
		}
		for _, i := range order {
			var cond *Cond
			if blk.K != "par" && i < len(blk.Conds) {
				cond = blk.Conds[i]
			}
			isDef := blk.K != "par" && blk.Def == i
			from := &port{node: split, asDefault: isDef}
			if isDef && !blk.DefCond {
				cond = nil
			}
			if brs[i].e == nil {
				lw.connect(b, from, merge, cond, blk, i)
			} else {
				lw.connect(b, from, brs[i].e, cond, blk, i)
			}
		}
		for i := range brs {
			if brs[i].e != nil && brs[i].x != nil {
				lw.connect(b, brs[i].x, merge, nil, nil, 0)
			}
		}
		if len(merge.In) == 0 {
			// every branch is terminal: drop the merge node
			b.G.Nodes = removeNode(b.G.Nodes, merge)
			return split, nil
		}
		return split, &port{node: merge}
	case "mmerge":
		// parallel fork whose branches are merged by an exclusive gateway
		// (each token passes through independently)
		fork := b.Add(KPar)
		nbr := len(blk.Kids) - 1 // last kid is the tail after the merge
		if len(blk.Groups) > 0 {
			j := b.Add(KPar)
			idx := 0
			for _, size := range blk.Groups {
				gm := b.Add(KXor)
				for i := 0; i < size && idx < nbr; i++ {
					e, x := lw.lower(b, blk.Kids[idx])
					idx++
					b.Connect(fork, e)
					if x != nil {
						lw.connect(b, x, gm, nil, nil, 0)
					}
				}
				b.Connect(gm, j)
			}
			te, tx := lw.lower(b, blk.Kids[nbr])
			b.Connect(j, te)
			return fork, tx
		}
		merge := b.Add(KXor)
		for _, k := range blk.Kids[:nbr] {
			e, x := lw.lower(b, k)
			b.Connect(fork, e)
			if x != nil {
				lw.connect(b, x, merge, nil, nil, 0)
			}
		}
		te, tx := lw.lower(b, blk.Kids[nbr])
		b.Connect(merge, te)
		return fork, tx
	case "loop":
		merge := b.Add(KXor)
		split := b.Add(KXor)
		e, x := lw.lower(b, blk.Kids[0])
		b.Connect(merge, e)
		lw.connect(b, x, split, nil, nil, 0)
		back := b.Connect(split, merge)
		back.Cond = blk.Conds[0]
		back.Formal = true
		return merge, &port{node: split, asDefault: true}
	case "ctask":
		n := b.Add(KTask)
		if blk.TaskKind != "" {
			n.TaskKind = blk.TaskKind
		}
		n.Results = append([]string(nil), blk.Results...)
		lw.TaskOf[n.ID] = blk
		blk.Name = n.ID
		order := blk.Order
		if len(order) != len(blk.Kids) {
			order = make([]int, len(blk.Kids))
			for i := range order {
				order[i] = i
			}
		}
		for _, i := range order {
			e, _ := lw.lower(b, blk.Kids[i])
			var cond *Cond
			if i < len(blk.Conds) {
				cond = blk.Conds[i]
			}
			lw.connect(b, &port{node: n}, e, cond, blk, i)
		}
		return n, nil
	}
	panic("gen: unknown block " + blk.K)
}

func removeNode(ns []*Node, n *Node) []*Node {
	out := ns[:0]
	for _, x := range ns {
		if x != n {
			out = append(out, x)
		}
	}
	return out
}

// ---------------------------------------------------------------------------
// rapid generators

// Pool of variables conditions read and tasks write.
var IntVars = []string{"n0", "n1", "n2"}
var BoolVars = []string{"b0", "b1", "b2"}

// GenCond draws a condition.
func GenCond(t *rapid.T, depth int) *Cond {
	max := 7
	if depth <= 0 {
		max = 5
	}
	switch rapid.IntRange(0, max).Draw(t, "condKind") {
	case 0:
		return Lit(rapid.Bool().Draw(t, "lit"))
	case 1:
		return BoolVar(rapid.SampledFrom(BoolVars).Draw(t, "bv"))
	case 2:
		return &Cond{Op: "not", L: BoolVar(rapid.SampledFrom(BoolVars).Draw(t, "bv"))}
	case 3, 4, 5:
		op := rapid.SampledFrom([]string{"eq", "ne", "lt", "gt"}).Draw(t, "op")
		return &Cond{Op: op, Var: rapid.SampledFrom(IntVars).Draw(t, "iv"), K: int64(rapid.IntRange(0, 3).Draw(t, "k"))}
	case 6:
		return &Cond{Op: "and", L: GenCond(t, depth-1), R: GenCond(t, depth-1)}
	default:
		return &Cond{Op: "or", L: GenCond(t, depth-1), R: GenCond(t, depth-1)}
	}
}

// GenOpts steer the block generator.
type GenOpts struct {
	MaxDepth   int
	MaxNodes   int
	NoInc      bool // never draw inclusive blocks
	NoIncNest  bool // construct around finding C05-F1: no inclusive block under par/inc, no fork under inc
	NoSub      bool
	NoLoop     bool
	NoCTask    bool
	NoMMerge   bool
	NoEarlyEnd bool
	XPath      bool // allow xpath conditions
	AllKinds   bool // draw all nine task kinds
	// DataObjConds: some conditions read a boolean data object (pool
	// DataObjPool, declared at process level with id != name) through
	// getDataObject(name); such flows carry language="expr" explicitly
	DataObjConds bool
}

type genCtx struct {
	o         GenOpts
	budget    int
	loopN     int
	underPar  bool // inside a par branch: no early end
	underInc  bool
	underFork bool // inside par or inc branch
	inLoop    bool
}

// GenProgram draws a block-structured program.
func GenProgram(t *rapid.T, o GenOpts) *Block {
	if o.MaxDepth == 0 {
		o.MaxDepth = 3
	}
	if o.MaxNodes == 0 {
		o.MaxNodes = 12
	}
	c := &genCtx{o: o, budget: o.MaxNodes}
	top := c.seq(t, o.MaxDepth, true)
	top.OpenEnd = rapid.IntRange(0, 5).Draw(t, "openEnd") == 0
	return top
}

func (c *genCtx) task(t *rapid.T) *Block {
	c.budget--
	b := &Block{K: "task", Def: -1}
	if c.o.AllKinds {
		b.TaskKind = rapid.SampledFrom(TaskKinds).Draw(t, "taskKind")
	}
	// declared results: subset of the pool
	nres := rapid.IntRange(0, 2).Draw(t, "nres")
	for i := 0; i < nres; i++ {
		if rapid.Bool().Draw(t, "isInt") {
			b.Results = appendUnique(b.Results, rapid.SampledFrom(IntVars).Draw(t, "res"))
		} else {
			b.Results = appendUnique(b.Results, rapid.SampledFrom(BoolVars).Draw(t, "res"))
		}
	}
	return b
}

func appendUnique(xs []string, x string) []string {
	for _, y := range xs {
		if y == x {
			return xs
		}
	}
	return append(xs, x)
}

func (c *genCtx) seq(t *rapid.T, depth int, top bool) *Block {
	n := rapid.IntRange(1, 3).Draw(t, "seqLen")
	s := &Block{K: "seq", Def: -1}
	for i := 0; i < n; i++ {
		last := i == n-1
		k := c.block(t, depth, last && !c.underPar, top && last)
		s.Kids = append(s.Kids, k)
		if k.K == "end" || k.K == "ctask" {
			break
		}
		if c.budget <= 0 {
			break
		}
	}
	return s
}

func (c *genCtx) branchConds(t *rapid.T, blk *Block, n int) {
	for i := 0; i < n; i++ {
		cond := GenCond(t, 1)
		if c.o.DataObjConds && rapid.IntRange(0, 5).Draw(t, "dataObjectCond") == 0 {
			do := &Cond{Op: "dobj", Var: rapid.SampledFrom(DataObjPool).Draw(t, "dataObject")}
			switch rapid.IntRange(0, 2).Draw(t, "doShape") {
			case 0:
				cond = do
			case 1:
				cond = &Cond{Op: "not", L: do}
			default:
				cond = &Cond{Op: "or", L: do, R: cond}
			}
		}
		blk.Conds = append(blk.Conds, cond)
		blk.Informal = append(blk.Informal, rapid.IntRange(0, 9).Draw(t, "informal") == 0)
		lang := ""
		if cond.UsesDataObject() {
			lang = "expr"
		} else if c.o.XPath {
			lang = rapid.SampledFrom([]string{"", "", "expr", "xpath"}).Draw(t, "lang")
		} else {
			lang = rapid.SampledFrom([]string{"", "", "expr"}).Draw(t, "lang")
		}
		blk.Langs = append(blk.Langs, lang)
	}
	blk.Order = rapid.Permutation(seqInts(n)).Draw(t, "order")
}

func seqInts(n int) []int {
	out := make([]int, n)
	for i := range out {
		out[i] = i
	}
	return out
}

// block draws one block. mayEnd: an early end / ctask is allowed here.
func (c *genCtx) block(t *rapid.T, depth int, mayEnd bool, allowMM bool) *Block {
	if depth <= 0 || c.budget <= 1 {
		return c.task(t)
	}
	kinds := []string{"task", "task", "xor", "par"}
	if !c.o.NoInc && !(c.o.NoIncNest && c.underFork) {
		kinds = append(kinds, "inc")
	}
	if !c.o.NoLoop && !c.inLoop {
		kinds = append(kinds, "loop")
	}
	if !c.o.NoSub && !c.inLoop {
		kinds = append(kinds, "sub")
	}
	if mayEnd && !c.o.NoEarlyEnd && !c.underPar {
		kinds = append(kinds, "end")
		if !c.o.NoCTask && !(c.o.NoIncNest && c.underInc) {
			kinds = append(kinds, "ctask")
		}
	}
	if !c.o.NoMMerge && !c.underFork && !c.inLoop && allowMM {
		kinds = append(kinds, "mmerge")
	}
	k := rapid.SampledFrom(kinds).Draw(t, "blockKind")
	switch k {
	case "task":
		return c.task(t)
	case "end":
		c.budget--
		return &Block{K: "end", Def: -1}
	case "xor":
		c.budget -= 2
		nb := rapid.IntRange(1, 3).Draw(t, "xorBranches")
		blk := &Block{K: "xor", Def: -1}
		for i := 0; i < nb; i++ {
			if rapid.IntRange(0, 4).Draw(t, "emptyBranch") == 0 {
				blk.Kids = append(blk.Kids, nil)
			} else {
				blk.Kids = append(blk.Kids, c.seq(t, depth-1, false))
			}
		}
		c.branchConds(t, blk, nb)
		blk.Def = rapid.IntRange(-1, nb-1).Draw(t, "xorDefault")
		blk.DefCond = blk.Def >= 0 && rapid.IntRange(0, 2).Draw(t, "defaultFlowHasCondition") == 0
		return blk
	case "inc":
		c.budget -= 2
		nb := rapid.IntRange(1, 3).Draw(t, "incBranches")
		blk := &Block{K: "inc", Def: -1}
		save := *c
		c.underInc, c.underFork = true, true
		if c.o.NoIncNest {
			// forks inside inclusive branches are constructed around
		}
		for i := 0; i < nb; i++ {
			blk.Kids = append(blk.Kids, c.incBranch(t, depth-1))
		}
		c.underInc, c.underFork = save.underInc, save.underFork
		c.branchConds(t, blk, nb)
		blk.Def = rapid.IntRange(-1, nb-1).Draw(t, "incDefault")
		blk.DefCond = blk.Def >= 0 && rapid.IntRange(0, 2).Draw(t, "defaultFlowHasCondition") == 0
		return blk
	case "par":
		c.budget -= 2
		nb := rapid.IntRange(2, 3).Draw(t, "parBranches")
		blk := &Block{K: "par", Def: -1}
		save := *c
		c.underPar, c.underFork = true, true
		for i := 0; i < nb; i++ {
			blk.Kids = append(blk.Kids, c.seq(t, depth-1, false))
		}
		c.underPar, c.underFork = save.underPar, save.underFork
		return blk
	case "mmerge":
		c.budget -= 2
		nb := rapid.IntRange(2, 3).Draw(t, "mmBranches")
		blk := &Block{K: "mmerge", Def: -1}
		if rapid.IntRange(0, 2).Draw(t, "mmGroups") == 0 {
			// two groups of 1..2 tokens each, synchronised by a parallel join
			k := rapid.IntRange(1, 2).Draw(t, "mmGroupSize")
			blk.Groups = []int{k, k}
			nb = 2 * k
		}
		save := *c
		c.underPar, c.underFork = true, true
		for i := 0; i < nb; i++ {
			blk.Kids = append(blk.Kids, c.task(t))
		}
		c.underPar, c.underFork = save.underPar, save.underFork
		// tail after the exclusive merge: every token runs it independently
		tail := &Block{K: "seq", Def: -1, Kids: []*Block{c.task(t)}}
		if rapid.Bool().Draw(t, "mmTailXor") {
			x := &Block{K: "xor", Def: -1}
			x.Kids = []*Block{{K: "seq", Def: -1, Kids: []*Block{c.task(t)}}, nil}
			c.branchConds(t, x, 2)
			x.Def = 1
			tail.Kids = append(tail.Kids, x)
		}
		blk.Kids = append(blk.Kids, tail)
		return blk
	case "loop":
		c.budget -= 2
		c.loopN++
		lv := fmt.Sprintf("lp%d", c.loopN)
		save := *c
		c.inLoop = true
		c.underPar = true // no early end inside a loop body
		body := c.seq(t, depth-1, false)
		c.inLoop, c.underPar = save.inLoop, save.underPar
		// the loop task writes the loop variable
		lt := &Block{K: "task", Def: -1, Results: []string{lv}, LoopVar: lv}
		c.budget--
		body.Kids = append(body.Kids, lt)
		return &Block{K: "loop", Def: -1, Kids: []*Block{body}, Conds: []*Cond{BoolVar(lv)}, LoopVar: lv}
	case "sub":
		c.budget -= 3
		save := *c
		c.underPar = false
		c.underFork = false
		inner := c.seq(t, depth-1, false)
		c.underPar, c.underFork = save.underPar, save.underFork
		return &Block{K: "sub", Def: -1, Kids: []*Block{inner}}
	case "ctask":
		c.budget--
		blk := c.task(t)
		blk.K = "ctask"
		nb := rapid.IntRange(1, 3).Draw(t, "ctaskOut")
		for i := 0; i < nb; i++ {
			br := &Block{K: "seq", Def: -1}
			if rapid.Bool().Draw(t, "ctaskBranchTask") {
				br.Kids = append(br.Kids, c.task(t))
			}
			br.Kids = append(br.Kids, &Block{K: "end", Def: -1})
			c.budget--
			blk.Kids = append(blk.Kids, br)
		}
		c.branchConds(t, blk, nb)
		// some flows unconditional
		for i := range blk.Conds {
			if rapid.IntRange(0, 3).Draw(t, "uncond") == 0 {
				blk.Conds[i] = nil
			}
		}
		return blk
	}
	return c.task(t)
}

// incBranch draws the body of an inclusive branch: a sequence that may end
// early through an exclusive gateway (token ends before the join).
func (c *genCtx) incBranch(t *rapid.T, depth int) *Block {
	if c.o.NoIncNest {
		// only tasks, exclusive blocks (with possible early end) - no forks
		s := &Block{K: "seq", Def: -1}
		n := rapid.IntRange(1, 2).Draw(t, "incSeqLen")
		for i := 0; i < n; i++ {
			if rapid.IntRange(0, 3).Draw(t, "incXor") == 0 && c.budget > 3 {
				c.budget -= 2
				x := &Block{K: "xor", Def: -1}
				nb := rapid.IntRange(1, 2).Draw(t, "xb")
				for j := 0; j < nb; j++ {
					br := &Block{K: "seq", Def: -1, Kids: []*Block{c.task(t)}}
					if !c.o.NoEarlyEnd && !c.underPar && rapid.IntRange(0, 2).Draw(t, "earlyEnd") == 0 {
						br.Kids = append(br.Kids, &Block{K: "end", Def: -1})
						c.budget--
					}
					x.Kids = append(x.Kids, br)
				}
				c.branchConds(t, x, nb)
				x.Def = rapid.IntRange(-1, nb-1).Draw(t, "xd")
				s.Kids = append(s.Kids, x)
				lastBr := x.Kids[len(x.Kids)-1]
				_ = lastBr
			} else {
				s.Kids = append(s.Kids, c.task(t))
			}
		}
		return s
	}
	return c.seq(t, depth, false)
}

// Features classifies a program for the evidence histogram.
type Features struct {
	Tasks, Xor, Par, Inc, Loop, Sub, CTask, MMerge, EarlyEnd int
	Depth                                                    int
	MixedNest                                                bool // a gateway block nested in a gateway block of a different kind
	IncNested                                                bool // pattern of finding C05-F1
}

func (b *Block) Features() Features {
	var f Features
	b.walk(0, "", false, false, &f)
	return f
}

func (b *Block) walk(depth int, parentGw string, underFork, underInc bool, f *Features) {
	if b == nil {
		return
	}
	if depth > f.Depth {
		f.Depth = depth
	}
	if b.Wrap > 0 {
		f.Sub += b.Wrap
	}
	switch b.K {
	case "task":
		f.Tasks++
	case "end":
		f.EarlyEnd++
	case "ctask":
		f.Tasks++
		f.CTask++
		if underInc && len(b.Kids) > 1 {
			f.IncNested = true
		}
	case "xor":
		f.Xor++
	case "par":
		f.Par++
		if underInc {
			f.IncNested = true
		}
	case "inc":
		f.Inc++
		if underFork {
			f.IncNested = true
		}
	case "loop":
		f.Loop++
	case "sub":
		f.Sub++
	case "mmerge":
		f.MMerge++
		if underInc {
			f.IncNested = true
		}
	}
	gw := parentGw
	uf, ui := underFork, underInc
	switch b.K {
	case "xor", "par", "inc":
		if parentGw != "" && parentGw != b.K {
			f.MixedNest = true
		}
		gw = b.K
		if b.K == "par" {
			uf = true
		}
		if b.K == "inc" {
			uf, ui = true, true
		}
	case "mmerge":
		uf = true
	case "sub":
		// a sub-process starts a fresh token context for the engine's cohort logic? no: same tracer. keep flags.
	}
	d := depth
	if b.K != "seq" {
		d++
	}
	for _, k := range b.Kids {
		k.walk(d, gw, uf, ui, f)
	}
}
