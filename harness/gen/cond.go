package gen

import (
	"fmt"
)

// Cond is a condition over integer and boolean instance variables.
type Cond struct {
	Op  string `json:"op"` // true false var not eq ne lt gt and or | dobj (Var names a boolean data object) | raw (Var holds text that cannot be evaluated to a boolean)
	Var string `json:"var,omitempty"`
	K   int64  `json:"k,omitempty"`
	L   *Cond  `json:"l,omitempty"`
	R   *Cond  `json:"r,omitempty"`
	// PV (op prop): the value the document declares for the process-level olive
	// property Var; the condition reads getProp(Var) == K
	PV int64 `json:"pv,omitempty"`
}

func True() *Cond  { return &Cond{Op: "true"} }
func False() *Cond { return &Cond{Op: "false"} }
func Lit(b bool) *Cond {
	if b {
		return True()
	}
	return False()
}
func BoolVar(v string) *Cond { return &Cond{Op: "var", Var: v} }

// Raw is expression text rendered verbatim in both languages that no engine
// can evaluate to a boolean (undefined variable, non-boolean result, foreign
// syntax). Only for flows whose condition BPMN says is ignored.
func Raw(text string) *Cond { return &Cond{Op: "raw", Var: text} }

// Eval is the reference evaluator (independent of both expression engines).
// Variables are int64 or bool; a missing variable makes the condition
// unevaluable (ok=false) - the generator never produces that on purpose.
func (c *Cond) Eval(vars map[string]any) (val bool, ok bool) {
	switch c.Op {
	case "raw":
		return false, false
	case "prop":
		return c.PV == c.K, true
	case "dobj":
		// data objects live beside the variables: the model keeps their values
		// in the variable map under DataObjKey(name)
		b, isB := vars[DataObjKey(c.Var)].(bool)
		return b, isB
	case "true":
		return true, true
	case "false":
		return false, true
	case "var":
		b, isB := vars[c.Var].(bool)
		return b, isB
	case "not":
		v, o := c.L.Eval(vars)
		return !v, o
	case "and":
		a, oa := c.L.Eval(vars)
		b, ob := c.R.Eval(vars)
		return a && b, oa && ob
	case "or":
		a, oa := c.L.Eval(vars)
		b, ob := c.R.Eval(vars)
		return a || b, oa && ob
	}
	n, isN := vars[c.Var].(int64)
	if !isN {
		return false, false
	}
	switch c.Op {
	case "eq":
		return n == c.K, true
	case "ne":
		return n != c.K, true
	case "lt":
		return n < c.K, true
	case "gt":
		return n > c.K, true
	}
	return false, false
}

// DataObjKey is the key under which the value of data object name is kept in
// a case's variable map (the engine receives those entries through
// bpmn.WithDataObjects, not as variables).
func DataObjKey(name string) string { return "$do$" + name }

// DataObjPool are the data objects conditions may read.
var DataObjPool = []string{"d0", "d1"}

// UsesDataObject reports whether the condition reads a data object.
func (c *Cond) UsesDataObject() bool {
	if c == nil {
		return false
	}
	return c.Op == "dobj" || c.Op == "prop" || c.L.UsesDataObject() || c.R.UsesDataObject()
}

// Vars lists the variables the condition reads.
func (c *Cond) Vars(into map[string]string) {
	switch c.Op {
	case "var":
		into[c.Var] = "bool"
	case "eq", "ne", "lt", "gt":
		into[c.Var] = "int"
	}
	if c.L != nil {
		c.L.Vars(into)
	}
	if c.R != nil {
		c.R.Vars(into)
	}
}

// Expr renders expr-lang text.
func (c *Cond) Expr() string {
	switch c.Op {
	case "raw":
		return c.Var
	case "true", "false":
		return c.Op
	case "var":
		return c.Var
	case "dobj":
		return fmt.Sprintf(`getDataObject("%s") == true`, c.Var)
	case "prop":
		return fmt.Sprintf(`getProp("%s") == %d`, c.Var, c.K)
	case "not":
		return "!(" + c.L.Expr() + ")"
	case "and":
		return "(" + c.L.Expr() + ") && (" + c.R.Expr() + ")"
	case "or":
		return "(" + c.L.Expr() + ") || (" + c.R.Expr() + ")"
	case "eq":
		return fmt.Sprintf("%s == %d", c.Var, c.K)
	case "ne":
		return fmt.Sprintf("%s != %d", c.Var, c.K)
	case "lt":
		return fmt.Sprintf("%s < %d", c.Var, c.K)
	case "gt":
		return fmt.Sprintf("%s > %d", c.Var, c.K)
	}
	return "false"
}

// XPath renders XPath 1.0 text. The engine serialises the variables as
// <doc><v>..</v>..</doc>, or as a bare <v>..</v> document when there is exactly
// one variable, so variables are addressed as //v (valid for both shapes).
func (c *Cond) XPath() string {
	switch c.Op {
	case "raw":
		return c.Var
	case "true":
		return "true()"
	case "false":
		return "false()"
	case "var":
		return fmt.Sprintf("//%s = 'true'", c.Var)
	case "not":
		return "not(" + c.L.XPath() + ")"
	case "and":
		return "(" + c.L.XPath() + ") and (" + c.R.XPath() + ")"
	case "or":
		return "(" + c.L.XPath() + ") or (" + c.R.XPath() + ")"
	case "eq":
		return fmt.Sprintf("//%s = %d", c.Var, c.K)
	case "ne":
		return fmt.Sprintf("//%s != %d", c.Var, c.K)
	case "lt":
		return fmt.Sprintf("//%s < %d", c.Var, c.K)
	case "gt":
		return fmt.Sprintf("//%s > %d", c.Var, c.K)
	}
	return "false()"
}
