package scratch

import (
	"fmt"
	"testing"
	"time"

	"pgregory.net/rapid"
	"verif/harness/drive"
	"verif/harness/gen"
	"verif/harness/model"
	"verif/harness/quiesce"
)

func TestLeaks(t *testing.T) {
	seen := map[string]int{}
	rapid.Check(t, func(rt *rapid.T) {
		blk := gen.GenProgram(rt, gen.GenOpts{NoIncNest: true, NoCTask: true, MaxDepth: 3, MaxNodes: 12})
		c := &drive.Case{Prog: blk, Lang: "expr", Vars: map[string]any{"n0": int64(1), "n1": int64(1), "n2": int64(1), "b0": true, "b1": false, "b2": true, "lp1": false, "lp2": false, "lp3": false}, Answers: map[string][]model.Answer{}}
		tr := quiesce.Begin()
		out := drive.RunLockstep(c, nil, &drive.Hooks{NewInst: func(x string, v map[string]any) (*drive.Inst, error) { return drive.New(x, drive.Options{Vars: v, Tracker: tr}) }})
		_ = out
		time.Sleep(100 * time.Millisecond)
		for _, g := range tr.Mine() {
			k := g.State + " " + g.TopFunc()
			if seen[k] == 0 {
				fmt.Printf("LEFT %s\n%s\n", k, g.Frames)
			}
			seen[k]++
		}
	})
	fmt.Println(seen)
}
