package scratch

import (
	"fmt"
	"testing"

	"verif/harness/drive"
)

func TestX4(t *testing.T) {
	x := `<?xml version="1.0" encoding="UTF-8"?>
<bpmn:definitions xmlns:bpmn="http://www.omg.org/spec/BPMN/20100524/MODEL" xmlns:olive="http://olive.io/spec/BPMN/MODEL" xmlns:xsi="http://www.w3.org/2001/XMLSchema-instance" id="Defs_1" targetNamespace="http://bpmn.io/schema/bpmn" expressionLanguage="http://www.w3.org/1999/XPath">
<bpmn:process id="Proc_1" isExecutable="true">
<bpmn:startEvent id="start1">
<bpmn:outgoing>f4</bpmn:outgoing>
</bpmn:startEvent>
<bpmn:exclusiveGateway id="x2">
<bpmn:incoming>f5</bpmn:incoming>
<bpmn:outgoing>f8</bpmn:outgoing>
</bpmn:exclusiveGateway>
<bpmn:task id="t3">
<bpmn:incoming>f4</bpmn:incoming>
<bpmn:outgoing>f5</bpmn:outgoing>
</bpmn:task>
<bpmn:task id="t6">
<bpmn:incoming>f8</bpmn:incoming>
<bpmn:outgoing>f9</bpmn:outgoing>
</bpmn:task>
<bpmn:endEvent id="end7">
<bpmn:incoming>f9</bpmn:incoming>
</bpmn:endEvent>
<bpmn:sequenceFlow id="f4" sourceRef="start1" targetRef="t3"/>
<bpmn:sequenceFlow id="f5" sourceRef="t3" targetRef="x2"/>
<bpmn:sequenceFlow id="f8" sourceRef="x2" targetRef="t6"><bpmn:conditionExpression xsi:type="bpmn:tFormalExpression">/doc/c0 = 'true'</bpmn:conditionExpression></bpmn:sequenceFlow>
<bpmn:sequenceFlow id="f9" sourceRef="t6" targetRef="end7"/>
</bpmn:process>
</bpmn:definitions>`
	for _, vars := range []map[string]any{{"c0": true}, {"c0": true, "zz": int64(1)}} {
		in, err := drive.New(x, drive.Options{Vars: vars})
		if err != nil { t.Fatal(err) }
		in.StartAll()
		in.Quiesce()
		in.NewTasks()[0].Do()
		in.Quiesce()
		fmt.Println(vars, "=>", drive.DescribeAll(in.Traces())[8:])
		in.Close()
	}
}
