package scratch

import (
	"fmt"
	"testing"
	"time"

	"verif/harness/drive"
	"verif/harness/gen"
	"verif/harness/quiesce"
)

func TestTiming(t *testing.T) {
	blk := &gen.Block{K: "seq", Def: -1, Kids: []*gen.Block{{K: "task", Def: -1}, {K: "task", Def: -1}}}
	for i := 0; i < 5; i++ {
		c := &drive.Case{Prog: blk, Lang: "expr", Vars: map[string]any{}}
		t0 := time.Now()
		out := drive.RunLockstep(c, nil, &drive.Hooks{KeepAlive: false})
		fmt.Println("run", time.Since(t0), out.Symptom, out.Inconcl)
		t1 := time.Now()
		gs := quiesce.All()
		fmt.Println("goroutines alive", len(gs), time.Since(t1))
		for _, g := range gs {
			if !g.Parked() { fmt.Println("  ", g.ID, g.State, g.TopFunc()) }
		}
	}
}
