package scratch

import (
	"fmt"
	"sync"
	"testing"

	"github.com/olive-io/bpmn/v2/pkg/id"
)

func TestFallbackPrefix(t *testing.T) {
	const gor, n = 16, 50000
	outs := make([][]string, gor)
	var wg sync.WaitGroup
	for w := 0; w < gor; w++ {
		wg.Add(1)
		go func(w int) { defer wg.Done(); o := make([]string, n); for i := range o { o[i] = id.NewFallbackGenerator().New().String() }; outs[w] = o }(w)
	}
	wg.Wait()
	seen := map[string]int{}
	dups := 0
	for _, o := range outs { for _, s := range o { seen[s]++; if seen[s] == 2 { dups++; if dups < 3 { fmt.Println("dup", s) } } } }
	fmt.Println("fallback first ids:", gor*n, "dups", dups)
}
