package scratch

import (
	"encoding/xml"
	"fmt"
	"os"
	"strings"
	"testing"

	"github.com/olive-io/bpmn/schema"
)

func TestRT(t *testing.T) {
	x, _ := os.ReadFile("/repo/schema/testdata/stdloop-example.bpmn")
	m1, _ := schema.Parse(x)
	x2, _ := xml.Marshal(m1)
	s := string(x2)
	i := strings.Index(s, "standardLoop")
	fmt.Println(s[i-20 : i+300])
	fmt.Printf("%#v\n", (*m1.Processes())[0].TaskField[0].StandardLoopCharacteristicsField.LoopConditionField)
}
