package scratch

import (
	"fmt"
	"testing"

	"verif/harness/drive"
)

func TestX3(t *testing.T) {
	x := `<?xml version="1.0" encoding="UTF-8"?>
<bpmn:definitions xmlns:bpmn="http://www.omg.org/spec/BPMN/20100524/MODEL" xmlns:olive="http://olive.io/spec/BPMN/MODEL" xmlns:xsi="http://www.w3.org/2001/XMLSchema-instance" id="Defs_1" targetNamespace="http://bpmn.io/schema/bpmn" expressionLanguage="http://www.w3.org/1999/XPath">
<bpmn:process id="Proc_1" isExecutable="true">
<bpmn:startEvent id="start1"><bpmn:outgoing>f4</bpmn:outgoing></bpmn:startEvent>
<bpmn:exclusiveGateway id="x2"><bpmn:incoming>f4</bpmn:incoming><bpmn:outgoing>f8</bpmn:outgoing></bpmn:exclusiveGateway>
<bpmn:task id="t6"><bpmn:incoming>f8</bpmn:incoming><bpmn:outgoing>f9</bpmn:outgoing></bpmn:task>
<bpmn:endEvent id="end7"><bpmn:incoming>f9</bpmn:incoming></bpmn:endEvent>
<bpmn:sequenceFlow id="f4" sourceRef="start1" targetRef="x2"/>
<bpmn:sequenceFlow id="f8" sourceRef="x2" targetRef="t6"><bpmn:conditionExpression xsi:type="bpmn:tFormalExpression">COND</bpmn:conditionExpression></bpmn:sequenceFlow>
<bpmn:sequenceFlow id="f9" sourceRef="t6" targetRef="end7"/>
</bpmn:process>
</bpmn:definitions>`
	for _, cond := range []string{"/doc/c0 = 'true'", "/doc/b0 = 'true'", "/doc/k = 3", "true()", "/doc/c0"} {
		in, err := drive.New(replace(x, cond), drive.Options{Vars: map[string]any{"c0": true, "b0": true, "k": int64(3)}})
		if err != nil { t.Fatal(err) }
		in.StartAll()
		in.Quiesce()
		fmt.Println(cond, "=>", drive.DescribeAll(in.Traces())[6:])
		in.Close()
	}
}
func replace(s, c string) string {
	out := ""
	for i := 0; i < len(s); i++ {
		if i+4 <= len(s) && s[i:i+4] == "COND" { out += c; i += 3 } else { out += string(s[i]) }
	}
	return out
}
