package scratch

import (
	"fmt"
	"testing"
	"time"

	"verif/harness/drive"
	"verif/harness/gen"
)

func TestTiming2(t *testing.T) {
	blk := &gen.Block{K: "seq", Def: -1, Kids: []*gen.Block{{K: "task", Def: -1}, {K: "task", Def: -1}}}
	lw := gen.Lower(blk)
	p := &gen.Program{G: lw.G, DefaultLang: "expr"}
	for i := 0; i < 4; i++ {
		t0 := time.Now()
		in, err := drive.New(p.XML(), drive.Options{})
		if err != nil { t.Fatal(err) }
		fmt.Println("new", time.Since(t0))
		t0 = time.Now()
		in.StartAll()
		fmt.Println("start", time.Since(t0))
		t0 = time.Now()
		in.Quiesce()
		fmt.Println("quiesce", time.Since(t0))
		for k := 0; k < 2; k++ {
			tt := in.NewTasks()
			t0 = time.Now()
			tt[0].Do()
			in.Quiesce()
			fmt.Println("answer+quiesce", time.Since(t0))
		}
		t0 = time.Now()
		in.Close()
		fmt.Println("close", time.Since(t0))
	}
}
