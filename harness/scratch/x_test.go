package scratch

import (
	"context"
	"fmt"
	"testing"

	"github.com/Chronokeeper/anyxml"
	"github.com/olive-io/bpmn/v2/pkg/expression/xpath"
)

func TestX(t *testing.T) {
	b, err := anyxml.Xml(map[string]any{"c0": true, "k": int64(3), "s": "x"})
	fmt.Println(string(b), err)
	e := xpath.New(context.Background())
	for _, src := range []string{"/doc/c0 = 'true'", "/doc/c0", "string(/doc/c0)", "/doc/c0 = true()", "boolean(/doc/c0)", "/doc/k = 3", "/doc/k > 2", "/doc/c0 = 'True'", "/doc/c0='1'"} {
		c, err := e.CompileExpression(src)
		if err != nil { fmt.Println(src, "compile", err); continue }
		r, err := e.EvaluateExpression(c, map[string]any{"c0": true, "k": int64(3), "c1": false})
		fmt.Printf("%s => %v (%T) %v\n", src, r, r, err)
	}
}
