package scratch

import (
	"context"
	"fmt"
	"sync"
	"testing"

	"github.com/olive-io/bpmn/v2/pkg/id"
	"github.com/olive-io/bpmn/v2/pkg/tracing"
)

func TestIdDup(t *testing.T) {
	for _, gor := range []int{1, 2, 4, 16} {
		ctx, cancel := context.WithCancel(context.Background())
		tr := tracing.NewTracer(ctx)
		sub := tr.Subscribe()
		warn := 0
		go func() { for range sub { warn++ } }()
		g, _ := id.GetSno().NewIdGenerator(ctx, tr)
		n := 400000 / gor
		outs := make([][]string, gor)
		var wg sync.WaitGroup
		for w := 0; w < gor; w++ {
			wg.Add(1)
			go func(w int) { defer wg.Done(); o := make([]string, n); for i := range o { o[i] = g.New().String() }; outs[w] = o }(w)
		}
		wg.Wait()
		seen := map[string]int{}
		dups := 0
		for _, o := range outs { for _, s := range o { seen[s]++; if seen[s] == 2 { dups++ } } }
		fmt.Println("goroutines", gor, "dups", dups, "warnings", warn)
		cancel()
	}
}
