package scratch

import (
	"fmt"
	"runtime"
	"testing"
	"time"

	"verif/harness/drive"
	"verif/harness/gen"
	"verif/harness/quiesce"
)

func TestQuiesceStress(t *testing.T) {
	// CPU hogs to mimic a loaded machine
	stop := make(chan struct{})
	for i := 0; i < 8; i++ {
		go func() {
			x := 0
			for {
				select {
				case <-stop:
					return
				default:
					x++
					if x%1000 == 0 {
						runtime.Gosched()
					}
				}
			}
		}()
	}
	defer close(stop)
	b := gen.NewB()
	st := b.Add(gen.KStart)
	f := b.Add(gen.KPar)
	b.Connect(st, f)
	for i := 0; i < 3; i++ {
		tk := b.Add(gen.KTask)
		en := b.Add(gen.KEnd)
		b.Connect(f, tk)
		b.Connect(tk, en)
	}
	p := &gen.Program{G: b.G, DefaultLang: "expr"}
	x := p.XML()
	bad := 0
	for n := 0; n < 4000; n++ {
		in, err := drive.New(x, drive.Options{})
		if err != nil {
			t.Fatal(err)
		}
		in.StartAll()
		gs, err := in.Quiesce()
		if err != nil {
			t.Fatal(err)
		}
		got := len(in.NewTasks())
		if got != 3 {
			bad++
			snap := quiesce.Dump(gs)
			time.Sleep(100 * time.Millisecond)
			later := len(in.NewTasks())
			fmt.Printf("iteration %d: %d tasks at 'quiescence', %d more later\nSNAPSHOT:\n%s\nNOW:\n%s\n", n, got, later, snap, quiesce.Dump(in.Tr.Mine()))
			if bad >= 2 {
				break
			}
		}
		in.Close()
	}
	fmt.Println("bad:", bad)
}
