package scratch

import (
	"fmt"
	"testing"

	"verif/harness/drive"
)

func TestX2(t *testing.T) {
	in, err := drive.New(`<?xml version="1.0" encoding="UTF-8"?>
<bpmn:definitions xmlns:bpmn="http://www.omg.org/spec/BPMN/20100524/MODEL" id="D"><bpmn:process id="P" isExecutable="true"><bpmn:startEvent id="s"/></bpmn:process></bpmn:definitions>`, drive.Options{Vars: map[string]any{"c0": true, "k": int64(3), "f": 1.5, "s": "x"}})
	if err != nil { t.Fatal(err) }
	defer in.Close()
	for k, it := range in.P.Locator().CloneVariables() {
		fmt.Printf("%s => %#v type=%v\n", k, it.Value(), it.Type())
	}
}
