package c03

// TestC03Wide: "for every N" - parallel gateways with many incoming flows,
// around and beyond the widths at which a machine word runs out (63, 64, 65,
// 66, 80, 130): fork(1 -> N) -> N tasks -> J(N -> 1) -> task -> end. One to
// three branch tasks are held back (at drawn positions, in particular the
// last ones declared); the join must release nothing before the last of them
// is answered, and exactly one token afterwards.

import (
	"fmt"
	"testing"

	"pgregory.net/rapid"

	"verif/harness/drive"
	"verif/harness/gen"
	"verif/harness/model"
	"verif/harness/rec"
)

type wideDesc struct {
	N    int   `json:"n"`
	Late []int `json:"late"` // positions (declaration order of the join's incoming flows) answered last, in this order
}

func buildWide(d wideDesc) (*gen.Graph, []string) {
	b := gen.NewB()
	st := b.Add(gen.KStart)
	fork := b.Add(gen.KPar)
	b.Connect(st, fork)
	j := b.Add(gen.KPar)
	var ups []string
	for i := 0; i < d.N; i++ {
		t := b.Add(gen.KTask)
		ups = append(ups, t.ID)
		b.Connect(fork, t)
		b.Connect(t, j)
	}
	after := b.Add(gen.KTask)
	b.Connect(j, after)
	en := b.Add(gen.KEnd)
	b.Connect(after, en)
	return b.G, ups
}

func runWide(d wideDesc) *drive.Outcome {
	g, ups := buildWide(d)
	late := map[string]int{}
	for k, p := range d.Late {
		late[ups[p%d.N]] = k + 1
	}
	// answer order: every early task first (declaration order), then the late ones in the drawn order
	rank := map[string]int{}
	for i, id := range ups {
		if k, ok := late[id]; ok {
			rank[id] = d.N + k
		} else {
			rank[id] = i
		}
	}
	c := &drive.Case{Graph: g, Lang: "expr", Vars: map[string]any{}, Answers: map[string][]model.Answer{}, Rank: rank}
	return drive.RunLockstep(c, func(n int) int { return 0 }, nil)
}

func TestC03Wide(t *testing.T) {
	var rd wideDesc
	if ok, err := rec.ReplayInput(&rd); ok {
		if err != nil {
			t.Fatal(err)
		}
		if rd.N == 0 {
			return
		}
		if out := runWide(rd); out.Symptom != "" {
			fmt.Printf("REPRODUCED %s: %s\n", out.Symptom, out.Detail)
			t.Fatalf("%s", out.Symptom)
		}
		return
	}
	rapid.Check(t, func(rt *rapid.T) {
		d := wideDesc{N: rapid.SampledFrom([]int{31, 32, 33, 63, 64, 65, 66, 80, 130}).Draw(rt, "n")}
		for i := rapid.IntRange(1, 3).Draw(rt, "late"); i > 0; i-- {
			switch rapid.IntRange(0, 2).Draw(rt, "where") {
			case 0:
				d.Late = append(d.Late, d.N-1-rapid.IntRange(0, 2).Draw(rt, "fromEnd"))
			case 1:
				d.Late = append(d.Late, rapid.IntRange(0, 2).Draw(rt, "fromStart"))
			default:
				d.Late = append(d.Late, rapid.IntRange(0, d.N-1).Draw(rt, "anywhere"))
			}
		}
		hash := rec.Hash(d)
		rec.Begin("TestC03Wide", hash, d)
		out := runWide(d)
		if out.Inconcl != "" {
			rec.End(hash, "inconclusive")
			rec.Inconclusive("TestC03Wide", out.Inconcl)
			rt.Fatalf("inconclusive: %s", out.Inconcl)
		}
		rec.End(hash, out.Symptom)
		rec.Case("TestC03Wide", hash, d.N > 64, []string{fmt.Sprintf("N=%d", d.N)}, d)
		if out.Symptom != "" {
			rt.Fatalf("%s", rec.Fail(rec.Failure{Property: prop, Test: "TestC03Wide", Symptom: out.Symptom, Detail: out.Detail, Descriptor: d,
				History: map[string]any{"steps": out.Steps[max(0, len(out.Steps)-6):]}, Goroutines: ""}))
		}
	})
}
