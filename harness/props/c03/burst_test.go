package c03

// TestC03Burst: several complete sets of tokens reach ONE parallel gateway in a
// burst - the tasks in front of it are answered at the same moment from
// separate goroutines, so that arrivals queue up behind the one the gateway
// is busy with.
//
//	fork shape: start -> F(1->K) -> K tasks -> exclusive merge -> P(1->M) -> M tasks -> ends
//	join shape: start -> F(1->2K) -> 2 groups of K tasks -> one exclusive merge per group
//	            -> J(2->M) -> M tasks -> ends
//
// Every token (fork) / every pair of tokens (join) activates the gateway once:
// after the burst exactly K x M tasks are requested behind it, and when they
// are answered the instance completes - no token is lost, none is invented.

import (
	"context"
	"fmt"
	"sort"
	"sync"
	"testing"

	bpmn "github.com/olive-io/bpmn/v2"
	"pgregory.net/rapid"

	"verif/harness/drive"
	"verif/harness/gen"
	"verif/harness/rec"
)

type burstDesc struct {
	K    int  `json:"k"`    // tokens per incoming flow (2..10)
	M    int  `json:"m"`    // outgoing flows (1..3)
	Join bool `json:"join"` // two incoming flows (K tokens each) instead of one
}

func runBurst(d burstDesc) (sym, det, inconcl string) {
	b := gen.NewB()
	st := b.Add(gen.KStart)
	f := b.Add(gen.KPar)
	b.Connect(st, f)
	p := b.Add(gen.KPar)
	groups := 1
	if d.Join {
		groups = 2
	}
	up := map[string]bool{}
	for g := 0; g < groups; g++ {
		mrg := b.Add(gen.KXor)
		for i := 0; i < d.K; i++ {
			t := b.Add(gen.KTask)
			up[t.ID] = true
			b.Connect(f, t)
			b.Connect(t, mrg)
		}
		b.Connect(mrg, p)
	}
	down := map[string]bool{}
	for i := 0; i < d.M; i++ {
		t := b.Add(gen.KTask)
		down[t.ID] = true
		en := b.Add(gen.KEnd)
		b.Connect(p, t)
		b.Connect(t, en)
	}
	prog := &gen.Program{G: b.G, DefaultLang: "expr"}
	in, err := drive.New(prog.XML(), drive.Options{})
	if err != nil {
		return "construct", err.Error(), ""
	}
	defer in.Close()
	if err := in.StartAll(); err != nil {
		return "start-error", err.Error(), ""
	}
	if _, err := in.Quiesce(); err != nil {
		return "", "", err.Error()
	}
	first := in.NewTasks()
	if len(first) != groups*d.K {
		return "requests", fmt.Sprintf("%d requests in front of the gateway, want %d", len(first), groups*d.K), ""
	}
	var wg sync.WaitGroup
	for _, tt := range first {
		wg.Add(1)
		go func(tt bpmn.TaskTrace) { defer wg.Done(); tt.Do() }(tt)
	}
	wg.Wait()
	if _, err := in.Quiesce(); err != nil {
		return "", "", err.Error()
	}
	got := in.NewTasks()
	count := map[string]int{}
	for _, tt := range got {
		id, _ := tt.GetActivity().Element().Id()
		count[*id]++
	}
	var ids []string
	for id := range down {
		ids = append(ids, id)
	}
	sort.Strings(ids)
	for _, id := range ids {
		if count[id] != d.K {
			return "tokens", fmt.Sprintf("%d tokens per incoming flow reached the gateway in one burst: the task on outgoing flow to %s was requested %d times, want %d (all requests: %v)", d.K, id, count[id], d.K, count), ""
		}
	}
	if len(got) != d.K*d.M {
		return "tokens", fmt.Sprintf("%d requests behind the gateway, want %d", len(got), d.K*d.M), ""
	}
	for _, tt := range got {
		tt.Do()
	}
	ctx, cancel := context.WithCancel(context.Background())
	res := make(chan bool, 1)
	go func() { res <- in.P.WaitUntilComplete(ctx) }()
	_, qerr := in.Quiesce()
	done := false
	select {
	case done = <-res:
	default:
	}
	cancel()
	if qerr != nil {
		return "", "", qerr.Error()
	}
	if !done {
		return "not-complete", "every task has been answered, the instance does not complete: tokens are held at the gateway", ""
	}
	return "", "", ""
}

func TestC03Burst(t *testing.T) {
	var rd burstDesc
	if ok, err := rec.ReplayInput(&rd); ok {
		if err != nil {
			t.Fatal(err)
		}
		if rd.K == 0 {
			return
		}
		fails := 0
		for i := 0; i < 10; i++ {
			if s, dd, _ := runBurst(rd); s != "" {
				fails++
				if fails == 1 {
					fmt.Printf("REPRODUCED %s: %s\n", s, dd)
				}
			}
		}
		if fails > 0 {
			t.Fatalf("reproduced in %d of 10 runs", fails)
		}
		return
	}
	rapid.Check(t, func(rt *rapid.T) {
		d := burstDesc{K: rapid.IntRange(2, 10).Draw(rt, "k"), M: rapid.IntRange(1, 3).Draw(rt, "m"), Join: rapid.Bool().Draw(rt, "join")}
		hash := rec.Hash(d) + fmt.Sprint(rapid.IntRange(0, 1<<30).Draw(rt, "round"))
		rec.Begin("TestC03Burst", hash, d)
		s, dd, inc := runBurst(d)
		if inc != "" {
			rec.End(hash, "inconclusive")
			rec.Inconclusive("TestC03Burst", inc)
			rt.Fatalf("inconclusive: %s", inc)
		}
		rec.End(hash, s)
		rec.Case("TestC03Burst", hash, d.K >= 4, []string{fmt.Sprintf("join=%v", d.Join), fmt.Sprintf("tokensPerFlow>=4:%v", d.K >= 4)}, d)
		if s != "" {
			rt.Fatalf("%s", rec.Fail(rec.Failure{Property: prop, Test: "TestC03Burst", Symptom: s, Detail: dd, Descriptor: d}))
		}
	})
}
