package c03

import (
	"fmt"
	"testing"

	bpmn "github.com/olive-io/bpmn/v2"
	"pgregory.net/rapid"

	"verif/harness/drive"
	"verif/harness/gen"
	"verif/harness/model"
	"verif/harness/rec"
)

const prop = "C03"

// shape builds: start -> [loop merge] -> fork(1->N) -> N tasks -> J(N->M) -> M tasks -> join2(M->1) -> L -> [loop split] -> end
// J is the gateway under test. loop=false: no loop gateways and no L task.
type shape struct {
	N, M int
	Loop bool
	// CondOut: bit i set = outgoing flow i of the gateway under test carries a
	// (false) condition expression; a parallel gateway ignores conditions
	CondOut int
	// CondRaw: 0 = the conditions are "false"; 1..3 = text that cannot be
	// evaluated (undefined variable / non-boolean / foreign syntax) - equally ignored
	CondRaw int
}

type built struct {
	G        *gen.Graph
	J        string
	Up, Down []string
	LoopTask string
}

func build(s shape) *built {
	b := gen.NewB()
	out := &built{G: b.G}
	st := b.Add(gen.KStart)
	var entryFrom *gen.Node = st
	var lm, ls *gen.Node
	if s.Loop {
		lm = b.Add(gen.KXor)
		b.Connect(st, lm)
		entryFrom = lm
	}
	j := b.Add(gen.KPar)
	out.J = j.ID
	if s.N == 1 {
		up := b.Add(gen.KTask)
		out.Up = append(out.Up, up.ID)
		b.Connect(entryFrom, up)
		b.Connect(up, j)
	} else {
		fork := b.Add(gen.KPar)
		b.Connect(entryFrom, fork)
		for i := 0; i < s.N; i++ {
			up := b.Add(gen.KTask)
			out.Up = append(out.Up, up.ID)
			b.Connect(fork, up)
			b.Connect(up, j)
		}
	}
	var after *gen.Node
	cond := func(f *gen.Flow, i int) {
		if s.CondOut&(1<<i) != 0 {
			f.Cond, f.Formal = gen.False(), true
			switch s.CondRaw {
			case 1:
				f.Cond = gen.Raw("undefinedVariable9 > 1")
			case 2:
				f.Cond = gen.Raw("1 + 1")
			case 3:
				f.Cond = gen.Raw("${x}")
			}
		}
	}
	if s.M == 1 {
		d := b.Add(gen.KTask)
		out.Down = append(out.Down, d.ID)
		cond(b.Connect(j, d), 0)
		after = d
	} else {
		j2 := b.Add(gen.KPar)
		for i := 0; i < s.M; i++ {
			d := b.Add(gen.KTask)
			out.Down = append(out.Down, d.ID)
			cond(b.Connect(j, d), i)
			b.Connect(d, j2)
		}
		after = j2
	}
	if s.Loop {
		l := b.Add(gen.KTask)
		l.Results = []string{"lp1"}
		out.LoopTask = l.ID
		b.Connect(after, l)
		ls = b.Add(gen.KXor)
		b.Connect(l, ls)
		back := b.Connect(ls, lm)
		back.Cond = gen.BoolVar("lp1")
		back.Formal = true
		en := b.Add(gen.KEnd)
		ex := b.Connect(ls, en)
		ls.Default = ex.ID
	} else {
		en := b.Add(gen.KEnd)
		b.Connect(after, en)
	}
	return out
}

type descriptor struct {
	Shape       shape `json:"shape"`
	Activations int   `json:"activations"`
	Schedule    []int `json:"schedule"`
}

// gatewayAccounting checks the trace-level conservation at J.
func gatewayAccounting(bt *built, s shape, activations int) func(in *drive.Inst, m *model.M, out *drive.Outcome) {
	return func(in *drive.Inst, m *model.M, out *drive.Outcome) {
		released, completed := 0, 0
		for _, t := range in.Traces() {
			switch tr := t.(type) {
			case bpmn.FlowTrace:
				if id, ok := tr.Source.Id(); ok && *id == bt.J {
					released += len(tr.Flows)
				}
			case bpmn.CompletionTrace:
				if id, ok := tr.Node.Id(); ok && *id == bt.J {
					completed++
				}
			}
		}
		min := s.N
		if s.M < min {
			min = s.M
		}
		if released != s.M*activations {
			out.Symptom, out.Detail = "token-count", fmt.Sprintf("gateway %s released %d tokens over %d activations, want %d", bt.J, released, activations, s.M*activations)
			return
		}
		if completed != (s.N-min)*activations {
			out.Symptom, out.Detail = "surplus-count", fmt.Sprintf("gateway %s consumed %d surplus arrivals over %d activations, want %d", bt.J, completed, activations, (s.N-min)*activations)
		}
	}
}

func run(t interface{ Fatalf(string, ...any) }, test string, d descriptor, pick func(int) int) (*drive.Outcome, bool) {
	d.Shape.Loop = d.Activations > 1
	bt := build(d.Shape)
	c := &drive.Case{Graph: bt.G, Lang: "expr", Vars: map[string]any{"lp1": false}, Answers: map[string][]model.Answer{}, Schedule: d.Schedule}
	if d.Shape.Loop {
		var as []model.Answer
		for i := 0; i < d.Activations-1; i++ {
			as = append(as, model.Answer{Kind: model.AnsOK, Results: map[string]any{"lp1": true}})
		}
		as = append(as, model.Answer{Kind: model.AnsOK, Results: map[string]any{"lp1": false}})
		c.Answers[bt.LoopTask] = as
	}
	hash := rec.Hash(d)
	rec.Begin(test, hash, d)
	out := drive.RunLockstep(c, pick, &drive.Hooks{BeforeClose: gatewayAccounting(bt, d.Shape, d.Activations)})
	if out.Inconcl != "" {
		rec.End(hash, "inconclusive")
		rec.Inconclusive(test, out.Inconcl)
		t.Fatalf("inconclusive: %s", out.Inconcl)
	}
	rec.End(hash, out.Symptom)
	if out.Symptom != "" {
		msg := rec.Fail(rec.Failure{Property: prop, Test: test, Symptom: out.Symptom, Detail: out.Detail, Descriptor: d,
			History: map[string]any{"steps": out.Steps, "traces": out.Traces, "xml": out.Program.XML()}, Goroutines: out.Gs})
		t.Fatalf("%s", msg)
	}
	return out, d.Shape.N >= 2
}

func lehmerAll(n int, f func(code []int)) {
	code := make([]int, n)
	var rec_ func(i int)
	rec_ = func(i int) {
		if i == n {
			f(append([]int(nil), code...))
			return
		}
		for v := 0; v < n-i; v++ {
			code[i] = v
			rec_(i + 1)
		}
	}
	rec_(0)
}

// TestC03Table: all N x M in 1..4, every finishing order of the N upstream
// tasks (thorough: also every order of the M downstream tasks), one activation.
func TestC03Table(t *testing.T) {
	var rd descriptor
	if ok, err := rec.ReplayInput(&rd); ok {
		if err != nil {
			t.Fatal(err)
		}
		replay(t, rd)
		return
	}
	total, nt := 0, 0
	classes := map[string]int{}
	var samples []any
	for n := 1; n <= 4; n++ {
		for m := 1; m <= 4; m++ {
			lehmerAll(n, func(up []int) {
				downs := [][]int{make([]int, m)}
				if rec.Tier() == "thorough" {
					downs = nil
					lehmerAll(m, func(dn []int) { downs = append(downs, dn) })
				}
				for _, dn := range downs {
					// every second row: some outgoing flows carry a false condition
					co := 0
					if total%2 == 1 {
						co = 1 + total%((1<<m)-1)
					}
					// (of those, three in four carry text that cannot be evaluated at all)
					d := descriptor{Shape: shape{N: n, M: m, CondOut: co, CondRaw: (total / 2) % 4}, Activations: 1, Schedule: append(append([]int(nil), up...), dn...)}
					out, isNT := run(t, "TestC03Table", d, nil)
					total++
					if isNT {
						nt++
					}
					classes[fmt.Sprintf("N=%d M=%d", n, m)]++
					if len(samples) < 6 && n >= 2 && total%13 == 0 {
						samples = append(samples, map[string]any{"case": d, "steps": out.Steps})
					}
				}
			})
		}
	}
	rec.Count("TestC03Table", total, nt, classes, samples, true)
}

func replay(t *testing.T, rd descriptor) {
	rd.Shape.Loop = rd.Activations > 1
	bt := build(rd.Shape)
	c := &drive.Case{Graph: bt.G, Lang: "expr", Vars: map[string]any{"lp1": false}, Answers: map[string][]model.Answer{}, Schedule: rd.Schedule}
	if rd.Shape.Loop {
		var as []model.Answer
		for i := 0; i < rd.Activations-1; i++ {
			as = append(as, model.Answer{Kind: model.AnsOK, Results: map[string]any{"lp1": true}})
		}
		as = append(as, model.Answer{Kind: model.AnsOK, Results: map[string]any{"lp1": false}})
		c.Answers[bt.LoopTask] = as
	}
	out := drive.RunLockstep(c, nil, &drive.Hooks{BeforeClose: gatewayAccounting(bt, rd.Shape, rd.Activations)})
	if out.Symptom != "" {
		fmt.Printf("REPRODUCED %s: %s\n", out.Symptom, out.Detail)
		t.Fatalf("%s", out.Symptom)
	}
}

// TestC03Reentry: 2..3 consecutive activations of the same gateway (loop),
// rapid-drawn orders per activation.
func TestC03Reentry(t *testing.T) {
	var rd descriptor
	if ok, err := rec.ReplayInput(&rd); ok {
		if err != nil {
			t.Fatal(err)
		}
		replay(t, rd)
		return
	}
	rapid.Check(t, func(rt *rapid.T) {
		d := descriptor{Shape: shape{N: rapid.IntRange(1, 4).Draw(rt, "N"), M: rapid.IntRange(1, 4).Draw(rt, "M"), CondOut: rapid.IntRange(0, 15).Draw(rt, "condOut"), CondRaw: rapid.IntRange(0, 3).Draw(rt, "condRaw")},
			Activations: rapid.IntRange(2, 3).Draw(rt, "activations")}
		pick := func(n int) int {
			v := rapid.IntRange(0, n-1).Draw(rt, "pick")
			d.Schedule = append(d.Schedule, v)
			return v
		}
		out, isNT := run(rt, "TestC03Reentry", d, pick)
		rec.Case("TestC03Reentry", rec.Hash(d), isNT, []string{fmt.Sprintf("N=%d M=%d", d.Shape.N, d.Shape.M), fmt.Sprintf("activations=%d", d.Activations)},
			map[string]any{"case": d, "steps": out.Steps})
	})
}
