package c03

// TestC03Skew: several tokens per incoming flow of ONE parallel gateway, in any
// arrival order - in particular two tokens on the same incoming flow before
// the other incoming flows have delivered anything.
//
//   start -> fork(1 -> sum K[g]) -> tasks -> one exclusive merge per group g
//         -> J (N groups in, M out) -> M tasks -> end events
//
// BPMN / C03: J releases nothing until a token has arrived on EACH incoming
// flow; it then consumes one token per incoming flow and places one token on
// each outgoing flow; tokens without partners stay.

import (
	"fmt"
	"testing"

	"pgregory.net/rapid"

	"verif/harness/drive"
	"verif/harness/gen"
	"verif/harness/model"
	"verif/harness/rec"
)

type skewDesc struct {
	K        []int  `json:"k"` // tokens per incoming flow of the gateway (len = N)
	M        int    `json:"m"`
	Schedule []int  `json:"schedule"`
	Perturb  uint64 `json:"perturb"`
	// InSub: everything between the start and the end events sits inside 1..2
	// nested embedded sub-processes
	InSub int `json:"inSub,omitempty"`
	// ForeignDefs: the instance is created with bpmn.NewProcess(element,
	// definitions) and a definitions value that is not the element's document
	ForeignDefs bool `json:"foreignDefs,omitempty"`
}

func skewHooks(d skewDesc) *drive.Hooks {
	if !d.ForeignDefs {
		return nil
	}
	return &drive.Hooks{NewInst: func(xml string, vars map[string]any) (*drive.Inst, error) {
		return drive.New(xml, drive.Options{Vars: vars, ForeignDefs: true})
	}}
}

func buildSkew(d skewDesc) (*gen.Graph, string) {
	root := gen.NewB()
	b := root
	st := b.Add(gen.KStart)
	for lvl := 0; lvl < d.InSub; lvl++ {
		sp := b.Add(gen.KSub)
		en := b.Add(gen.KEnd)
		b.Connect(st, sp)
		b.Connect(sp, en)
		ib := b.Sub()
		sp.Inner = ib.G
		b = ib
		st = b.Add(gen.KStart)
	}
	fork := b.Add(gen.KPar)
	b.Connect(st, fork)
	j := b.Add(gen.KPar)
	for _, k := range d.K {
		mrg := b.Add(gen.KXor)
		for i := 0; i < k; i++ {
			t := b.Add(gen.KTask)
			b.Connect(fork, t)
			b.Connect(t, mrg)
		}
		b.Connect(mrg, j)
	}
	for i := 0; i < d.M; i++ {
		t := b.Add(gen.KTask)
		b.Connect(j, t)
		en := b.Add(gen.KEnd)
		b.Connect(t, en)
	}
	return root.G, j.ID
}

// skewRank orders the pending requests the way the tasks were declared (one
// incoming flow of the gateway after the other).
func skewRank(g *gen.Graph) map[string]int {
	rank := map[string]int{}
	g.AllNodes(func(n *gen.Node, _ *gen.Graph) {
		if n.Kind == gen.KTask {
			rank[n.ID] = len(rank)
		}
	})
	return rank
}

func TestC03Skew(t *testing.T) {
	var rd skewDesc
	if ok, err := rec.ReplayInput(&rd); ok {
		if err != nil {
			t.Fatal(err)
		}
		if len(rd.K) == 0 {
			return
		}
		g, _ := buildSkew(rd)
		c := &drive.Case{Graph: g, Lang: "expr", Vars: map[string]any{}, Answers: map[string][]model.Answer{}, Schedule: rd.Schedule, Perturb: rd.Perturb, Rank: skewRank(g)}
		out := drive.RunLockstep(c, nil, skewHooks(rd))
		if out.Symptom != "" {
			fmt.Printf("REPRODUCED %s: %s\n", out.Symptom, out.Detail)
			t.Fatalf("%s", out.Symptom)
		}
		return
	}
	rapid.Check(t, func(rt *rapid.T) {
		d := skewDesc{M: rapid.IntRange(1, 3).Draw(rt, "m"), Perturb: uint64(rapid.IntRange(0, 200).Draw(rt, "perturb")), InSub: rapid.SampledFrom([]int{0, 0, 1, 2}).Draw(rt, "inSub"),
			ForeignDefs: rapid.IntRange(0, 3).Draw(rt, "foreignDefs") == 0}
		n := rapid.IntRange(2, 3).Draw(rt, "n")
		equal := rapid.IntRange(0, 3).Draw(rt, "equal") > 0
		// a quarter of the cases queue many tokens (up to 9) per incoming flow
		hi := 3
		if rapid.IntRange(0, 3).Draw(rt, "deep") == 0 {
			hi = 9
		}
		k0 := rapid.IntRange(1, hi).Draw(rt, "k")
		for i := 0; i < n; i++ {
			if equal {
				d.K = append(d.K, k0)
			} else {
				d.K = append(d.K, rapid.IntRange(1, hi).Draw(rt, "ki"))
			}
		}
		// answer order: any, or one incoming flow after the other (all tokens
		// of a flow queue up while the other flows are still empty), from the
		// first or from the last declared flow
		bias := rapid.SampledFrom([]int{0, 0, 1, 2}).Draw(rt, "bias")
		g, _ := buildSkew(d)
		c := &drive.Case{Graph: g, Lang: "expr", Vars: map[string]any{}, Answers: map[string][]model.Answer{}, Perturb: d.Perturb, Rank: skewRank(g)}
		pick := func(n int) int {
			v := 0
			switch bias {
			case 0:
				v = rapid.IntRange(0, n-1).Draw(rt, "pick")
			case 2:
				v = n - 1
			}
			c.Schedule = append(c.Schedule, v)
			return v
		}
		hash := rec.Hash(d)
		rec.Begin("TestC03Skew", hash, d)
		out := drive.RunLockstep(c, pick, skewHooks(d))
		d.Schedule = c.Schedule
		if out.Inconcl != "" {
			rec.End(hash, "inconclusive")
			rec.Inconclusive("TestC03Skew", out.Inconcl)
			rt.Fatalf("inconclusive: %s", out.Inconcl)
		}
		rec.End(hash, out.Symptom)
		mx, mn := 0, 99
		for _, k := range d.K {
			if k > mx {
				mx = k
			}
			if k < mn {
				mn = k
			}
		}
		cls := []string{fmt.Sprintf("N=%d M=%d", n, d.M), fmt.Sprintf("activations=%d", mn)}
		if mx > mn {
			cls = append(cls, "tokensWithoutPartnerStay")
		}
		if d.InSub > 0 {
			cls = append(cls, "insideSubProcess")
		}
		if mx >= 5 {
			cls = append(cls, "queue>=5")
		}
		if bias > 0 {
			cls = append(cls, "flowAfterFlow")
		}
		rec.Case("TestC03Skew", hash, mx >= 2, cls, map[string]any{"case": d, "steps": out.Steps})
		if out.Symptom != "" {
			rt.Fatalf("%s", rec.Fail(rec.Failure{Property: prop, Test: "TestC03Skew", Symptom: out.Symptom, Detail: out.Detail, Descriptor: d,
				History: map[string]any{"steps": out.Steps, "traces": out.Traces, "xml": out.Program.XML()}, Goroutines: out.Gs}))
		}
	})
}
