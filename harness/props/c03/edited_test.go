package c03

// TestC03Edited: a definitions model that is EDITED IN CODE between two
// instances. The document declares a parallel fork / join block with N
// branches of which only the first K are wired (the fork lists K outgoing, the
// join K incoming flows; the other branches' flows and tasks are in the
// document, unreferenced). Instance 1 is created from the parsed model and
// run; then the fork's outgoing and the join's incoming lists are extended in
// place (FlowNode.SetOutgoings / SetIncomings) to N2 branches, and instance 2
// is created from the SAME in-memory model: it must fork into N2 and join N2 -
// the gateway's N and M are those of the model the instance was created from.

import (
	"fmt"
	"testing"

	"github.com/olive-io/bpmn/schema"
	"pgregory.net/rapid"

	"verif/harness/drive"
	"verif/harness/gen"
	"verif/harness/model"
	"verif/harness/quiesce"
	"verif/harness/rec"
)

type editDesc struct {
	N        int   `json:"n"`  // branches declared (2..5)
	K1       int   `json:"k1"` // wired for instance 1 (1..N)
	K2       int   `json:"k2"` // wired for instance 2 (1..N, != K1)
	Sched1   []int `json:"sched1"`
	Sched2   []int `json:"sched2"`
	Shrinked bool  `json:"-"`
}

// buildEdit returns the graph with k of n branches wired, the ids of the two
// gateways, and the flow ids fork->task_i / task_i->join.
func buildEdit(n, k int) (g *gen.Graph, fork, join string, outs, ins []string) {
	b := gen.NewB()
	st := b.Add(gen.KStart)
	f := b.Add(gen.KPar)
	j := b.Add(gen.KPar)
	b.Connect(st, f)
	for i := 0; i < n; i++ {
		t := b.Add(gen.KTask)
		o := b.Connect(f, t)
		in := b.Connect(t, j)
		outs = append(outs, o.ID)
		ins = append(ins, in.ID)
	}
	after := b.Add(gen.KTask)
	en := b.Add(gen.KEnd)
	b.Connect(j, after)
	b.Connect(after, en)
	// unwire the branches k..n-1 at the gateways (the flows and tasks stay declared)
	keep := func(list []string, drop []string) []string {
		var out []string
		for _, x := range list {
			d := false
			for _, y := range drop {
				if x == y {
					d = true
				}
			}
			if !d {
				out = append(out, x)
			}
		}
		return out
	}
	f.Out = keep(f.Out, outs[k:])
	j.In = keep(j.In, ins[k:])
	return b.G, f.ID, j.ID, outs, ins
}

func runEdited(d editDesc) (sym, det, inconcl string) {
	g1, fork, join, outs, ins := buildEdit(d.N, d.K1)
	g2, _, _, _, _ := buildEdit(d.N, d.K2)
	prog := &gen.Program{G: g1, DefaultLang: "expr"}
	defs, err := schema.Parse([]byte(prog.XML()))
	if err != nil {
		return "generator", err.Error(), ""
	}
	hk := &drive.Hooks{NewInst: func(_ string, vars map[string]any) (*drive.Inst, error) {
		return drive.NewFromDefs(defs, quiesce.Begin(), drive.Options{Vars: vars})
	}}
	c1 := &drive.Case{Graph: g1, Lang: "expr", Vars: map[string]any{}, Answers: map[string][]model.Answer{}, Schedule: d.Sched1}
	if out := drive.RunLockstep(c1, nil, hk); out.Inconcl != "" {
		return "", "", out.Inconcl
	} else if out.Symptom != "" {
		return "first-instance:" + out.Symptom, out.Detail, ""
	}
	// edit the model in place
	set := func(id string, in bool, list []string) string {
		el, ok := defs.FindBy(schema.ExactId(id))
		if !ok {
			return "gateway " + id + " not found in the model"
		}
		gw, ok := el.(*schema.ParallelGateway)
		if !ok {
			return fmt.Sprintf("%s is a %T", id, el)
		}
		q := make([]schema.QName, len(list))
		for i, x := range list {
			q[i] = schema.QName(x)
		}
		if in {
			gw.SetIncomings(q)
		} else {
			gw.SetOutgoings(q)
		}
		return ""
	}
	if msg := set(fork, false, outs[:d.K2]); msg != "" {
		return "generator", msg, ""
	}
	if msg := set(join, true, ins[:d.K2]); msg != "" {
		return "generator", msg, ""
	}
	c2 := &drive.Case{Graph: g2, Lang: "expr", Vars: map[string]any{}, Answers: map[string][]model.Answer{}, Schedule: d.Sched2}
	out := drive.RunLockstep(c2, nil, hk)
	if out.Inconcl != "" {
		return "", "", out.Inconcl
	}
	if out.Symptom != "" {
		return "edited-instance:" + out.Symptom, fmt.Sprintf("instance created after the model was edited from %d to %d wired branches (of %d declared): %s", d.K1, d.K2, d.N, out.Detail), ""
	}
	return "", "", ""
}

func TestC03Edited(t *testing.T) {
	var rd editDesc
	if ok, err := rec.ReplayInput(&rd); ok {
		if err != nil {
			t.Fatal(err)
		}
		if rd.N == 0 {
			return
		}
		if s, dd, _ := runEdited(rd); s != "" {
			fmt.Printf("REPRODUCED %s: %s\n", s, dd)
			t.Fatalf("%s", s)
		}
		return
	}
	rapid.Check(t, func(rt *rapid.T) {
		d := editDesc{N: rapid.IntRange(2, 5).Draw(rt, "n")}
		d.K1 = rapid.IntRange(1, d.N).Draw(rt, "k1")
		d.K2 = rapid.IntRange(1, d.N-1).Draw(rt, "k2")
		if d.K2 >= d.K1 {
			d.K2++
		}
		d.Sched1 = rapid.SliceOfN(rapid.IntRange(0, 5), 0, 8).Draw(rt, "sched1")
		d.Sched2 = rapid.SliceOfN(rapid.IntRange(0, 5), 0, 8).Draw(rt, "sched2")
		hash := rec.Hash(d)
		rec.Begin("TestC03Edited", hash, d)
		s, dd, inc := runEdited(d)
		if inc != "" {
			rec.End(hash, "inconclusive")
			rec.Inconclusive("TestC03Edited", inc)
			rt.Fatalf("inconclusive: %s", inc)
		}
		rec.End(hash, s)
		cls := []string{fmt.Sprintf("branchesAdded:%v", d.K2 > d.K1)}
		rec.Case("TestC03Edited", hash, true, cls, d)
		if s != "" {
			rt.Fatalf("%s", rec.Fail(rec.Failure{Property: prop, Test: "TestC03Edited", Symptom: s, Detail: dd, Descriptor: d}))
		}
	})
}
