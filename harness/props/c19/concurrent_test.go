package c19

// TestC19Concurrent: the processes of ONE definitions document are built at
// the same moment, each by a builder of its own in a goroutine of its own (no
// object is shared between them), and then added to one definitions builder.
// The document must be well-formed all the same: ids unique across the
// definitions, flows intact. The builders draw their ids from a common
// generator; it must not hand the same id to two builders that ask at the
// same instant.

import (
	"fmt"
	"sync"
	"testing"

	"github.com/olive-io/bpmn/schema"
	"pgregory.net/rapid"

	"verif/harness/rec"
)

type concDesc struct {
	G      int  `json:"g"`      // builders working at the same time (2..8)
	K      int  `json:"k"`      // activities per process (1..12), ids left to the builder
	Rounds int  `json:"rounds"` // documents built per case
	Layout bool `json:"layout"` // AutoLayout (draws shape / edge ids) before Out
}

func runConcurrent(d concDesc) (sym, det string) {
	for round := 0; round < d.Rounds; round++ {
		procs := make([]*schema.Process, d.G)
		start := make(chan struct{})
		var wg sync.WaitGroup
		for g := 0; g < d.G; g++ {
			wg.Add(1)
			go func(g int) {
				defer wg.Done()
				<-start
				pb := schema.NewProcessBuilder()
				for i := 0; i < d.K; i++ {
					t := schema.DefaultTask()
					pb.AddActivity(&t)
				}
				procs[g] = pb.Out()
			}(g)
		}
		close(start)
		wg.Wait()
		db := schema.NewDefinitionsBuilder()
		for _, p := range procs {
			db.AddProcess(*p)
		}
		if d.Layout {
			db.AutoLayout(schema.DefaultAutoLayoutConfig())
		}
		defs := db.Out()
		if s, dd := structure(defs); s != "" {
			return s, fmt.Sprintf("document %d of the case (%d processes built at the same time, %d activities each): %s", round, d.G, d.K, dd)
		}
	}
	return "", ""
}

func TestC19Concurrent(t *testing.T) {
	var rd concDesc
	if ok, err := rec.ReplayInput(&rd); ok {
		if err != nil {
			t.Fatal(err)
		}
		if rd.G == 0 {
			return
		}
		rd.Rounds *= 20 // schedule dependent: give the replay more tries than the case had
		if s, dd := runConcurrent(rd); s != "" {
			fmt.Printf("REPRODUCED %s: %s\n", s, dd)
			t.Fatalf("%s", s)
		}
		return
	}
	rapid.Check(t, func(rt *rapid.T) {
		d := concDesc{G: rapid.IntRange(2, 8).Draw(rt, "g"), K: rapid.IntRange(1, 12).Draw(rt, "k"), Rounds: 40, Layout: rapid.Bool().Draw(rt, "layout")}
		hash := rec.Hash(d) + fmt.Sprint(rapid.IntRange(0, 1<<30).Draw(rt, "round"))
		rec.Begin("TestC19Concurrent", hash, d)
		s, dd := runConcurrent(d)
		rec.End(hash, s)
		rec.Case("TestC19Concurrent", hash, d.G >= 4, []string{fmt.Sprintf("builders>=4:%v", d.G >= 4)}, d)
		if s != "" {
			rt.Fatalf("%s", rec.Fail(rec.Failure{Property: prop, Test: "TestC19Concurrent", Symptom: s, Detail: dd, Descriptor: d}))
		}
	})
}
