package c19

// TestC19LayoutBranching: AutoLayout over processes with real branching - the
// definitions builder also takes processes that were not built by the process
// builder (DefinitionBuilder.AddProcess): generated block-structured programs
// (forks, joins, loops with flows running backwards, early ends, sub-processes)
// are parsed, added to a definitions builder and laid out. The geometric part
// of the C19 oracle applies unchanged: one shape per flow node, one edge per
// sequence flow, finite coordinates, every edge starting on its source shape
// and ending on its target shape, no overlap when the gaps are at least the
// node sizes.

import (
	"encoding/xml"
	"fmt"
	"testing"
	"time"

	"github.com/olive-io/bpmn/schema"
	"pgregory.net/rapid"

	"verif/harness/gen"
	"verif/harness/rec"
)

const layoutCeiling = 20 * time.Second

type branchDesc struct {
	// SelfLoops: number of tasks that get a sequence flow back to themselves
	// (sourceRef == targetRef: legal, e.g. a retry flow)
	SelfLoops int          `json:"selfLoops,omitempty"`
	// Boundaries: number of tasks that carry a boundary event (signal,
	// non-interrupting) with an exception path (task -> end event)
	Boundaries int `json:"boundaries,omitempty"`
	Progs     []*gen.Block `json:"progs"`
	DeclSeed  int          `json:"declSeed"`
	Layout    layoutSpec   `json:"layout"`
}

func checkBranch(d branchDesc) (sym, det, x string) {
	db := schema.NewDefinitionsBuilder()
	for i, blk := range d.Progs {
		g := gen.Lower(blk).G
		if d.SelfLoops > 0 {
			left := d.SelfLoops
			for _, n := range g.Nodes {
				if n.Kind == gen.KTask && left > 0 {
					left--
					f := &gen.Flow{ID: fmt.Sprintf("selfloop_%s", n.ID), Src: n.ID, Dst: n.ID}
					g.Flows = append(g.Flows, f)
					n.Out = append(n.Out, f.ID)
					n.In = append(n.In, f.ID)
				}
			}
		}
		if d.Boundaries > 0 {
			left := d.Boundaries
			for _, n := range append([]*gen.Node(nil), g.Nodes...) {
				if n.Kind != gen.KTask || left == 0 {
					continue
				}
				left--
				be := &gen.Node{ID: "bnd_" + n.ID, Kind: gen.KBoundary, AttachedTo: n.ID, Defs: []gen.EventDef{{Kind: "signal", Ref: "bs"}}}
				xt := &gen.Node{ID: "bndt_" + n.ID, Kind: gen.KTask, TaskKind: "task"}
				xe := &gen.Node{ID: "bnde_" + n.ID, Kind: gen.KEnd}
				f1 := &gen.Flow{ID: "bndf1_" + n.ID, Src: be.ID, Dst: xt.ID}
				f2 := &gen.Flow{ID: "bndf2_" + n.ID, Src: xt.ID, Dst: xe.ID}
				be.Out = []string{f1.ID}
				xt.In, xt.Out = []string{f1.ID}, []string{f2.ID}
				xe.In = []string{f2.ID}
				g.Nodes = append(g.Nodes, be, xt, xe)
				g.Flows = append(g.Flows, f1, f2)
			}
		}
		prog := &gen.Program{G: g, DefaultLang: "expr", DeclSeed: d.DeclSeed}
		src := prog.XML()
		defs, err := schema.Parse([]byte(src))
		if err != nil {
			return "construct", err.Error(), src
		}
		p := (*defs.Processes())[0]
		// ids must be unique over the definitions: prefix per process
		pid := schema.Id(fmt.Sprintf("Proc_%d", i+1))
		p.SetId(&pid)
		db.AddProcess(p)
	}
	cfg := schema.DefaultAutoLayoutConfig()
	if !d.Layout.Default {
		cfg = &schema.AutoLayoutConfig{StartX: d.Layout.StartX, StartY: d.Layout.StartY, ColumnGap: d.Layout.ColumnGap, RowGap: d.Layout.RowGap, ProcessGap: d.Layout.ProcessGap}
	}
	// AutoLayout is a pure computation over a few dozen nodes (microseconds).
	// A layout that has not returned after layoutCeiling has exceeded its normal
	// running time a million-fold: it is reported as "never emits the shapes",
	// the only verdict a test can give on non-termination.
	laid := make(chan struct{})
	go func() { db.AutoLayout(cfg); close(laid) }()
	select {
	case <-laid:
	case <-time.After(layoutCeiling):
		return "layout-hang", fmt.Sprintf("AutoLayout has not returned after %v (program with %d self-loop flows)", layoutCeiling, d.SelfLoops), ""
	}
	defs := db.Out()
	b, _ := xml.Marshal(defs)
	ld := descriptor{Layout: d.Layout}
	ld.Layout.Use = true
	ld.Procs = make([]procSpec, len(d.Progs))
	s, dd := layout(defs, ld)
	return s, dd, string(b)
}

func TestC19LayoutBranching(t *testing.T) {
	var rd branchDesc
	if ok, err := rec.ReplayInput(&rd); ok {
		if err != nil {
			t.Fatal(err)
		}
		if len(rd.Progs) == 0 {
			return
		}
		if sym, det, _ := checkBranch(rd); sym != "" {
			fmt.Printf("REPRODUCED %s: %s\n", sym, det)
			t.Fatalf("%s", sym)
		}
		return
	}
	rapid.Check(t, func(rt *rapid.T) {
		var d branchDesc
		d.Progs = append(d.Progs, gen.GenProgram(rt, gen.GenOpts{MaxDepth: 3, MaxNodes: 14}))
		d.DeclSeed = rapid.IntRange(0, 50).Draw(rt, "declSeed")
		d.SelfLoops = rapid.SampledFrom([]int{0, 0, 1, 2}).Draw(rt, "selfLoops")
		d.Boundaries = rapid.SampledFrom([]int{0, 0, 1, 2}).Draw(rt, "boundaries")
		grid := []float64{36, 100, 120, 180, 1e6}
		origins := []float64{-1e6, 0, 96, 1e6}
		d.Layout.Default = rapid.IntRange(0, 2).Draw(rt, "defaultLayout") == 0
		d.Layout.StartX, d.Layout.StartY = rapid.SampledFrom(origins).Draw(rt, "startX"), rapid.SampledFrom(origins).Draw(rt, "startY")
		d.Layout.ColumnGap, d.Layout.RowGap, d.Layout.ProcessGap = rapid.SampledFrom(grid).Draw(rt, "colGap"), rapid.SampledFrom(grid).Draw(rt, "rowGap"), rapid.SampledFrom(grid).Draw(rt, "procGap")
		hash := rec.Hash(d)
		rec.Begin("TestC19LayoutBranching", hash, d)
		sym, det, x := checkBranch(d)
		rec.End(hash, sym)
		f := d.Progs[0].Features()
		cls := []string{}
		gws := f.Xor + f.Par + f.Inc + f.CTask + f.MMerge
		if f.Loop > 0 {
			cls = append(cls, "backwardFlow")
		}
		if gws > 0 {
			cls = append(cls, "branching")
		}
		if f.Sub > 0 {
			cls = append(cls, "subProcess")
		}
		if d.SelfLoops > 0 {
			cls = append(cls, "selfLoopFlow")
		}
		rec.Case("TestC19LayoutBranching", hash, gws+f.Loop > 0, cls, d)
		if sym != "" {
			rt.Fatalf("%s", rec.Fail(rec.Failure{Property: prop, Test: "TestC19LayoutBranching", Symptom: sym, Detail: det, Descriptor: d, History: map[string]any{"xml": x}}))
		}
	})
}
