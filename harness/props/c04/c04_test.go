package c04

import (
	"context"
	"fmt"
	"os"
	"sort"
	"sync"
	"testing"
	"time"

	"github.com/olive-io/bpmn/schema"
	bpmn "github.com/olive-io/bpmn/v2"
	"github.com/olive-io/bpmn/v2/pkg/data"
	"pgregory.net/rapid"

	"verif/harness/drive"
	"verif/harness/gen"
	"verif/harness/quiesce"
	"verif/harness/rec"
)

const prop = "C04"

// descriptor of one exclusive-gateway case.
type descriptor struct {
	NC       int      `json:"nc"`       // conditional flows
	DefPos   int      `json:"defPos"`   // position of the default flow in the outgoing listing, -1 = no default
	Truth    []bool   `json:"truth"`    // value of condition i
	Tokens   int      `json:"tokens"`   // tokens arriving concurrently
	Lang     string   `json:"lang"`     // expr | xpath
	Kind     []string `json:"kind"`     // per condition: "var" | "cmp" | "compound" | "informal" | "dataobject" | "body" | ...
	DeclSeed int      `json:"declSeed"` // declaration order permutation
	Burst    bool     `json:"burst"`    // answer the upstream tasks concurrently
	Funnel   bool     `json:"funnel"`   // the tokens first merge in another exclusive gateway and reach the gateway under test over ONE incoming flow
	// DefCond puts a condition on the DEFAULT flow itself ("false" | "true"):
	// legal XML, and the routing rule ignores it - the default flow is taken
	// whenever no other condition holds
	DefCond string `json:"defCond,omitempty"`
	// FlowLang: per condition an explicit language attribute ("" = the
	// definitions default, "expr", "xpath"): one token evaluates conditions
	// written in different expression languages at the same gateway
	FlowLang []string `json:"flowLang,omitempty"`
	// InSub (one token only): the gateway and its branches sit inside an
	// embedded sub-process; the upstream task - whose answer may store what
	// the conditions read - sits outside, in front of it
	InSub bool `json:"inSub,omitempty"`
}

type built struct {
	Prog    *gen.Program
	G       string
	Up      []string
	Branch  []string // branch task per listing position
	DefTask string
	Vars    map[string]any
	Objects map[string]any
	// Expect is the branch task the model routes to ("" = none, error expected)
	Expect string
	// Uneval: some condition cannot be evaluated (error traces about it are expected)
	Uneval bool
	// Results: values every upstream task stores with its answer (declared
	// results) - conditions of kind "result" read them
	Results map[string]any
}

func answerUp(tt bpmn.TaskTrace, bt *built) {
	if len(bt.Results) > 0 {
		tt.Do(bpmn.DoWithResults(bt.Results))
		return
	}
	tt.Do()
}

func build(d descriptor) *built {
	b := gen.NewB()
	bt := &built{Vars: map[string]any{}, Objects: map[string]any{}}
	st := b.Add(gen.KStart)
	root := b
	var sub *gen.Node
	if d.InSub && d.Tokens == 1 {
		sub = b.Add(gen.KSub)
		ib := b.Sub()
		sub.Inner = ib.G
		b = ib
	}
	g := b.Add(gen.KXor)
	bt.G = g.ID
	if d.Tokens == 1 {
		up := root.Add(gen.KTask)
		bt.Up = append(bt.Up, up.ID)
		root.Connect(st, up)
		if sub != nil {
			root.Connect(up, sub)
			oe := root.Add(gen.KEnd)
			root.Connect(sub, oe)
			is := b.Add(gen.KStart)
			b.Connect(is, g)
		} else {
			b.Connect(up, g)
		}
	} else {
		fork := b.Add(gen.KPar)
		b.Connect(st, fork)
		into := g
		if d.Funnel {
			into = b.Add(gen.KXor)
			b.Connect(into, g)
		}
		for i := 0; i < d.Tokens; i++ {
			up := b.Add(gen.KTask)
			bt.Up = append(bt.Up, up.ID)
			b.Connect(fork, up)
			b.Connect(up, into)
		}
	}
	total := d.NC
	if d.DefPos >= 0 {
		total++
	}
	ci := 0
	firstTrue := ""
	for pos := 0; pos < total; pos++ {
		task := b.Add(gen.KTask)
		en := b.Add(gen.KEnd)
		f := b.Connect(g, task)
		b.Connect(task, en)
		bt.Branch = append(bt.Branch, task.ID)
		if pos == d.DefPos {
			g.Default = f.ID
			bt.DefTask = task.ID
			switch d.DefCond {
			case "false":
				f.Formal, f.Cond = true, gen.False()
			case "true":
				f.Formal, f.Cond = true, gen.True()
			}
			continue
		}
		truth := d.Truth[ci]
		kind := "var"
		if ci < len(d.Kind) {
			kind = d.Kind[ci]
		}
		f.Formal = true
		f.Lang = ""
		if ci < len(d.FlowLang) && kind != "dataobject" && kind != "body" && kind != "unevaluable" {
			f.Lang = d.FlowLang[ci]
		}
		switch kind {
		case "var":
			v := fmt.Sprintf("c%d", ci)
			bt.Vars[v] = truth
			f.Cond = gen.BoolVar(v)
		case "cmp":
			v := fmt.Sprintf("k%d", ci)
			bt.Vars[v] = int64(2)
			if truth {
				f.Cond = &gen.Cond{Op: "gt", Var: v, K: 1}
			} else {
				f.Cond = &gen.Cond{Op: "lt", Var: v, K: 1}
			}
		case "result":
			// a float the upstream task's answer stores, tiny but not zero: the
			// condition "> 0" holds for the value as stored, not for a rounded one
			v := fmt.Sprintf("r%d", ci)
			bt.Vars[v] = float64(1)
			if bt.Results == nil {
				bt.Results = map[string]any{}
			}
			if truth {
				bt.Results[v] = []float64{4e-07, 3e-09, 0.0000001234}[ci%3]
			} else {
				bt.Results[v] = []float64{-4e-07, -3e-09, -0.0000001234}[ci%3]
			}
			f.Cond = &gen.Cond{Op: "gt", Var: v, K: 0}
		case "compound":
			v := fmt.Sprintf("c%d", ci)
			w := fmt.Sprintf("k%d", ci)
			bt.Vars[v] = truth
			bt.Vars[w] = int64(3)
			f.Cond = &gen.Cond{Op: "and", L: gen.BoolVar(v), R: &gen.Cond{Op: "or", L: &gen.Cond{Op: "eq", Var: w, K: 3}, R: gen.False()}}
		case "unevaluable":
			// a formal condition that cannot be evaluated to a boolean (unknown
			// variable, non-boolean result, foreign syntax) is not true: the
			// flows listed after it are still considered
			f.Cond = gen.Raw([]string{"undefinedVariable9 > 1", "1 + 1", "${x}"}[ci%3])
			truth = false
			bt.Uneval = true
		case "informal":
			// an informal expression cannot be evaluated: it counts as true
			f.Cond = gen.Lit(truth)
			f.Formal = false
			truth = true
		case "body":
			// a data object declared in the document with a JSON body of its own;
			// the condition reads a key that only the bodies of objects whose
			// condition is meant to hold define (and a decoy nobody reads)
			name := fmt.Sprintf("bo%d", ci)
			if root.G.DataObjectBodies == nil {
				root.G.DataObjectBodies = map[string]string{"bo_a_decoy": `{"flag": true, "n": 7}`, "bo_z_decoy": `{"flag": true}`}
			}
			if truth {
				root.G.DataObjectBodies[name] = fmt.Sprintf(`{"flag": true, "own%d": %d}`, ci, ci)
			} else {
				root.G.DataObjectBodies[name] = fmt.Sprintf(`{"own%d": %d}`, ci, ci)
			}
			f.Cond = gen.Lit(truth)
			f.Lang = "expr"
			f.Raw = fmt.Sprintf(`getDataObject("%s").flag == true`, name)
		case "dataobject":
			name := fmt.Sprintf("do%d", ci)
			bt.Objects[name] = truth
			root.G.DataObjects = append(root.G.DataObjects, name)
			f.Cond = gen.Lit(truth)
			if d.Lang == "xpath" {
				f.Raw = fmt.Sprintf("getDataObject('%s')", name)
			} else {
				f.Raw = fmt.Sprintf(`getDataObject("%s") == true`, name)
			}
		}
		if truth && firstTrue == "" {
			firstTrue = task.ID
		}
		ci++
	}
	bt.Expect = firstTrue
	if bt.Expect == "" {
		bt.Expect = bt.DefTask
	}
	if len(bt.Results) > 0 {
		names := make([]string, 0, len(bt.Results))
		for k := range bt.Results {
			names = append(names, k)
		}
		sort.Strings(names)
		for _, id := range bt.Up {
			root.G.Node(id).Results = names
		}
	}
	bt.Prog = &gen.Program{G: root.G, DefaultLang: d.Lang, DeclSeed: d.DeclSeed}
	return bt
}

type result struct {
	Symptom, Detail string
	Steps           []drive.Step
	Traces          []string
	Gs              string
	Inconcl         string
	XML             string
}

func ids(tts []bpmn.TaskTrace) []string {
	var out []string
	for _, tt := range tts {
		if id, ok := tt.GetActivity().Element().Id(); ok {
			out = append(out, *id)
		}
	}
	sort.Strings(out)
	return out
}

func eq(a, b []string) bool {
	if len(a) != len(b) {
		return false
	}
	for i := range a {
		if a[i] != b[i] {
			return false
		}
	}
	return true
}

func runCase(d descriptor) *result {
	bt := build(d)
	r := &result{XML: bt.Prog.XML()}
	in, err := drive.New(r.XML, drive.Options{Vars: bt.Vars})
	if err != nil {
		r.Symptom, r.Detail = "construct", err.Error()
		return r
	}
	defer in.Close()
	// data objects are declared in the process and given their value the way
	// the repository's own fixture does it (locator, by name)
	for name, v := range bt.Objects {
		loc, ok := in.P.Locator().FindIItemAwareLocator(data.LocatorObject)
		if !ok {
			r.Symptom, r.Detail = "construct", "no data object locator"
			return r
		}
		aware, found := loc.FindItemAwareByName(name)
		if !found {
			r.Symptom, r.Detail = "construct", "declared data object "+name+" not found by name"
			return r
		}
		aware.Put(schema.NewValue(v))
	}
	fail := func(sym, det string) *result {
		r.Symptom, r.Detail = sym, det
		r.Traces = drive.DescribeAll(in.Traces())
		r.Gs = ""
		return r
	}
	if err := in.StartAll(); err != nil {
		return fail("start-error", err.Error())
	}
	if _, err := in.Quiesce(); err != nil {
		r.Inconcl = err.Error()
		return r
	}
	ups := in.NewTasks()
	want := append([]string(nil), bt.Up...)
	sort.Strings(want)
	r.Steps = append(r.Steps, drive.Step{Stimulus: "start", Expected: want, Got: ids(ups)})
	if !eq(ids(ups), want) {
		if os.Getenv("VERIF_DEBUG") != "" {
			snap := quiesce.Dump(in.Tr.Mine())
			all := quiesce.Dump(quiesce.All())
			time.Sleep(100 * time.Millisecond)
			later := in.NewTasks()
			fmt.Printf("DEBUG later tasks %v\nMINE:\n%s\nALL:\n%s\n", ids(later), snap, all)
		}
		return fail("upstream", fmt.Sprintf("upstream requests %v want %v", ids(ups), want))
	}
	// arrival of the tokens
	if d.Burst {
		var wg sync.WaitGroup
		for _, tt := range ups {
			wg.Add(1)
			go func(tt bpmn.TaskTrace) { defer wg.Done(); answerUp(tt, bt) }(tt)
		}
		wg.Wait()
		if _, err := in.Quiesce(); err != nil {
			r.Inconcl = err.Error()
			return r
		}
	} else {
		for _, tt := range ups {
			answerUp(tt, bt)
			if _, err := in.Quiesce(); err != nil {
				r.Inconcl = err.Error()
				return r
			}
		}
	}
	got := in.NewTasks()
	var exp []string
	if bt.Expect != "" {
		for i := 0; i < d.Tokens; i++ {
			exp = append(exp, bt.Expect)
		}
	}
	r.Steps = append(r.Steps, drive.Step{Stimulus: "answer upstream", Expected: exp, Got: ids(got)})
	if !eq(ids(got), exp) {
		if os.Getenv("VERIF_DEBUG") != "" {
			snap := quiesce.Dump(in.Tr.Mine())
			all := quiesce.Dump(quiesce.All())
			time.Sleep(100 * time.Millisecond)
			later := in.NewTasks()
			fmt.Printf("DEBUG later tasks %v\nMINE:\n%s\nALL:\n%s\n", ids(later), snap, all)
		}
		return fail("routing", fmt.Sprintf("after %d token(s) arrived: downstream requests %v, want %v", d.Tokens, ids(got), exp))
	}
	for _, tt := range got {
		tt.Do()
	}
	gs, err := in.Quiesce()
	if err != nil {
		r.Inconcl = err.Error()
		return r
	}
	_ = gs
	if more := in.NewTasks(); len(more) > 0 {
		return fail("routing", fmt.Sprintf("unexpected further requests %v", ids(more)))
	}
	// trace-level checks
	flowsFromG, errsG, otherErr := 0, 0, []string{}
	for _, t := range in.Traces() {
		switch tr := t.(type) {
		case bpmn.FlowTrace:
			if id, ok := tr.Source.Id(); ok && *id == bt.G {
				flowsFromG += len(tr.Flows)
			}
		case bpmn.ErrorTrace:
			c := drive.ClassifyError(tr.Error)
			if c == "xor:"+bt.G {
				errsG++
			} else {
				otherErr = append(otherErr, c)
			}
		}
	}
	if len(otherErr) > 0 && !bt.Uneval {
		return fail("unexpected-error", fmt.Sprintf("%v", otherErr))
	}
	if bt.Expect != "" {
		if flowsFromG != d.Tokens || errsG != 0 {
			return fail("flow-count", fmt.Sprintf("gateway took %d flows for %d tokens, %d error traces", flowsFromG, d.Tokens, errsG))
		}
	} else {
		if flowsFromG != 0 || errsG != d.Tokens {
			return fail("no-flow-error", fmt.Sprintf("no condition true and no default: gateway took %d flows, %d ExclusiveNoEffectiveSequenceFlows traces for %d tokens", flowsFromG, errsG, d.Tokens))
		}
	}
	// completion: iff a route existed
	wctx, cancel := context.WithCancel(context.Background())
	res := make(chan bool, 1)
	go func() { res <- in.P.WaitUntilComplete(wctx) }()
	if _, err := in.Quiesce(); err != nil {
		cancel()
		r.Inconcl = err.Error()
		return r
	}
	returned, val := false, false
	select {
	case val = <-res:
		returned = true
	default:
	}
	cancel()
	if bt.Expect != "" && !(returned && val) {
		return fail("not-complete", "all tokens routed and answered but the instance does not complete")
	}
	if bt.Expect == "" && returned && val {
		return fail("complete-early", "tokens parked at the gateway but the instance reports completion")
	}
	return r
}

func nontrivial(d descriptor) bool {
	trueCount := 0
	for i, t := range d.Truth {
		if t || (i < len(d.Kind) && d.Kind[i] == "informal") {
			trueCount++
		}
	}
	total := d.NC
	if d.DefPos >= 0 {
		total++
	}
	return trueCount >= 2 || (d.DefPos >= 0 && d.DefPos != total-1) || d.Tokens >= 2
}

func check(t interface{ Fatalf(string, ...any) }, test string, d descriptor) *result {
	hash := rec.Hash(d)
	rec.Begin(test, hash, d)
	r := runCase(d)
	if r.Inconcl != "" {
		rec.End(hash, "inconclusive")
		rec.Inconclusive(test, r.Inconcl)
		t.Fatalf("inconclusive: %s", r.Inconcl)
	}
	rec.End(hash, r.Symptom)
	if r.Symptom != "" {
		msg := rec.Fail(rec.Failure{Property: prop, Test: test, Symptom: r.Symptom, Detail: r.Detail, Descriptor: d,
			History: map[string]any{"steps": r.Steps, "traces": r.Traces, "xml": r.XML}})
		t.Fatalf("%s", msg)
	}
	return r
}

// TestC04Table: 1..4 conditions x default absent/at every listing position x all
// truth assignments x 1..3 tokens x both languages; conditions are variables.
func TestC04Table(t *testing.T) {
	var rd descriptor
	if ok, err := rec.ReplayInput(&rd); ok {
		if err != nil {
			t.Fatal(err)
		}
		r := runCase(rd)
		if r.Symptom != "" {
			fmt.Printf("REPRODUCED %s: %s\n", r.Symptom, r.Detail)
			t.Fatalf("%s", r.Symptom)
		}
		return
	}
	total, nt := 0, 0
	classes := map[string]int{}
	var samples []any
	for nc := 1; nc <= 4; nc++ {
		for defPos := -1; defPos <= nc; defPos++ {
			for mask := 0; mask < 1<<nc; mask++ {
				truth := make([]bool, nc)
				for i := range truth {
					truth[i] = mask&(1<<i) != 0
				}
				for tokens := 1; tokens <= 3; tokens++ {
					for _, lang := range []string{"expr", "xpath"} {
						for _, funnel := range []bool{false, true} {
							if funnel && tokens == 1 {
								continue
							}
							for _, defCond := range []string{"", "false", "true"} {
								if defCond != "" && (defPos < 0 || tokens > 1) {
									continue
								}
								d := descriptor{NC: nc, DefPos: defPos, Truth: truth, Tokens: tokens, Lang: lang, Burst: tokens > 1, Funnel: funnel, DefCond: defCond}
								r := check(t, "TestC04Table", d)
								total++
								if defCond != "" {
									classes["default-flow-with-condition"]++
								}
								if nontrivial(d) {
									nt++
									if len(samples) < 6 && total%97 == 0 {
										samples = append(samples, map[string]any{"case": d, "steps": r.Steps})
									}
								}
								classes[fmt.Sprintf("nc=%d", nc)]++
								classes["lang="+lang]++
								classes[fmt.Sprintf("tokens=%d", tokens)]++
								if defPos < 0 && mask == 0 {
									classes["no-route"]++
								}
								if funnel {
									classes["funnel"]++
								}
							}
						}
					}
				}
			}
		}
	}
	rec.Count("TestC04Table", total, nt, classes, samples, true)
}

// TestC04Random: compound / comparison / informal / data-object conditions,
// permuted declaration order, sequential or concurrent arrival.
func TestC04Random(t *testing.T) {
	var rd descriptor
	if ok, err := rec.ReplayInput(&rd); ok {
		if err != nil {
			t.Fatal(err)
		}
		r := runCase(rd)
		if r.Symptom != "" {
			fmt.Printf("REPRODUCED %s: %s\n", r.Symptom, r.Detail)
			t.Fatalf("%s", r.Symptom)
		}
		return
	}
	rapid.Check(t, func(rt *rapid.T) {
		nc := rapid.IntRange(1, 4).Draw(rt, "nc")
		d := descriptor{NC: nc, DefPos: rapid.IntRange(-1, nc).Draw(rt, "defPos"), Tokens: rapid.IntRange(1, 3).Draw(rt, "tokens"),
			Lang: rapid.SampledFrom([]string{"expr", "xpath"}).Draw(rt, "lang"), DeclSeed: rapid.IntRange(0, 500).Draw(rt, "declSeed"),
			Burst: rapid.Bool().Draw(rt, "burst"), Funnel: rapid.Bool().Draw(rt, "funnel")}
		d.InSub = d.Tokens == 1 && rapid.IntRange(0, 2).Draw(rt, "inSub") == 0
		if d.DefPos >= 0 {
			d.DefCond = rapid.SampledFrom([]string{"", "", "false", "true"}).Draw(rt, "defCond")
		}
		kinds := []string{"var", "cmp", "compound", "informal", "var", "cmp", "unevaluable", "result"}
		if d.Lang == "expr" {
			// (the repository's own XPath getDataObject test is skipped as "doesn't quite work yet")
			kinds = append(kinds, "dataobject")
		}
		kinds = append(kinds, "body")
		mixed := rapid.IntRange(0, 2).Draw(rt, "mixedLanguages") == 0
		for i := 0; i < nc; i++ {
			d.Truth = append(d.Truth, rapid.Bool().Draw(rt, "truth"))
			d.Kind = append(d.Kind, rapid.SampledFrom(kinds).Draw(rt, "kind"))
			if mixed {
				d.FlowLang = append(d.FlowLang, rapid.SampledFrom([]string{"", "expr", "xpath"}).Draw(rt, "flowLang"))
			}
		}
		r := check(rt, "TestC04Random", d)
		cls := []string{"lang=" + d.Lang, fmt.Sprintf("tokens=%d", d.Tokens)}
		langs := map[string]bool{}
		for i := range d.Kind {
			l := d.Lang
			if i < len(d.FlowLang) && d.FlowLang[i] != "" {
				l = d.FlowLang[i]
			}
			langs[l] = true
		}
		if len(langs) >= 2 {
			cls = append(cls, "twoLanguagesAtOneGateway")
		}
		for _, k := range d.Kind {
			cls = append(cls, "kind="+k)
		}
		rec.Case("TestC04Random", rec.Hash(d), nontrivial(d), cls, map[string]any{"case": d, "steps": r.Steps})
	})
}
