package c18

import (
	"context"
	"fmt"
	"sort"
	"strings"
	"sync"
	"testing"
	"time"

	"github.com/olive-io/bpmn/schema"
	bpmn "github.com/olive-io/bpmn/v2"
	"github.com/olive-io/bpmn/v2/pkg/tracing"
	"pgregory.net/rapid"

	"verif/harness/gen"
	"verif/harness/model"
	"verif/harness/perturb"
	"verif/harness/quiesce"
	"verif/harness/rec"
)

const prop = "C18"

type procSpec struct {
	Kind   string     `json:"kind"`   // plain | thrower | catcher | waiting | prog (a generated C01-style program)
	Pre    int        `json:"pre"`    // tasks before the throw/catch (or total tasks for plain/waiting)
	Post   int        `json:"post"`   // tasks after
	Target int        `json:"target"` // thrower: index of the target process (catcher or waiting), -1 none
	Prog   *gen.Block `json:"prog,omitempty"`
	// catcher: the catch event carries ExtraDefs more definitions (signals and
	// messages) besides its message; with ParMulti it is a parallel-multiple
	// catch event, which continues only when every definition has been matched.
	// A message flow wakes the referenced catch event - whatever it listens for.
	ExtraDefs int  `json:"extraDefs,omitempty"`
	ParMulti  bool `json:"parMulti,omitempty"`
	// catcher: the catch event's message definitions name an operation
	// (operationRef child element) besides the message
	OpRef bool `json:"opRef,omitempty"`
	// fanThrower: after its Pre tasks a parallel fork passes one throw event per
	// entry of Fan at the same moment (each with a message flow to that process)
	Fan []int `json:"fan,omitempty"`
	// waiting: the instantiated process passes a throw event (no message flow)
	// right behind its start event
	ThrowFirst bool `json:"throwFirst,omitempty"`
}

type action struct {
	Kind string `json:"kind"` // answer | wait | waitMany | waitExpire | rewait
	Arg  int    `json:"arg"`
}

type descriptor struct {
	Procs   []procSpec     `json:"procs"`
	Vars    map[string]any `json:"vars,omitempty"` // initial variables of every process (conditions of prog processes read them)
	Actions []action       `json:"actions"`
	Perturb uint64         `json:"perturb"`
	// CallerTracer: the caller passes its own tracer (bpmn.WithTracer) to
	// NewProcessSet and observes the set through it
	CallerTracer bool `json:"callerTracer,omitempty"`
	// SlowStart: every StartWith call is held up for 20 ms right after it
	// triggered its start event (instead of the drawn perturbation): the tokens
	// of a process that the set instantiates run ahead of the set's loop
	SlowStart bool `json:"slowStart,omitempty"`
}

type builtProc struct {
	spec  procSpec
	g     *gen.Graph
	id    string
	throw string // throw node id
	// throws: throw node id -> target process (fanThrower)
	throws map[string]int
	hook   string // catch node id or message start id (target of a message flow)
	start  string
}

type built struct {
	procs []*builtProc
	xml   string
	// message flows: throw node id -> target proc index
	flows map[string]int
}

func build(d descriptor) *built {
	b0 := gen.NewB()
	bt := &built{flows: map[string]int{}}
	for i, ps := range d.Procs {
		b := b0.Sub()
		bp := &builtProc{spec: ps, g: b.G, id: fmt.Sprintf("Proc_%d", i)}
		if ps.Kind == "prog" {
			gen.LowerWith(b, ps.Prog)
			bt.procs = append(bt.procs, bp)
			continue
		}
		st := b.Add(gen.KStart)
		bp.start = st.ID
		cur := st
		addTasks := func(n int) {
			for k := 0; k < n; k++ {
				t := b.Add(gen.KTask)
				b.Connect(cur, t)
				cur = t
			}
		}
		switch ps.Kind {
		case "plain":
			addTasks(ps.Pre)
		case "waiting":
			st.Defs = []gen.EventDef{{Kind: "message", Ref: fmt.Sprintf("msg_%d", i)}}
			bp.hook = st.ID
			if ps.ThrowFirst {
				th := b.Add(gen.KThrow)
				b.Connect(cur, th)
				cur = th
			}
			addTasks(ps.Pre)
		case "fanThrower", "waitingFan":
			if ps.Kind == "waitingFan" {
				// instantiated by a message flow; passes its throw events at once
				st.Defs = []gen.EventDef{{Kind: "message", Ref: fmt.Sprintf("msg_%d", i)}}
				bp.hook = st.ID
			}
			addTasks(ps.Pre)
			fork := b.Add(gen.KPar)
			b.Connect(cur, fork)
			bp.throws = map[string]int{}
			for _, tgt := range ps.Fan {
				th := b.Add(gen.KThrow)
				th.Defs = []gen.EventDef{{Kind: "message", Ref: fmt.Sprintf("msg_%d", tgt)}}
				b.Connect(fork, th)
				en := b.Add(gen.KEnd)
				b.Connect(th, en)
				bp.throws[th.ID] = tgt
			}
			bt.procs = append(bt.procs, bp)
			continue
		case "thrower":
			addTasks(ps.Pre)
			th := b.Add(gen.KThrow)
			if ps.Target >= 0 {
				th.Defs = []gen.EventDef{{Kind: "message", Ref: fmt.Sprintf("msg_%d", ps.Target)}}
			}
			b.Connect(cur, th)
			cur = th
			bp.throw = th.ID
			addTasks(ps.Post)
		case "catcher":
			addTasks(ps.Pre)
			c := b.Add(gen.KCatch)
			op := ""
			if ps.OpRef {
				op = fmt.Sprintf("op_%d", i)
			}
			c.Defs = []gen.EventDef{{Kind: "message", Ref: fmt.Sprintf("msg_%d", i), Op: op}}
			for k := 0; k < ps.ExtraDefs; k++ {
				if k%2 == 0 {
					c.Defs = append(c.Defs, gen.EventDef{Kind: "signal", Ref: fmt.Sprintf("sigx_%d_%d", i, k)})
				} else {
					c.Defs = append(c.Defs, gen.EventDef{Kind: "message", Ref: fmt.Sprintf("msgx_%d_%d", i, k), Op: op})
				}
			}
			c.ParallelMul = ps.ParMulti && len(c.Defs) > 1
			b.Connect(cur, c)
			cur = c
			bp.hook = c.ID
			addTasks(1 + ps.Post)
		}
		en := b.Add(gen.KEnd)
		b.Connect(cur, en)
		bt.procs = append(bt.procs, bp)
	}
	var sb strings.Builder
	sb.WriteString(`<?xml version="1.0" encoding="UTF-8"?>` + "\n")
	sb.WriteString(`<bpmn:definitions xmlns:bpmn="http://www.omg.org/spec/BPMN/20100524/MODEL" xmlns:olive="http://olive.io/spec/BPMN/MODEL" xmlns:xsi="http://www.w3.org/2001/XMLSchema-instance" id="Defs_1" targetNamespace="http://bpmn.io/schema/bpmn" expressionLanguage="https://github.com/expr-lang/expr">` + "\n")
	sb.WriteString(`<bpmn:collaboration id="Collab_1">`)
	for i, bp := range bt.procs {
		fmt.Fprintf(&sb, `<bpmn:participant id="Part_%d" processRef="%s"/>`, i, bp.id)
	}
	k := 0
	for _, bp := range bt.procs {
		if bp.spec.Kind == "thrower" && bp.spec.Target >= 0 {
			tgt := bt.procs[bp.spec.Target]
			fmt.Fprintf(&sb, `<bpmn:messageFlow id="MF_%d" sourceRef="%s" targetRef="%s"/>`, k, bp.throw, tgt.hook)
			bt.flows[bp.throw] = bp.spec.Target
			k++
		}
		ths := make([]string, 0, len(bp.throws))
		for th := range bp.throws {
			ths = append(ths, th)
		}
		sort.Strings(ths)
		for _, th := range ths {
			tgt := bt.procs[bp.throws[th]]
			fmt.Fprintf(&sb, `<bpmn:messageFlow id="MF_%d" sourceRef="%s" targetRef="%s"/>`, k, th, tgt.hook)
			bt.flows[th] = bp.throws[th]
			k++
		}
	}
	sb.WriteString("</bpmn:collaboration>\n")
	prog := &gen.Program{DefaultLang: "expr"}
	msgs := map[string]bool{}
	sigs := map[string]bool{}
	for _, bp := range bt.procs {
		fmt.Fprintf(&sb, `<bpmn:process id="%s" isExecutable="%v">`+"\n", bp.id, bp.spec.Kind != "waiting" && bp.spec.Kind != "waitingFan")
		sb.WriteString(gen.GraphXML(bp.g, prog))
		sb.WriteString("</bpmn:process>\n")
		bp.g.AllNodes(func(n *gen.Node, _ *gen.Graph) {
			for _, dd := range n.Defs {
				if dd.Kind == "signal" {
					sigs[dd.Ref] = true
				} else {
					msgs[dd.Ref] = true
				}
			}
		})
	}
	keys := make([]string, 0, len(msgs))
	for m := range msgs {
		keys = append(keys, m)
	}
	sort.Strings(keys)
	for _, m := range keys {
		fmt.Fprintf(&sb, `<bpmn:message id="%s" name="%s"/>`+"\n", m, m)
	}
	skeys := make([]string, 0, len(sigs))
	for m := range sigs {
		skeys = append(skeys, m)
	}
	sort.Strings(skeys)
	for _, m := range skeys {
		fmt.Fprintf(&sb, `<bpmn:signal id="%s" name="%s"/>`+"\n", m, m)
	}
	sb.WriteString("</bpmn:definitions>\n")
	bt.xml = sb.String()
	return bt
}

type waiter struct {
	id              int
	cancel          context.CancelFunc
	res             chan bool
	done            bool
	val             bool
	expired         bool
	expiredWhenDone bool
}

type result struct {
	Symptom, Detail string
	History         []string
	Traces          []string
	Gs              string
	Inconcl         string
	Waits           int
	MsgFlows        int
	Instantiated    int
	Woken           int
	Bursts          int
}

func runCase(d descriptor) *result {
	bt := build(d)
	r := &result{MsgFlows: len(bt.flows)}
	defs, err := schema.Parse([]byte(bt.xml))
	if err != nil {
		r.Symptom, r.Detail = "generator", err.Error()+"\n"+bt.xml
		return r
	}
	if d.SlowStart {
		perturb.Hold("process.startwith", 20*time.Millisecond)
		defer perturb.Remove()
	} else if d.Perturb != 0 {
		perturb.Install(d.Perturb, 50, map[string]bool{"processset.startall": true, "process.startwith": true, "tracer.send": true, "processset.trigger": true})
		defer perturb.Remove()
	}
	tr := quiesce.Begin()
	ctx, cancel := context.WithCancel(context.Background())
	defer cancel()
	psOpts := []bpmn.Option{bpmn.WithContext(ctx)}
	if d.Vars != nil {
		psOpts = append(psOpts, bpmn.WithVariables(d.Vars))
	}
	if d.CallerTracer {
		psOpts = append(psOpts, bpmn.WithTracer(tracing.NewTracer(ctx)))
	}
	ps, err := bpmn.NewEngine().NewProcessSet(defs, psOpts...)
	if err != nil {
		r.Symptom, r.Detail = "construct", err.Error()
		return r
	}
	sub := ps.Tracer().SubscribeChannel(make(chan tracing.ITrace))
	var mu sync.Mutex
	var tasks []bpmn.TaskTrace
	var all []tracing.ITrace
	taken := 0
	go func() {
		for t := range sub {
			if t == nil {
				continue
			}
			u := tracing.Unwrap(t)
			mu.Lock()
			all = append(all, u)
			if tt, ok := u.(bpmn.TaskTrace); ok {
				tasks = append(tasks, tt)
			}
			mu.Unlock()
		}
	}()
	describe := func() []string {
		mu.Lock()
		defer mu.Unlock()
		var out []string
		for _, t := range all {
			out = append(out, fmt.Sprintf("%T", t))
		}
		return out
	}
	fail := func(sym, det string, gs []quiesce.G) *result {
		r.Symptom, r.Detail = sym, det
		r.Traces = describe()
		if gs != nil {
			r.Gs = quiesce.Dump(gs)
		}
		return r
	}
	startDone := make(chan error, 1)
	go func() { startDone <- ps.StartAll(ctx) }()
	gs, qerr := tr.Wait(0)
	if qerr != nil {
		r.Inconcl = qerr.Error()
		return r
	}
	select {
	case e := <-startDone:
		if e != nil {
			return fail("start-error", e.Error(), gs)
		}
	default:
		return fail("start-blocked", "ProcessSet.StartAll has not returned at quiescence", gs)
	}
	// models: one per started process instance
	type inst struct {
		m    *model.M
		proc int
	}
	var insts []*inst
	pendEngine := map[string][]bpmn.TaskTrace{}
	var expected []string
	// effects of message flows after a model step
	var apply func(i *inst, obs model.Obs)
	apply = func(i *inst, obs model.Obs) {
		expected = append(expected, obs.Requests...)
		bp := bt.procs[i.proc]
		for _, fid := range obs.Flows {
			f := bp.g.Flow(fid)
			if f == nil {
				continue
			}
			if _, fan := bp.throws[f.Src]; f.Src != bp.throw && !fan {
				continue
			}
			ti, ok := bt.flows[f.Src]
			if !ok {
				continue
			}
			tp := bt.procs[ti]
			switch tp.spec.Kind {
			case "waiting", "waitingFan":
				ni := &inst{m: model.New(tp.g, d.Vars), proc: ti}
				insts = append(insts, ni)
				r.Instantiated++
				apply(ni, ni.m.Start())
			case "catcher":
				for _, x := range insts {
					if x.proc == ti {
						// the wake-up hands the process one event per definition of the
						// catch event (signals, then messages)
						woke := false
						hook := tp.g.Node(tp.hook)
						for _, kind := range []string{"signal", "message"} {
							for _, df := range hook.Defs {
								if df.Kind != kind {
									continue
								}
								o := x.m.Event(model.Ev{Kind: df.Kind, Ref: df.Ref, Op: df.Op})
								if len(o.Fired) > 0 {
									woke = true
								}
								apply(x, o)
							}
						}
						if woke {
							r.Woken++
						}
					}
				}
			}
		}
	}
	for pi, bp := range bt.procs {
		if bp.spec.Kind == "waiting" || bp.spec.Kind == "waitingFan" {
			continue
		}
		ni := &inst{m: model.New(bp.g, d.Vars), proc: pi}
		insts = append(insts, ni)
	}
	for _, i := range append([]*inst(nil), insts...) {
		apply(i, i.m.Start())
	}
	take := func() []string {
		mu.Lock()
		defer mu.Unlock()
		var ids []string
		for _, tt := range tasks[taken:] {
			id, _ := tt.GetActivity().Element().Id()
			pendEngine[*id] = append(pendEngine[*id], tt)
			ids = append(ids, *id)
		}
		taken = len(tasks)
		sort.Strings(ids)
		return ids
	}
	compare := func(stage string) *result {
		got := take()
		sort.Strings(expected)
		if fmt.Sprint(got) != fmt.Sprint(expected) {
			return fail("requests", fmt.Sprintf("%s: task requests %v, model %v", stage, got, expected), nil)
		}
		expected = nil
		return nil
	}
	if res := compare("after start"); res != nil {
		return res
	}
	allDone := func() bool {
		for _, i := range insts {
			if !i.m.Done() {
				return false
			}
		}
		return true
	}
	var waiters []*waiter
	newWaiter := func() *waiter {
		w := &waiter{id: len(waiters), res: make(chan bool, 1)}
		var wctx context.Context
		wctx, w.cancel = context.WithCancel(context.Background())
		waiters = append(waiters, w)
		go func() { w.res <- ps.WaitUntilComplete(wctx) }()
		r.Waits++
		return w
	}
	check := func(stage string) *result {
		gs, err := tr.Wait(0)
		if err != nil {
			r.Inconcl = err.Error()
			return r
		}
		done := allDone()
		for _, w := range waiters {
			if !w.done {
				select {
				case v := <-w.res:
					w.done, w.val = true, v
				default:
				}
			}
			if w.done && w.val && !done {
				return fail("true-early", fmt.Sprintf("%s: waiter %d returned true while a started process still holds tokens", stage, w.id), gs)
			}
			if w.done && !w.val && !w.expired {
				return fail("false-without-expiry", fmt.Sprintf("%s: waiter %d returned false with a live context", stage, w.id), gs)
			}
			if w.expired && !w.done {
				return fail("wait-blocked", fmt.Sprintf("%s: waiter %d with a cancelled context has not returned", stage, w.id), gs)
			}
			if done && !w.expired && !w.done {
				return fail("not-complete", fmt.Sprintf("%s: every started process completed (model) but waiter %d is still blocked at quiescence", stage, w.id), gs)
			}
		}
		return nil
	}
	pendingModel := func() (out []struct {
		i   *inst
		idx int
	}) {
		for _, i := range insts {
			for k := range i.m.Pending {
				out = append(out, struct {
					i   *inst
					idx int
				}{i, k})
			}
		}
		return
	}
	answer := func(arg int) *result {
		pm := pendingModel()
		if len(pm) == 0 {
			return nil
		}
		sel := pm[arg%len(pm)]
		node := sel.i.m.Pending[sel.idx].Node.ID
		q := pendEngine[node]
		if len(q) == 0 {
			return fail("requests", "model pending "+node+" has no engine request", nil)
		}
		q[0].Do()
		pendEngine[node] = q[1:]
		apply(sel.i, sel.i.m.Answer(sel.idx, model.Answer{Kind: model.AnsOK}))
		if _, err := tr.Wait(0); err != nil {
			r.Inconcl = err.Error()
			return r
		}
		r.History = append(r.History, "answer "+node)
		return compare("after answering " + node)
	}
	// answerAll: every pending task is answered at the same time, from separate
	// goroutines - throw events of several processes fire together. Only when
	// the outcome cannot depend on the order: no catcher process is still on
	// its way to its catch event (a throw that finds nobody listening is lost).
	// filterKind != "": answerAll answers the pending tasks of processes of that
	// kind only (and skips the order-independence guard, which is about throws)
	filterKind := ""
	answerAll := func() *result {
		pm := pendingModel()
		if filterKind != "" {
			var keep []struct {
				i   *inst
				idx int
			}
			for _, x := range pm {
				if bt.procs[x.i.proc].spec.Kind == filterKind {
					keep = append(keep, x)
				}
			}
			pm = keep
		}
		if len(pm) < 2 {
			return answer(0)
		}
		for _, i := range insts {
			if filterKind != "" {
				break
			}
			bp := bt.procs[i.proc]
			if bp.spec.Kind != "catcher" || len(i.m.Pending) == 0 {
				continue
			}
			armed := false
			for _, a := range i.m.Armed() {
				if a == bp.hook {
					armed = true
				}
			}
			fired := false
			for _, f := range i.m.AllFlows {
				if fl := bp.g.Flow(f); fl != nil && fl.Src == bp.hook {
					fired = true
				}
			}
			if !armed && !fired {
				return answer(0)
			}
		}
		type sel struct {
			i   *inst
			req *model.Req
		}
		var sels []sel
		var wg sync.WaitGroup
		var nodes []string
		for _, x := range pm {
			rq := x.i.m.Pending[x.idx]
			node := rq.Node.ID
			q := pendEngine[node]
			if len(q) == 0 {
				return fail("requests", "model pending "+node+" has no engine request", nil)
			}
			tt := q[0]
			pendEngine[node] = q[1:]
			sels = append(sels, sel{x.i, rq})
			nodes = append(nodes, node)
			wg.Add(1)
			go func() { defer wg.Done(); tt.Do() }()
		}
		wg.Wait()
		for _, sl := range sels {
			for k, rq := range sl.i.m.Pending {
				if rq == sl.req {
					apply(sl.i, sl.i.m.Answer(k, model.Answer{Kind: model.AnsOK}))
					break
				}
			}
		}
		if _, err := tr.Wait(0); err != nil {
			r.Inconcl = err.Error()
			return r
		}
		r.History = append(r.History, fmt.Sprintf("answer %v at the same time", nodes))
		r.Bursts++
		return compare(fmt.Sprintf("after answering %v at the same time", nodes))
	}
	for ai, a := range d.Actions {
		switch a.Kind {
		case "answerAll":
			if res := answerAll(); res != nil {
				return res
			}
		case "answerCatchers":
			filterKind = "catcher"
			res := answerAll()
			filterKind = ""
			if res != nil {
				return res
			}
		case "answer":
			if res := answer(a.Arg); res != nil {
				return res
			}
		case "wait":
			newWaiter()
			r.History = append(r.History, "wait")
		case "waitMany":
			n := 2 + a.Arg%3
			for k := 0; k < n; k++ {
				newWaiter()
			}
			r.History = append(r.History, fmt.Sprintf("wait x%d concurrently", n))
		case "waitExpire":
			w := newWaiter()
			if _, err := tr.Wait(0); err != nil {
				r.Inconcl = err.Error()
				return r
			}
			w.expired, w.expiredWhenDone = true, allDone()
			w.cancel()
			r.History = append(r.History, "wait with expiring context")
		case "rewait":
			for _, w := range waiters {
				if w.expired {
					newWaiter()
					r.History = append(r.History, "wait again after expiry")
					break
				}
			}
		}
		if res := check(fmt.Sprintf("after action %d (%s)", ai, a.Kind)); res != nil {
			return res
		}
	}
	for guard := 0; guard < 100 && len(pendingModel()) > 0; guard++ {
		if res := answer(0); res != nil {
			return res
		}
		if res := check("drain"); res != nil {
			return res
		}
	}
	newWaiter()
	if res := check("final wait"); res != nil {
		return res
	}
	if allDone() {
		// a second and third call after completion, also concurrently: must not panic and must return true
		newWaiter()
		newWaiter()
		if res := check("repeated waits after completion"); res != nil {
			return res
		}
		mu.Lock()
		n := 0
		for _, t := range all {
			if _, ok := t.(bpmn.CeaseProcessSetTrace); ok {
				n++
			}
		}
		mu.Unlock()
		if n != 1 {
			return fail("cease-count", fmt.Sprintf("%d CeaseProcessSetTrace on the set's tracer, want exactly 1", n), nil)
		}
	}
	for _, w := range waiters {
		w.cancel()
	}
	return r
}

func draw(rt *rapid.T) descriptor {
	var d descriptor
	d.Perturb = uint64(rapid.IntRange(0, 300).Draw(rt, "perturb"))
	d.CallerTracer = rapid.IntRange(0, 2).Draw(rt, "callerTracer") == 0
	if rapid.IntRange(0, 4).Draw(rt, "fanIn") == 0 {
		// 2..4 processes throw into ONE listening catch event (or one waiting
		// process) at the same time: their single tasks are answered together
		k := rapid.IntRange(2, 4).Draw(rt, "throwers")
		tgt := procSpec{Kind: "catcher", Pre: 0, Post: rapid.IntRange(0, 1).Draw(rt, "post"), Target: -1, OpRef: rapid.IntRange(0, 2).Draw(rt, "operationRef") == 0}
		if rapid.IntRange(0, 2).Draw(rt, "intoWaiting") == 0 {
			tgt = procSpec{Kind: "waiting", Pre: rapid.IntRange(0, 2).Draw(rt, "pre"), Target: -1}
		}
		for i := 0; i < k; i++ {
			d.Procs = append(d.Procs, procSpec{Kind: "thrower", Pre: 1, Post: rapid.IntRange(0, 1).Draw(rt, "post"), Target: k})
		}
		d.Procs = append(d.Procs, tgt)
		d.Actions = append(d.Actions, action{Kind: "answerAll"})
		for i := rapid.IntRange(0, 6).Draw(rt, "actions"); i > 0; i-- {
			d.Actions = append(d.Actions, action{Kind: rapid.SampledFrom([]string{"answer", "answerAll", "wait"}).Draw(rt, "akind"), Arg: rapid.IntRange(0, 5).Draw(rt, "arg")})
		}
		return d
	}
	if rapid.IntRange(0, 5).Draw(rt, "manyCatchers") == 0 {
		// 4..12 processes whose catch events start to listen at the same time
		// (right at the start, or when their single tasks are answered together),
		// then one process throws into every one of them at once
		k := rapid.IntRange(4, 12).Draw(rt, "catchers")
		pre := rapid.IntRange(0, 1).Draw(rt, "catcherPre")
		fan := procSpec{Kind: "fanThrower", Pre: 1, Target: -1}
		for i := 0; i < k; i++ {
			fan.Fan = append(fan.Fan, 1+i)
		}
		d.Procs = append(d.Procs, fan)
		for i := 0; i < k; i++ {
			d.Procs = append(d.Procs, procSpec{Kind: "catcher", Pre: pre, Post: 0, Target: -1})
		}
		if pre == 1 {
			d.Actions = append(d.Actions, action{Kind: "answerCatchers"})
		}
		d.Actions = append(d.Actions, action{Kind: "answer"})
		for i := rapid.IntRange(0, 4).Draw(rt, "actions"); i > 0; i-- {
			d.Actions = append(d.Actions, action{Kind: rapid.SampledFrom([]string{"answer", "answerAll", "wait"}).Draw(rt, "akind"), Arg: rapid.IntRange(0, 5).Draw(rt, "arg")})
		}
		return d
	}
	if rapid.IntRange(0, 4).Draw(rt, "fanOut") == 0 {
		// ONE process passes 2..8 throw events at the same moment (parallel
		// fork): into one listening catch event, or each into a waiting process
		// of its own (which may pass a throw event itself right after its start)
		k := rapid.IntRange(2, 8).Draw(rt, "throws")
		fan := procSpec{Kind: "fanThrower", Pre: 1, Target: -1}
		if rapid.IntRange(0, 2).Draw(rt, "instantiatedFan") == 0 {
			// the forking process is itself instantiated by a message flow and
			// passes its throw events the moment it is started:
			//   [0] thrower(task, throw -> 1)  [1] waitingFan -> 2..k+1 waiting
			fan = procSpec{Kind: "waitingFan", Pre: 0, Target: -1}
			for i := 0; i < k; i++ {
				fan.Fan = append(fan.Fan, 2+i)
			}
			d.SlowStart = rapid.Bool().Draw(rt, "slowStart")
			d.Procs = append(d.Procs, procSpec{Kind: "thrower", Pre: 1, Post: 0, Target: 1}, fan)
			for i := 0; i < k; i++ {
				d.Procs = append(d.Procs, procSpec{Kind: "waiting", Pre: rapid.IntRange(0, 1).Draw(rt, "pre"), Target: -1, ThrowFirst: rapid.Bool().Draw(rt, "throwFirst")})
			}
			if rapid.Bool().Draw(rt, "instantiatedTwice") {
				// a second executable process throws into the same start event: the
				// forking process runs as TWO instances in the set, and the throw
				// events of the second are delivered like those of the first (every
				// waiting process behind them is instantiated once per throw)
				d.Procs = append(d.Procs, procSpec{Kind: "thrower", Pre: 1, Post: 0, Target: 1})
				d.Actions = append(d.Actions, action{Kind: "answerAll"})
			}
			d.Actions = append(d.Actions, action{Kind: "answer"})
			for i := rapid.IntRange(0, 6).Draw(rt, "actions"); i > 0; i-- {
				d.Actions = append(d.Actions, action{Kind: rapid.SampledFrom([]string{"answer", "answerAll", "wait"}).Draw(rt, "akind"), Arg: rapid.IntRange(0, 5).Draw(rt, "arg")})
			}
			return d
		}
		if rapid.IntRange(0, 2).Draw(rt, "intoOneCatch") == 0 {
			for i := 0; i < k; i++ {
				fan.Fan = append(fan.Fan, 1)
			}
			d.Procs = append(d.Procs, fan, procSpec{Kind: "catcher", Pre: 0, Post: rapid.IntRange(0, 1).Draw(rt, "post"), Target: -1})
		} else {
			for i := 0; i < k; i++ {
				fan.Fan = append(fan.Fan, 1+i)
			}
			d.Procs = append(d.Procs, fan)
			for i := 0; i < k; i++ {
				d.Procs = append(d.Procs, procSpec{Kind: "waiting", Pre: rapid.IntRange(0, 1).Draw(rt, "pre"), Target: -1, ThrowFirst: rapid.Bool().Draw(rt, "throwFirst")})
			}
		}
		d.Actions = append(d.Actions, action{Kind: "answer"})
		for i := rapid.IntRange(0, 6).Draw(rt, "actions"); i > 0; i-- {
			d.Actions = append(d.Actions, action{Kind: rapid.SampledFrom([]string{"answer", "answerAll", "wait"}).Draw(rt, "akind"), Arg: rapid.IntRange(0, 5).Draw(rt, "arg")})
		}
		return d
	}
	nExec := rapid.IntRange(1, 3).Draw(rt, "exec")
	nWait := rapid.IntRange(0, 2).Draw(rt, "waiting")
	for i := 0; i < nExec; i++ {
		k := rapid.SampledFrom([]string{"plain", "prog", "thrower", "catcher"}).Draw(rt, "kind")
		sp := procSpec{Kind: k, Pre: rapid.IntRange(0, 2).Draw(rt, "pre"), Post: rapid.IntRange(0, 1).Draw(rt, "post"), Target: -1}
		if k == "catcher" {
			sp.OpRef = rapid.IntRange(0, 2).Draw(rt, "operationRef") == 0
		}
		if k == "catcher" && rapid.Bool().Draw(rt, "multiDef") {
			sp.ExtraDefs = rapid.IntRange(1, 2).Draw(rt, "extraDefs")
			sp.ParMulti = rapid.Bool().Draw(rt, "parMulti")
		}
		if k == "prog" {
			// a C01-style program; no loops (answers carry no results), no
			// inclusive blocks (their join window needs the lock-step driver)
			sp.Prog = gen.GenProgram(rt, gen.GenOpts{MaxDepth: 2, MaxNodes: 7, NoInc: true, NoLoop: true})
			if d.Vars == nil {
				d.Vars = map[string]any{}
				for _, v := range gen.BoolVars {
					d.Vars[v] = rapid.Bool().Draw(rt, "bv")
				}
				for _, v := range gen.IntVars {
					d.Vars[v] = int64(rapid.IntRange(0, 3).Draw(rt, "iv"))
				}
			}
		}
		d.Procs = append(d.Procs, sp)
	}
	for i := 0; i < nWait; i++ {
		d.Procs = append(d.Procs, procSpec{Kind: "waiting", Pre: rapid.IntRange(0, 2).Draw(rt, "pre"), Target: -1})
	}
	// message flows: each thrower may target a catcher or a waiting process (each target at most once)
	used := map[int]bool{}
	for i := range d.Procs {
		if d.Procs[i].Kind != "thrower" {
			continue
		}
		var cands []int
		for j := range d.Procs {
			if j != i && (d.Procs[j].Kind == "catcher" || d.Procs[j].Kind == "waiting") {
				cands = append(cands, j)
			}
		}
		if len(cands) > 0 && rapid.IntRange(0, 3).Draw(rt, "hasFlow") != 0 {
			t := cands[rapid.IntRange(0, len(cands)-1).Draw(rt, "target")]
			d.Procs[i].Target = t
			used[t] = true
			if d.Procs[t].Kind == "catcher" && d.Procs[i].Pre == 0 {
				// a throw right at start-up races the start of the catching process
				// (is its catch event listening yet?): keep the order decided by answers
				d.Procs[i].Pre = 1
			}
		}
	}
	na := rapid.IntRange(0, 8).Draw(rt, "actions")
	kinds := []string{"answer", "answer", "answer", "wait", "answerAll"}
	if !rec.Exclude("C18-F1") {
		kinds = append(kinds, "waitMany", "waitExpire", "rewait")
	}
	for i := 0; i < na; i++ {
		d.Actions = append(d.Actions, action{Kind: rapid.SampledFrom(kinds).Draw(rt, "akind"), Arg: rapid.IntRange(0, 5).Draw(rt, "arg")})
	}
	return d
}

func TestC18ProcessSet(t *testing.T) {
	var rd descriptor
	if ok, err := rec.ReplayInput(&rd); ok {
		if err != nil {
			t.Fatal(err)
		}
		fails := 0
		for i := 0; i < 10; i++ {
			r := runCase(rd)
			if r.Symptom != "" {
				fails++
				if fails == 1 {
					fmt.Printf("REPRODUCED %s: %s\n", r.Symptom, r.Detail)
				}
			}
		}
		if fails > 0 {
			t.Fatalf("reproduced in %d of 10 runs", fails)
		}
		return
	}
	rapid.Check(t, func(rt *rapid.T) {
		d := draw(rt)
		hash := rec.Hash(d)
		rec.Begin("TestC18ProcessSet", hash, d)
		r := runCase(d)
		if r.Inconcl != "" {
			rec.End(hash, "inconclusive")
			rec.Inconclusive("TestC18ProcessSet", r.Inconcl)
			rt.Fatalf("inconclusive: %s", r.Inconcl)
		}
		rec.End(hash, r.Symptom)
		trivialProc, progProc := false, false
		for _, p := range d.Procs {
			if p.Kind == "plain" && p.Pre == 0 {
				trivialProc = true
			}
			if p.Kind == "prog" {
				progProc = true
			}
		}
		cls := []string{fmt.Sprintf("procs=%d", len(d.Procs))}
		if r.MsgFlows > 0 {
			cls = append(cls, "messageFlow")
		}
		if r.Instantiated > 0 {
			cls = append(cls, "instantiatedWaitingProcess")
		}
		if r.Woken > 0 {
			cls = append(cls, "wokeCatchEvent")
		}
		if r.Bursts > 0 {
			cls = append(cls, "tasksAnsweredAtTheSameTime")
		}
		if trivialProc {
			cls = append(cls, "processWithoutTask")
		}
		if progProc {
			cls = append(cls, "generatedProgramProcess")
		}
		nt := len(d.Procs) >= 2 && (trivialProc || r.MsgFlows > 0 || r.Waits >= 2)
		rec.Case("TestC18ProcessSet", hash, nt, cls, map[string]any{"case": d, "history": r.History})
		if r.Symptom != "" {
			rt.Fatalf("%s", rec.Fail(rec.Failure{Property: prop, Test: "TestC18ProcessSet", Symptom: r.Symptom, Detail: r.Detail, Descriptor: d,
				History: map[string]any{"steps": r.History, "traces": r.Traces, "xml": bt(d)}, Goroutines: r.Gs}))
		}
	})
}

func bt(d descriptor) string { return build(d).xml }
