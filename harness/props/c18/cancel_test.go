package c18

// TestC18Cancel (registered under C07): cancelling the context of a PROCESS
// SET at any point of its life stops it like a single instance: the waits
// return, the set's tracer terminates and closes its subscribers' channels,
// every goroutine the set started exits, nothing spins or stays blocked.
//
//   set: 1..3 executable processes (start -> parallel fork -> k tasks -> join
//   -> end, or a chain), no message flows;
//   cancel position = number of traces the (unbuffered) recording subscriber
//   has received when its reader calls cancel().

import (
	"context"
	"fmt"
	"sort"
	"strings"
	"sync"
	"sync/atomic"
	"testing"
	"time"

	"github.com/olive-io/bpmn/schema"
	bpmn "github.com/olive-io/bpmn/v2"
	"github.com/olive-io/bpmn/v2/pkg/tracing"
	"pgregory.net/rapid"

	"verif/harness/gen"
	"verif/harness/quiesce"
	"verif/harness/rec"
)

type cancelDesc struct {
	Forks   []int `json:"forks"`   // per executable process: tasks in its parallel block (1 = plain chain of one task)
	Thrower bool  `json:"thrower"` // one more process throws a message that instantiates a waiting process
	Answers int   `json:"answers"` // task answers given before the end of the script
	K       int   `json:"k"`       // cancel when this many traces have been received (0 = before the start)
}

func runCancel(d cancelDesc, k int) (sym, det, inconcl string, total int) {
	var procs []procSpec
	for _, n := range d.Forks {
		blk := &gen.Block{K: "seq", Def: -1}
		if n <= 1 {
			blk.Kids = []*gen.Block{{K: "task", Def: -1}}
		} else {
			par := &gen.Block{K: "par", Def: -1}
			for i := 0; i < n; i++ {
				par.Kids = append(par.Kids, &gen.Block{K: "seq", Def: -1, Kids: []*gen.Block{{K: "task", Def: -1}}})
			}
			blk.Kids = []*gen.Block{par}
		}
		procs = append(procs, procSpec{Kind: "prog", Prog: blk})
	}
	if d.Thrower {
		procs = append(procs, procSpec{Kind: "thrower", Pre: 1, Post: 1, Target: len(procs) + 1}, procSpec{Kind: "waiting", Pre: 2})
	}
	bt := build(descriptor{Procs: procs})
	defs, err := schema.Parse([]byte(bt.xml))
	if err != nil {
		return "generator", err.Error(), "", 0
	}
	tr := quiesce.Begin()
	ctx, cancel := context.WithCancel(context.Background())
	defer cancel()
	ps, err := bpmn.NewEngine().NewProcessSet(defs, bpmn.WithContext(ctx))
	if err != nil {
		return "construct", err.Error(), "", 0
	}
	sub := ps.Tracer().SubscribeChannel(make(chan tracing.ITrace))
	var mu sync.Mutex
	var tasks []bpmn.TaskTrace
	var count atomic.Int64
	var cancelled atomic.Bool
	readerDone := make(chan struct{})
	go func() {
		defer close(readerDone)
		for t := range sub {
			if t == nil {
				continue
			}
			u := tracing.Unwrap(t)
			mu.Lock()
			if tt, ok := u.(bpmn.TaskTrace); ok {
				tasks = append(tasks, tt)
			}
			mu.Unlock()
			if n := count.Add(1); k > 0 && int(n) == k && !cancelled.Load() {
				cancelled.Store(true)
				cancel()
			}
		}
	}()
	if k == 0 {
		cancelled.Store(true)
		cancel()
	}
	var calls sync.WaitGroup
	calls.Add(1)
	go func() { defer calls.Done(); ps.StartAll(ctx) }()
	ceiling := 20 * time.Second
	busy := func(err error) (string, string, string, int) {
		s := err.Error()
		if len(s) > 1500 {
			s = s[:1500]
		}
		if cancelled.Load() {
			return "busy", "after cancel the set's goroutines do not come to rest (spinning): " + s, "", int(count.Load())
		}
		return "", "", s, 0
	}
	taken := 0
	for a := 0; a < d.Answers; a++ {
		if _, err := tr.Wait(ceiling); err != nil {
			return busy(err)
		}
		if cancelled.Load() {
			break
		}
		mu.Lock()
		var tt bpmn.TaskTrace
		if taken < len(tasks) {
			tt = tasks[taken]
			taken++
		}
		mu.Unlock()
		if tt == nil {
			break
		}
		calls.Add(1)
		go func() { defer calls.Done(); tt.Do() }()
	}
	if _, err := tr.Wait(ceiling); err != nil {
		return busy(err)
	}
	total = int(count.Load())
	if k < 0 {
		cancel()
		select {
		case <-readerDone:
		case <-time.After(2 * time.Second):
		}
		return "", "", "", total
	}
	if !cancelled.Load() {
		cancelled.Store(true)
		cancel()
	}
	wres := make(chan bool, 1)
	go func() { wres <- ps.WaitUntilComplete(context.Background()) }()
	if _, err := tr.Wait(ceiling); err != nil {
		return busy(err)
	}
	select {
	case <-wres:
	default:
		return "wait-blocked", "ProcessSet.WaitUntilComplete has not returned after cancellation although everything is parked", "", total
	}
	select {
	case <-ps.Tracer().Done():
	default:
		return "tracer-alive", "the set's Tracer().Done() is not closed after cancellation (a registered sender never finished or a broadcaster is blocked)", "", total
	}
	select {
	case <-readerDone:
	default:
		return "subscriber-open", "the subscriber's channel has not been closed after cancellation", "", total
	}
	done := make(chan struct{})
	go func() { calls.Wait(); close(done) }()
	if _, err := tr.Wait(ceiling); err != nil {
		return busy(err)
	}
	select {
	case <-done:
	default:
		return "call-blocked", "a StartAll / Do call issued before the cancellation has not returned", "", total
	}
	if left := tr.Mine(); len(left) > 0 {
		var tops []string
		for _, g := range left {
			tops = append(tops, g.State+" @ "+g.TopFunc())
		}
		sort.Strings(tops)
		return "leak", fmt.Sprintf("%d goroutine(s) started by the set are still alive (parked forever) after cancellation: %s", len(left), strings.Join(tops, "; ")), "", total
	}
	return "", "", "", total
}

func TestC18Cancel(t *testing.T) {
	var rd cancelDesc
	if ok, err := rec.ReplayInput(&rd); ok {
		if err != nil {
			t.Fatal(err)
		}
		if len(rd.Forks) == 0 {
			return
		}
		fails := 0
		for i := 0; i < 5; i++ {
			if s, dd, _, _ := runCancel(rd, rd.K); s != "" {
				fails++
				if fails == 1 {
					fmt.Printf("REPRODUCED %s: %s\n", s, dd)
				}
			}
		}
		if fails > 0 {
			t.Fatalf("reproduced in %d of 5 runs", fails)
		}
		return
	}
	rapid.Check(t, func(rt *rapid.T) {
		// (no message flows: a throw that is in flight when the set's context is
		// cancelled leaves the set's wait group count hanging - cancellation of a
		// SET with message flows is outside what C07 states about an instance, and
		// is not generated; see DESIGN.md section 6)
		d := cancelDesc{Answers: rapid.IntRange(0, 6).Draw(rt, "answers")}
		for i := rapid.IntRange(1, 3).Draw(rt, "procs"); i > 0; i-- {
			d.Forks = append(d.Forks, rapid.SampledFrom([]int{1, 2, 3, 5, 8}).Draw(rt, "fork"))
		}
		_, _, inc, total := runCancel(d, -1)
		if inc != "" {
			rec.Inconclusive("TestC18Cancel", inc)
			rt.Fatalf("inconclusive: %s", inc)
		}
		d.K = rapid.IntRange(0, total+1).Draw(rt, "k")
		hash := rec.Hash(d)
		rec.Begin("TestC18Cancel", hash, d)
		s, dd, inc, _ := runCancel(d, d.K)
		if inc != "" {
			rec.End(hash, "inconclusive")
			rec.Inconclusive("TestC18Cancel", inc)
			rt.Fatalf("inconclusive: %s", inc)
		}
		rec.End(hash, s)
		pending := 0
		for _, f := range d.Forks {
			pending += f
		}
		cls := []string{fmt.Sprintf("procs=%d", len(d.Forks))}
		if d.Thrower {
			cls = append(cls, "messageFlow")
		}
		rec.Case("TestC18Cancel", hash, d.K > 0 && d.K < total, cls, map[string]any{"case": d, "tracesWithoutCancel": total})
		if s != "" {
			rt.Fatalf("%s", rec.Fail(rec.Failure{Property: "C07", Test: "TestC18Cancel", Symptom: s, Detail: dd, Descriptor: d}))
		}
	})
}
