package c07

import (
	"context"
	"fmt"
	"os"
	"sort"
	"strconv"
	"strings"
	"sync"
	"sync/atomic"
	"testing"
	"time"

	bpmn "github.com/olive-io/bpmn/v2"
	"github.com/olive-io/bpmn/v2/pkg/tracing"
	"pgregory.net/rapid"

	"verif/harness/drive"
	"verif/harness/gen"
	"verif/harness/model"
	"verif/harness/perturb"
	"verif/harness/quiesce"
	"verif/harness/rec"
)

const prop = "C07"

// entry of the corpus: a program and the stimuli that walk it through its life.
type entry struct {
	Name   string
	G      *gen.Graph
	Vars   map[string]any
	Script []drive.Stim
	Timer  bool // instance gets a mock clock and the timer definition builder
	// HostTimer: the instance gets the timer definition builder on the HOST
	// clock (no mock clock in its context); its timers are due in an hour
	HostTimer bool
	// HeldIngress: the first timer event is held at the event ingress until the
	// instance has been cancelled (a slow consumer of timer events)
	HeldIngress bool
}

// clk advances the mock clock; fired (if not "") is the timer expression the
// model is told has fired.
func clk(sec int, fired string) drive.Stim {
	s := drive.Stim{Kind: "clock", ClockS: sec}
	if fired != "" {
		s.Ev = &model.Ev{Kind: "timer", Ref: fired}
	}
	return s
}

func ans() drive.Stim { return drive.Stim{Kind: "answer"} }

// ansK answers with an error mode: err | skip | exit | retry, or "pending" =
// an error whose handler channel never delivers a decision (the token waits
// for it until the instance is cancelled).
func ansK(kind string, retries int) drive.Stim {
	return drive.Stim{Kind: "answer", Ans: &model.Answer{Kind: kind, Retries: retries}}
}

type pendingErr struct{}

func (pendingErr) Error() string { return "error whose handling is still being decided" }
func sig(ref string) drive.Stim {
	return drive.Stim{Kind: "event", Ev: &model.Ev{Kind: "signal", Ref: ref}}
}

func lower(blk *gen.Block) *gen.Graph { return gen.Lower(blk).G }

func task() *gen.Block { return &gen.Block{K: "task", Def: -1} }
func seq(kids ...*gen.Block) *gen.Block {
	return &gen.Block{K: "seq", Def: -1, Kids: kids}
}

func corpus() []entry {
	var out []entry
	add := func(name string, g *gen.Graph, vars map[string]any, script ...drive.Stim) {
		out = append(out, entry{Name: name, G: g, Vars: vars, Script: script})
	}
	bv := map[string]any{"b0": true, "b1": false, "n0": int64(1), "lp1": false}
	add("two tasks in sequence", lower(seq(task(), task())), nil, ans(), ans())
	add("parallel fork/join, join half full", lower(seq(&gen.Block{K: "par", Def: -1, Kids: []*gen.Block{seq(task()), seq(task()), seq(task())}}, task())), nil, ans(), ans(), ans(), ans())
	add("exclusive gateway with conditions", lower(seq(task(), &gen.Block{K: "xor", Def: 1, Conds: []*gen.Cond{gen.BoolVar("b1"), nil, gen.BoolVar("b0")}, Kids: []*gen.Block{seq(task()), seq(task()), seq(task())}}, task())), bv, ans(), ans(), ans())
	add("inclusive fork/join", lower(seq(task(), &gen.Block{K: "inc", Def: -1, Conds: []*gen.Cond{gen.BoolVar("b0"), gen.True(), gen.BoolVar("b1")}, Kids: []*gen.Block{seq(task()), seq(task(), task()), seq(task())}}, task())), bv, ans(), ans(), ans(), ans(), ans())
	add("loop", lower(seq(&gen.Block{K: "loop", Def: -1, Conds: []*gen.Cond{gen.BoolVar("lp1")}, Kids: []*gen.Block{seq(task(), &gen.Block{K: "task", Def: -1, Results: []string{"lp1"}})}})), bv, ans(), ans())
	add("sub-process running", lower(seq(task(), &gen.Block{K: "sub", Def: -1, Kids: []*gen.Block{seq(task(), task())}}, task())), nil, ans(), ans(), ans(), ans())
	add("nested sub-process", lower(seq(&gen.Block{K: "task", Def: -1, Wrap: 2}, task())), nil, ans(), ans())
	add("sub-process not yet reached", lower(seq(task(), &gen.Block{K: "sub", Def: -1, Kids: []*gen.Block{seq(task())}})), nil)
	add("untaken branch with gateways, sub-process", lower(seq(&gen.Block{K: "xor", Def: 0, Conds: []*gen.Cond{nil, gen.False()}, Kids: []*gen.Block{seq(task()),
		seq(&gen.Block{K: "inc", Def: -1, Conds: []*gen.Cond{gen.True()}, Kids: []*gen.Block{seq(task())}}, &gen.Block{K: "par", Def: -1, Kids: []*gen.Block{seq(task()), seq(task())}}, &gen.Block{K: "sub", Def: -1, Kids: []*gen.Block{seq(task())}})}}, task())), bv, ans(), ans())
	add("conditional flows leaving a task", lower(seq(&gen.Block{K: "ctask", Def: -1, Conds: []*gen.Cond{gen.BoolVar("b1"), gen.BoolVar("b0"), nil}, Kids: []*gen.Block{seq(task(), &gen.Block{K: "end", Def: -1}), seq(task(), &gen.Block{K: "end", Def: -1}), seq(&gen.Block{K: "end", Def: -1})}})), bv, ans(), ans())
	// event nodes
	{
		b := gen.NewB()
		st := b.Add(gen.KStart)
		c := b.Add(gen.KCatch)
		c.Defs = []gen.EventDef{{Kind: "signal", Ref: "s1"}}
		t := b.Add(gen.KTask)
		en := b.Add(gen.KEnd)
		b.Connect(st, c)
		b.Connect(c, t)
		b.Connect(t, en)
		add("listening catch event", b.G, nil, sig("zz"), sig("s1"), ans())
	}
	{
		b := gen.NewB()
		st := b.Add(gen.KStart)
		eg := b.Add(gen.KEbg)
		b.Connect(st, eg)
		for i := 0; i < 3; i++ {
			c := b.Add(gen.KCatch)
			c.Defs = []gen.EventDef{{Kind: "signal", Ref: fmt.Sprintf("a%d", i)}}
			t := b.Add(gen.KTask)
			en := b.Add(gen.KEnd)
			b.Connect(eg, c)
			b.Connect(c, t)
			b.Connect(t, en)
		}
		add("event-based gateway armed", b.G, nil, sig("a1"), ans(), sig("a0"))
	}
	{
		b := gen.NewB()
		st := b.Add(gen.KStart)
		host := b.Add(gen.KTask)
		n := b.Add(gen.KTask)
		en := b.Add(gen.KEnd)
		b.Connect(st, host)
		b.Connect(host, n)
		b.Connect(n, en)
		for i, intr := range []bool{false, true} {
			be := b.Add(gen.KBoundary)
			be.AttachedTo = host.ID
			be.CancelAct = intr
			be.Defs = []gen.EventDef{{Kind: "signal", Ref: fmt.Sprintf("b%d", i)}}
			x := b.Add(gen.KTask)
			xe := b.Add(gen.KEnd)
			b.Connect(be, x)
			b.Connect(x, xe)
		}
		add("boundary listeners armed", b.G, nil, sig("b0"), ans(), ans(), ans())
	}
	{
		b := gen.NewB()
		st := b.Add(gen.KStart)
		f := b.Add(gen.KPar)
		b.Connect(st, f)
		j := b.Add(gen.KPar)
		for i := 0; i < 2; i++ {
			c := b.Add(gen.KCatch)
			c.Defs = []gen.EventDef{{Kind: "message", Ref: fmt.Sprintf("m%d", i)}}
			t := b.Add(gen.KTask)
			b.Connect(f, c)
			b.Connect(c, t)
			b.Connect(t, j)
		}
		en := b.Add(gen.KEnd)
		b.Connect(j, en)
		add("two catch events in parallel", b.G, nil, drive.Stim{Kind: "event", Ev: &model.Ev{Kind: "message", Ref: "m1"}}, ans(), drive.Stim{Kind: "event", Ev: &model.Ev{Kind: "message", Ref: "m0"}}, ans())
	}
	// timers (mock clock): a duration timer that fires while the catch event
	// listens; a cycle timer next to a task; a timer that never fires
	{
		b := gen.NewB()
		st := b.Add(gen.KStart)
		c := b.Add(gen.KCatch)
		c.Defs = []gen.EventDef{{Kind: "timer", TimerKind: "timeDuration", TimerExpr: "PT10S"}}
		t := b.Add(gen.KTask)
		en := b.Add(gen.KEnd)
		b.Connect(st, c)
		b.Connect(c, t)
		b.Connect(t, en)
		out = append(out, entry{Name: "timer catch event listening, fires", G: b.G, Timer: true,
			Script: []drive.Stim{clk(5, ""), clk(5, "PT10S"), ans()}})
	}
	{
		b := gen.NewB()
		st := b.Add(gen.KStart)
		f := b.Add(gen.KPar)
		b.Connect(st, f)
		j := b.Add(gen.KPar)
		c := b.Add(gen.KCatch)
		c.Defs = []gen.EventDef{{Kind: "timer", TimerKind: "timeCycle", TimerExpr: "R3/PT10S"}}
		t1 := b.Add(gen.KTask)
		b.Connect(f, c)
		b.Connect(c, t1)
		b.Connect(t1, j)
		t2 := b.Add(gen.KTask)
		b.Connect(f, t2)
		b.Connect(t2, j)
		c2 := b.Add(gen.KCatch)
		c2.Defs = []gen.EventDef{{Kind: "timer", TimerKind: "timeDuration", TimerExpr: "PT1H"}}
		b.Connect(j, c2)
		en := b.Add(gen.KEnd)
		b.Connect(c2, en)
		out = append(out, entry{Name: "cycle timer beside a task, then a timer that never fires", G: b.G, Timer: true,
			Script: []drive.Stim{ans(), clk(10, "R3/PT10S"), clk(10, ""), ans(), clk(30, "")}})
	}
	// several start events (each StartWith registers with the instance's tracer)
	{
		b := gen.NewB()
		mrg := b.Add(gen.KXor)
		for i := 0; i < 3; i++ {
			st := b.Add(gen.KStart)
			t := b.Add(gen.KTask)
			b.Connect(st, t)
			b.Connect(t, mrg)
		}
		t := b.Add(gen.KTask)
		en := b.Add(gen.KEnd)
		b.Connect(mrg, t)
		b.Connect(t, en)
		add("three start events merging", b.G, nil, ans(), ans(), ans(), ans(), ans(), ans())
	}
	// error modes of task answers: a decision that never comes, retry, skip, exit
	add("error answer whose handler decision is pending", lower(seq(&gen.Block{K: "par", Def: -1, Kids: []*gen.Block{seq(task()), seq(task(), task())}}, task())), nil, ansK("pending", 0), ans(), ans())
	add("retry, skip, exit and plain error answers", lower(seq(task(), task(), &gen.Block{K: "par", Def: -1, Kids: []*gen.Block{seq(task()), seq(task())}}, task())), nil,
		ansK(model.AnsRetry, 2), ansK(model.AnsRetry, 2), ans(), ansK(model.AnsSkip, 0), ansK(model.AnsErr, 0), ansK(model.AnsExit, 0))
	// timers on the host clock, pending (due in an hour) when the context ends
	{
		b := gen.NewB()
		st := b.Add(gen.KStart)
		t1 := b.Add(gen.KTask)
		f := b.Add(gen.KPar)
		b.Connect(st, t1)
		b.Connect(t1, f)
		for _, d := range []gen.EventDef{{Kind: "timer", TimerKind: "timeDuration", TimerExpr: "PT1H"}, {Kind: "timer", TimerKind: "timeCycle", TimerExpr: "R3/PT1H"}} {
			c := b.Add(gen.KCatch)
			c.Defs = []gen.EventDef{d}
			en := b.Add(gen.KEnd)
			b.Connect(f, c)
			b.Connect(c, en)
		}
		out = append(out, entry{Name: "timer catch events on the host clock, pending", G: b.G, HostTimer: true, Script: []drive.Stim{ans()}})
	}
	// a cycle timer whose first firing is still being delivered (held at the
	// ingress) when the second falls due: the timer waits to hand it over
	{
		b := gen.NewB()
		st := b.Add(gen.KStart)
		c := b.Add(gen.KCatch)
		c.Defs = []gen.EventDef{{Kind: "timer", TimerKind: "timeCycle", TimerExpr: "R5/PT10S"}}
		t := b.Add(gen.KTask)
		en := b.Add(gen.KEnd)
		b.Connect(st, c)
		b.Connect(c, t)
		b.Connect(t, en)
		out = append(out, entry{Name: "cycle timer, first firing held at the ingress, second pending", G: b.G, Timer: true, HeldIngress: true,
			Script: []drive.Stim{clk(10, ""), clk(10, ""), clk(10, "")}})
	}
	return out
}

type descriptor struct {
	Entry   int          `json:"entry"` // corpus index, or -1 = generated program
	Prog    *gen.Block   `json:"prog,omitempty"`
	Script  []drive.Stim `json:"script,omitempty"`
	K       int          `json:"k"` // cancel when this many traces have been received (0 = before start)
	Perturb uint64       `json:"perturb"`
	// Split: the instance is started with a context that does not descend from
	// the context it was constructed with. At position K only the CONSTRUCTION
	// context is cancelled; the script goes on (what the instance still does is
	// not judged, only that it comes to rest); at the end the run context is
	// cancelled too and everything must be gone as usual.
	Split bool `json:"split,omitempty"`
	// SplitRun: as Split, but at position K only the RUN context (the one given
	// to StartAll) is cancelled while the construction context lives on. From
	// that moment every task request - issued before, racing with or after the
	// cancellation, at process level or inside sub-processes - carries a
	// cancelled context; the construction context is cancelled at the end.
	SplitRun bool `json:"splitRun,omitempty"`
	// AppTracer: the instance reports to a tracer of the caller's
	// (bpmn.WithTracer) that outlives it; the instance's own context is
	// cancelled as usual. Everything the INSTANCE started must be gone (the
	// caller's tracer of course stays).
	AppTracer bool `json:"appTracer,omitempty"`
}

type result struct {
	Symptom, Detail string
	Gs              string
	Inconcl         string
	Traces          []string
	Total           int // traces seen
	Cancelled       bool
	NodesStarted    bool
}

func resolve(d descriptor) (entry, error) {
	if d.Entry >= 0 {
		c := corpus()
		if d.Entry >= len(c) {
			return entry{}, fmt.Errorf("no corpus entry %d", d.Entry)
		}
		return c[d.Entry], nil
	}
	vars := map[string]any{"lp1": false, "lp2": false, "lp3": false}
	for _, v := range gen.IntVars {
		vars[v] = int64(1)
	}
	for i, v := range gen.BoolVars {
		vars[v] = i%2 == 0
	}
	return entry{Name: "generated", G: gen.Lower(d.Prog).G, Vars: vars, Script: d.Script}, nil
}

// run executes the script, cancelling at trace position k (k<0: never).
func run(d descriptor, k int) *result {
	r := &result{}
	e, err := resolve(d)
	if err != nil {
		r.Symptom, r.Detail = "descriptor", err.Error()
		return r
	}
	if d.Perturb != 0 {
		perturb.Install(d.Perturb, 30, nil)
		defer perturb.Remove()
	}
	prog := &gen.Program{G: e.G, DefaultLang: "expr"}
	appTracer := d.AppTracer && !e.Timer && !e.HostTimer
	var extra []bpmn.Option
	if appTracer {
		// (created before the tracker's baseline is taken: not the instance's)
		appCtx, appCancel := context.WithCancel(context.Background())
		defer appCancel()
		extra = append(extra, bpmn.WithTracer(tracing.NewTracer(appCtx)))
	}
	tr := quiesce.Begin()
	in, err := drive.New(prog.XML(), drive.Options{Vars: e.Vars, Tracker: tr, MockClock: e.Timer, HostTimers: e.HostTimer, HeldIngress: e.HeldIngress, SplitCtx: d.Split || d.SplitRun, Extra: extra})
	if err != nil {
		r.Symptom, r.Detail = "construct", err.Error()
		return r
	}
	var cancelled atomic.Bool
	var cancelIdx atomic.Int64
	cancelIdx.Store(-1)
	in.OnTrace = func(idx int, t tracing.ITrace) {
		if k > 0 && idx+1 == k && !cancelled.Load() {
			cancelIdx.Store(int64(idx))
			if d.SplitRun {
				in.CancelRun()
			} else {
				in.Cancel()
			}
			if !d.Split && !d.SplitRun {
				cancelled.Store(true)
			}
		}
	}
	finish := func(sym, det string, gs []quiesce.G) *result {
		r.Symptom, r.Detail = sym, det
		if gs != nil {
			r.Gs = quiesce.Dump(gs)
		}
		r.Traces = drive.DescribeAll(in.Traces())
		// do not leave a live instance behind
		in.Cancel()
		in.CancelRun()
		in.ReleaseIngress()
		return r
	}
	if k == 0 {
		if d.SplitRun {
			in.CancelRun()
		} else {
			in.Cancel()
		}
		if !d.Split && !d.SplitRun {
			cancelled.Store(true)
		}
	}
	var calls sync.WaitGroup
	calls.Add(1)
	go func() { defer calls.Done(); in.StartAll() }()
	m := model.New(e.G, e.Vars)
	m.Start()
	pend := map[string][]bpmn.TaskTrace{}
	take := func() {
		for _, tt := range in.NewTasks() {
			id, _ := tt.GetActivity().Element().Id()
			pend[*id] = append(pend[*id], tt)
		}
	}
	ceiling := 20 * time.Second
	for _, s := range e.Script {
		gs, err := tr.Wait(ceiling)
		if err != nil {
			if cancelled.Load() || ((d.Split || d.SplitRun) && cancelIdx.Load() >= 0) {
				return finish("busy", "after cancel the instance's goroutines do not come to rest (spinning): "+shortBusy(err), gs)
			}
			r.Inconcl = err.Error()
			in.Cancel()
			in.CancelRun()
			return r
		}
		if cancelled.Load() {
			break
		}
		take()
		switch s.Kind {
		case "answer":
			if len(m.Pending) == 0 {
				continue
			}
			node := m.Pending[0].Node.ID
			q := pend[node]
			if len(q) == 0 {
				// conformance is C01's business; without the request the script cannot go on
				break
			}
			tt := q[0]
			pend[node] = q[1:]
			a := model.Answer{Kind: model.AnsOK}
			if n := e.G.Node(node); n != nil && len(n.Results) == 1 && strings.HasPrefix(n.Results[0], "lp") {
				a.Results = map[string]any{n.Results[0]: false}
			}
			if s.Ans != nil && s.Ans.Kind == "pending" {
				// for the model the token is gone (it only chooses what to answer next)
				m.Answer(0, model.Answer{Kind: model.AnsExit})
				never := make(chan bpmn.ErrHandler)
				calls.Add(1)
				go func() { defer calls.Done(); tt.Do(bpmn.DoWithErrHandle(pendingErr{}, never)) }()
				continue
			}
			if s.Ans != nil {
				a.Kind, a.Retries = s.Ans.Kind, s.Ans.Retries
			}
			m.Answer(0, a)
			calls.Add(1)
			go func() {
				defer calls.Done()
				if a.Kind != model.AnsOK {
					drive.DoAnswer(tt, a)
				} else if a.Results != nil {
					tt.Do(bpmn.DoWithResults(a.Results))
				} else {
					tt.Do()
				}
			}()
		case "clock":
			in.Clock.Add(time.Duration(s.ClockS) * time.Second)
			if s.Ev != nil {
				m.Event(*s.Ev)
			}
		case "event":
			m.Event(*s.Ev)
			ev := drive.Signal(s.Ev.Ref)
			if s.Ev.Kind == "message" {
				ev = drive.Message(s.Ev.Ref, s.Ev.Op)
			}
			calls.Add(1)
			go func() { defer calls.Done(); in.P.ConsumeEvent(ev) }()
		}
	}
	gs, err := tr.Wait(ceiling)
	if err != nil {
		if cancelled.Load() || ((d.Split || d.SplitRun) && (cancelIdx.Load() >= 0 || k == 0)) {
			return finish("busy", "after cancel the instance's goroutines do not come to rest (spinning): "+shortBusy(err), gs)
		}
		r.Inconcl = err.Error()
		in.Cancel()
		in.CancelRun()
		return r
	}
	r.Total = in.TraceCount()
	r.Cancelled = cancelled.Load()
	if k < 0 {
		// dry run: just count, then clean up
		in.Close()
		return r
	}
	if d.SplitRun && (cancelIdx.Load() >= 0 || k == 0) {
		// the run context is gone, the construction context is not: no task
		// request may carry a live context any more
		for i, t := range in.Traces() {
			if tt, ok := t.(bpmn.TaskTrace); ok && tt.Context().Err() == nil {
				id, _ := tt.GetActivity().Element().Id()
				return finish("live-context", fmt.Sprintf("the context given to StartAll was cancelled at trace %d; the task request for %s (trace %d) carries a context that is still alive", cancelIdx.Load(), *id, i), nil)
			}
		}
	}
	if !cancelled.Load() {
		// the run ended before position k was reached: cancel now (end-of-life cancellation)
		// (split contexts: the construction context may be gone already; now the run context goes too)
		in.Cancel()
		in.CancelRun()
		cancelled.Store(true)
	}
	// (a held timer event is let through now that the contexts are gone)
	in.ReleaseIngress()
	// after cancel: WaitUntilComplete must return, tracer terminate, goroutines exit
	wres := make(chan bool, 1)
	go func() { wres <- in.P.WaitUntilComplete(context.Background()) }()
	gs, err = tr.Wait(ceiling)
	if err != nil {
		return finish("busy", "after cancel the instance's goroutines do not come to rest (spinning): "+shortBusy(err), gs)
	}
	select {
	case <-wres:
	default:
		return finish("wait-blocked", "WaitUntilComplete has not returned after cancellation although everything is parked", gs)
	}
	select {
	case <-in.P.Tracer().Done():
	default:
		if appTracer {
			break
		}
		return finish("tracer-alive", "Tracer().Done() is not closed after cancellation (a registered sender never finished or the broadcaster is blocked)", gs)
	}
	done := make(chan struct{})
	go func() { calls.Wait(); close(done) }()
	if _, err := tr.Wait(ceiling); err != nil {
		return finish("busy", shortBusy(err), nil)
	}
	select {
	case <-done:
	default:
		return finish("call-blocked", "a StartAll / Do / ConsumeEvent call issued before the cancellation has not returned", tr.Mine())
	}
	left := tr.Mine()
	if appTracer {
		// the harness's own reader of the caller's tracer lives as long as that tracer
		var eng []quiesce.G
		for _, g := range left {
			if !strings.Contains(g.Frames, "verif/harness/drive.(*Inst).reader") {
				eng = append(eng, g)
			}
		}
		left = eng
	}
	if len(left) > 0 {
		var tops []string
		for _, g := range left {
			tops = append(tops, g.State+" @ "+g.TopFunc())
		}
		sort.Strings(tops)
		return finish("leak", fmt.Sprintf("%d goroutine(s) started by the instance are still alive (parked forever) after cancellation: %s", len(left), strings.Join(tops, "; ")), left)
	}
	// task requests received after the cancellation carry a cancelled context
	ci := int(cancelIdx.Load())
	trs := in.Traces()
	for i, t := range trs {
		if tt, ok := t.(bpmn.TaskTrace); ok {
			if tt.Context().Err() == nil {
				return finish("live-context", fmt.Sprintf("task request at trace %d (cancel at %d) still has a live context after cancellation", i, ci), nil)
			}
		}
		switch t.(type) {
		case bpmn.VisitTrace, bpmn.TaskTrace:
			r.NodesStarted = true
		}
	}
	return r
}

func shortBusy(err error) string {
	s := err.Error()
	if len(s) > 1500 {
		s = s[:1500]
	}
	return s
}

func knownLeak(r *result) string {
	if r.Symptom == "leak" && rec.Known("C07-F6") && strings.Contains(r.Detail, "tracing.(*tracer).run") && !strings.Contains(r.Detail, ";") {
		return "C07-F6"
	}
	return ""
}

func one(t interface{ Fatalf(string, ...any) }, test string, d descriptor, total int) {
	hash := rec.Hash(d)
	rec.Begin(test, hash, d)
	r := run(d, d.K)
	if r.Inconcl != "" {
		rec.End(hash, "inconclusive")
		rec.Inconclusive(test, r.Inconcl)
		t.Fatalf("inconclusive: %s", r.Inconcl)
	}
	rec.End(hash, r.Symptom)
	name := "generated"
	if d.Entry >= 0 {
		name = corpus()[d.Entry].Name
	}
	nt := d.K > 0 && d.K < total && r.NodesStarted
	cls := []string{"program=" + name}
	if d.Split {
		cls = append(cls, "constructionContextCancelledFirst")
	}
	if d.SplitRun {
		cls = append(cls, "runContextCancelledFirst")
	}
	rec.Case(test, hash, nt, cls, map[string]any{"case": d, "program": name, "tracesBeforeCancelOf": total})
	if r.Symptom == "" {
		return
	}
	if k := knownLeak(r); k != "" {
		rec.KnownHit(test, k, hash)
		return
	}
	t.Fatalf("%s", rec.Fail(rec.Failure{Property: prop, Test: test, Symptom: r.Symptom, Detail: r.Detail, Descriptor: d,
		History: map[string]any{"traces": r.Traces, "program": name}, Goroutines: r.Gs}))
}

// TestC07Points: quick = rapid-drawn (program, k); thorough = every k of every corpus program.
func TestC07Points(t *testing.T) {
	var rd descriptor
	if ok, err := rec.ReplayInput(&rd); ok {
		if err != nil {
			t.Fatal(err)
		}
		fails := 0
		for i := 0; i < 5; i++ {
			r := run(rd, rd.K)
			if r.Symptom != "" && knownLeak(r) == "" || (r.Symptom != "" && strings.Contains(os.Getenv("VERIF_REPLAY"), "C07-F6")) {
				fails++
				if fails == 1 {
					fmt.Printf("REPRODUCED %s: %s\n", r.Symptom, r.Detail)
				}
			}
		}
		if fails > 0 {
			t.Fatalf("reproduced in %d of 5 runs", fails)
		}
		return
	}
	cp := corpus()
	totals := make([]int, len(cp))
	for i := range cp {
		r := run(descriptor{Entry: i}, -1)
		if r.Inconcl != "" {
			t.Fatalf("inconclusive dry run of %s: %s", cp[i].Name, r.Inconcl)
		}
		totals[i] = r.Total
	}
	if rec.Tier() == "thorough" && shardOf() == 0 {
		for i := range cp {
			for k := 0; k <= totals[i]+1; k++ {
				one(t, "TestC07Points", descriptor{Entry: i, K: k}, totals[i])
				one(t, "TestC07Points", descriptor{Entry: i, K: k, Split: true}, totals[i])
				one(t, "TestC07Points", descriptor{Entry: i, K: k, SplitRun: true}, totals[i])
			}
		}
	}
	rapid.Check(t, func(rt *rapid.T) {
		i := rapid.IntRange(0, len(cp)-1).Draw(rt, "entry")
		d := descriptor{Entry: i, K: rapid.IntRange(0, totals[i]+1).Draw(rt, "k"), Perturb: uint64(rapid.IntRange(0, 200).Draw(rt, "perturb"))}
		switch rapid.IntRange(0, 5).Draw(rt, "splitContexts") {
		case 0:
			d.Split = true
		case 1:
			d.SplitRun = true
		}
		d.AppTracer = rapid.IntRange(0, 3).Draw(rt, "appTracer") == 0
		one(rt, "TestC07Points", d, totals[i])
	})
}

// TestC07Generated: generated programs (C01 generator), random answer scripts, random k.
func TestC07Generated(t *testing.T) {
	if ok, _ := rec.ReplayInput(&struct{}{}); ok {
		t.Skip("replay through TestC07Points")
	}
	o := gen.GenOpts{MaxDepth: 3, MaxNodes: 12, NoIncNest: true, NoMMerge: true}
	rapid.Check(t, func(rt *rapid.T) {
		blk := gen.GenProgram(rt, o)
		d := descriptor{Entry: -1, Prog: blk, Perturb: uint64(rapid.IntRange(0, 200).Draw(rt, "perturb"))}
		n := rapid.IntRange(0, 8).Draw(rt, "answers")
		for i := 0; i < n; i++ {
			d.Script = append(d.Script, ans())
		}
		dry := run(d, -1)
		if dry.Inconcl != "" {
			rec.Inconclusive("TestC07Generated", dry.Inconcl)
			rt.Fatalf("inconclusive: %s", dry.Inconcl)
		}
		d.K = rapid.IntRange(0, dry.Total+1).Draw(rt, "k")
		switch rapid.IntRange(0, 5).Draw(rt, "splitContexts") {
		case 0:
			d.Split = true
		case 1:
			d.SplitRun = true
		}
		one(rt, "TestC07Generated", d, dry.Total)
	})
}

func shardOf() int {
	n, _ := strconv.Atoi(os.Getenv("VERIF_SHARD"))
	return n
}
