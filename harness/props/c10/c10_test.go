package c10

import (
	"fmt"
	"sync"
	"testing"

	bpmn "github.com/olive-io/bpmn/v2"
	"github.com/olive-io/bpmn/v2/pkg/tracing"

	"pgregory.net/rapid"

	"verif/harness/drive"
	"verif/harness/gen"
	"verif/harness/model"
	"verif/harness/perturb"
	"verif/harness/rec"
)

const prop = "C10"

type boundary struct {
	Def       gen.EventDef `json:"def"`
	Interrupt bool         `json:"interrupt"`
}

type descriptor struct {
	HostKind string       `json:"hostKind"` // a task element name, or "sub"
	PreTask  bool         `json:"preTask"`
	Bounds   []boundary   `json:"bounds"`
	Script   []drive.Stim `json:"script"`
	Perturb  uint64       `json:"perturb"`
	// Loop: the host sits in a loop (merge -> host -> normal-path task ->
	// exclusive split -> back | end) and is activated Loop more times, each
	// completing normally, before the activation in which the events arrive:
	// what was armed for an earlier activation must not react a second time
	Loop int `json:"loop,omitempty"`
	// TwoTokens (unrestricted campaign only): a parallel fork sends two tokens
	// into the host at once. The engine keeps one set of boundary listeners and
	// one gate per host NODE (finding C10-F3's root), so what it does here is
	// compared with the model of the known deviations.
	TwoTokens bool `json:"twoTokens,omitempty"`
	// IDStyle: how the ids look (gen.B.Style) - e.g. the id of another task is
	// a proper suffix of the host's id
	IDStyle int `json:"idStyle,omitempty"`
	// ExcData: the exception path touches process data: 1 = the flow leaving the
	// boundary event carries a (true) condition, 2 = an exclusive gateway with
	// conditions sits on the exception path, 3 = the exception task declares a
	// result that a gateway behind it reads
	ExcData int `json:"excData,omitempty"`
	// Timer: boundary event 0 is a timer boundary event (duration timer of 10 s
	// on a mock clock, running from the creation of the instance); "clock"
	// stimuli stand for its event
	Timer bool `json:"timer,omitempty"`
	// InSub (main campaign only): everything behind the start event sits
	// inside 1..2 nested embedded sub-processes - the host, its boundary
	// events and the exception paths are wired by the sub-process
	InSub int `json:"inSub,omitempty"`
}

type built struct {
	g      *gen.Graph
	host   string
	bounds []string
}

func build(d descriptor) *built {
	b := gen.NewBStyle(d.IDStyle)
	bt := &built{g: b.G}
	st := b.Add(gen.KStart)
	for lvl := 0; lvl < d.InSub; lvl++ {
		sp := b.Add(gen.KSub)
		oe := b.Add(gen.KEnd)
		b.Connect(st, sp)
		b.Connect(sp, oe)
		ib := b.Sub()
		sp.Inner = ib.G
		b = ib
		st = b.Add(gen.KStart)
	}
	cur := st
	if d.PreTask {
		t := b.Add(gen.KTask)
		b.Connect(cur, t)
		cur = t
	}
	var host *gen.Node
	if d.HostKind == "sub" {
		host = b.Add(gen.KSub)
		ib := b.Sub()
		host.Inner = ib.G
		is := ib.Add(gen.KStart)
		it := ib.Add(gen.KTask)
		ie := ib.Add(gen.KEnd)
		ib.Connect(is, it)
		ib.Connect(it, ie)
	} else {
		host = b.Add(gen.KTask)
		host.TaskKind = d.HostKind
	}
	bt.host = host.ID
	n := b.Add(gen.KTask)
	en := b.Add(gen.KEnd)
	if d.Loop > 0 {
		mrg := b.Add(gen.KXor)
		b.Connect(cur, mrg)
		b.Connect(mrg, host)
		b.Connect(host, n)
		n.Results = []string{"again"}
		x := b.Add(gen.KXor)
		b.Connect(n, x)
		back := b.Connect(x, mrg)
		back.Formal, back.Cond = true, gen.BoolVar("again")
		out := b.Connect(x, en)
		x.Default = out.ID
	} else {
		if d.TwoTokens {
			fork := b.Add(gen.KPar)
			b.Connect(cur, fork)
			b.Connect(fork, host)
			cur = fork
		}
		b.Connect(cur, host)
		b.Connect(host, n)
		b.Connect(n, en)
	}
	for _, bd := range d.Bounds {
		be := b.Add(gen.KBoundary)
		be.AttachedTo = host.ID
		be.CancelAct = bd.Interrupt
		be.Defs = []gen.EventDef{bd.Def}
		x := b.Add(gen.KTask)
		xe := b.Add(gen.KEnd)
		switch d.ExcData {
		case 1:
			f := b.Connect(be, x)
			f.Formal, f.Cond = true, gen.BoolVar("exc")
			b.Connect(x, xe)
		case 2:
			g := b.Add(gen.KXor)
			b.Connect(be, g)
			f := b.Connect(g, x)
			f.Formal, f.Cond = true, gen.BoolVar("exc")
			other := b.Add(gen.KEnd)
			df := b.Connect(g, other)
			g.Default = df.ID
			b.Connect(x, xe)
		case 3:
			x.Results = []string{"excDone"}
			b.Connect(be, x)
			g := b.Add(gen.KXor)
			b.Connect(x, g)
			f := b.Connect(g, xe)
			f.Formal, f.Cond = true, &gen.Cond{Op: "not", L: gen.BoolVar("excDone")}
			other := b.Add(gen.KEnd)
			df := b.Connect(g, other)
			g.Default = df.ID
		default:
			b.Connect(be, x)
			b.Connect(x, xe)
		}
		bt.bounds = append(bt.bounds, be.ID)
	}
	return bt
}

func evOf(d gen.EventDef) *model.Ev { return &model.Ev{Kind: d.Kind, Ref: d.Ref, Op: d.Op} }

// restricted: the known findings are constructed around:
//
//	C10-F1 every boundary event of the host fires (otherwise its listener keeps the instance from completing)
//	C10-F2 no interrupting boundary events
//	C10-F3 every boundary event fires at most once
func draw(rt *rapid.T) descriptor {
	exF1, exF2, exF3 := rec.Exclude("C10-F1"), rec.Exclude("C10-F2"), rec.Exclude("C10-F3")
	kinds := append([]string{"sub"}, gen.TaskKinds...)
	d := descriptor{HostKind: rapid.SampledFrom(kinds).Draw(rt, "host"), PreTask: rapid.Bool().Draw(rt, "pre"), Perturb: uint64(rapid.IntRange(0, 200).Draw(rt, "perturb")),
		IDStyle: rapid.SampledFrom([]int{0, 0, 1, 1, 2, 3}).Draw(rt, "idStyle"), ExcData: rapid.SampledFrom([]int{0, 0, 1, 2, 3}).Draw(rt, "excData")}
	nb := rapid.IntRange(1, 2).Draw(rt, "bounds")
	d.Timer = rapid.IntRange(0, 4).Draw(rt, "timerBoundary") == 0
	for i := 0; i < nb; i++ {
		def := gen.EventDef{Kind: "signal", Ref: fmt.Sprintf("s%d", i)}
		if rapid.Bool().Draw(rt, "msg") {
			def = gen.EventDef{Kind: "message", Ref: fmt.Sprintf("m%d", i)}
		}
		if d.Timer && i == 0 {
			def = gen.EventDef{Kind: "timer", TimerKind: "timeDuration", TimerExpr: "PT10S"}
		}
		intr := !exF2 && rapid.Bool().Draw(rt, "interrupt")
		d.Bounds = append(d.Bounds, boundary{Def: def, Interrupt: intr})
	}
	timerFired := false
	ev := func(i int) drive.Stim {
		if d.Bounds[i].Def.Kind == "timer" {
			// the clock reaches the due time once; later steps move it on without a firing
			if timerFired {
				return drive.Stim{Kind: "clock", ClockS: 5}
			}
			timerFired = true
			return drive.Stim{Kind: "clock", ClockS: 10, Ev: &model.Ev{Kind: "timer", Ref: d.Bounds[i].Def.TimerExpr}}
		}
		return drive.Stim{Kind: "event", Ev: evOf(d.Bounds[i].Def)}
	}
	nonMatch := drive.Stim{Kind: "event", Ev: &model.Ev{Kind: "signal", Ref: "zz"}}
	// before activation
	if d.PreTask {
		if rapid.Bool().Draw(rt, "early") {
			w := rapid.IntRange(0, nb-1).Draw(rt, "earlyWhich")
			if d.Bounds[w].Def.Kind != "timer" {
				// (a duration timer that falls due before the host is active is
				// gone for good - its listener would never fire: finding C10-F1)
				d.Script = append(d.Script, ev(w))
			}
		}
		d.Script = append(d.Script, drive.Stim{Kind: "answer"})
	}
	if d.HostKind != "sub" && !exF1 && !exF3 && rapid.IntRange(0, 3).Draw(rt, "twoTokens") == 0 {
		d.TwoTokens = true
	} else if d.HostKind != "sub" && rapid.IntRange(0, 3).Draw(rt, "loop") == 0 {
		// earlier activations of the host that complete normally, without events
		// (a sub-process entered repeatedly is finding C12-F3's pattern)
		d.Loop = rapid.IntRange(1, 2).Draw(rt, "loops")
		for i := 0; i < d.Loop; i++ {
			d.Script = append(d.Script, drive.Stim{Kind: "answer"}, drive.Stim{Kind: "answer", Ans: &model.Answer{Kind: model.AnsOK, Results: map[string]any{"again": true}}})
			if rapid.IntRange(0, 2).Draw(rt, "betweenNm") == 0 {
				d.Script = append(d.Script, nonMatch)
			}
		}
	}
	if exF1 && exF3 {
		d.InSub = rapid.SampledFrom([]int{0, 0, 1, 2}).Draw(rt, "inSub")
		// each boundary exactly once while the host waits, in a drawn order, non-matching events in between
		order := rapid.Permutation(seq(nb)).Draw(rt, "order")
		for _, i := range order {
			if rapid.IntRange(0, 3).Draw(rt, "nm") == 0 {
				d.Script = append(d.Script, nonMatch)
			}
			if rapid.IntRange(0, 2).Draw(rt, "backToBack") == 0 {
				// several non-matching events and the matching one, delivered back-to-back
				k := rapid.IntRange(2, 5).Draw(rt, "k")
				var evs []drive.Stim
				for j := 0; j < k; j++ {
					evs = append(evs, nonMatch)
				}
				pos := rapid.IntRange(0, k).Draw(rt, "pos")
				evs = append(evs[:pos], append([]drive.Stim{ev(i)}, evs[pos:]...)...)
				d.Script = append(d.Script, drive.Stim{Kind: "rapid", Burst: evs})
				continue
			}
			d.Script = append(d.Script, ev(i))
		}
	} else {
		ne := rapid.IntRange(0, 4).Draw(rt, "events")
		used := map[int]bool{}
		for k := 0; k < ne; k++ {
			if rapid.IntRange(0, 4).Draw(rt, "nm") == 0 {
				d.Script = append(d.Script, nonMatch)
				continue
			}
			i := rapid.IntRange(0, nb-1).Draw(rt, "which")
			if exF3 && used[i] {
				continue
			}
			used[i] = true
			if rapid.IntRange(0, 3).Draw(rt, "race") == 0 {
				// the event races the host's answer
				d.Script = append(d.Script, drive.Stim{Kind: "burst", Burst: []drive.Stim{ev(i), {Kind: "answer", Pick: 0}}})
			} else {
				d.Script = append(d.Script, ev(i))
			}
		}
	}
	// answers in drawn order, some late events after the host completed
	na := rapid.IntRange(1, 5).Draw(rt, "answers")
	if exF1 && exF3 {
		// answer everything (host, normal-path task, one exception task per boundary) so
		// that the late deliveries below really come after the host completed
		na = 2 + nb
	}
	for k := 0; k < na; k++ {
		d.Script = append(d.Script, drive.Stim{Kind: "answer", Pick: rapid.IntRange(0, 3).Draw(rt, "pick"), Ans: leave(d)})
	}
	if !exF3 || true {
		nl := rapid.IntRange(0, 2).Draw(rt, "late")
		for k := 0; k < nl; k++ {
			d.Script = append(d.Script, ev(rapid.IntRange(0, nb-1).Draw(rt, "lateWhich")))
		}
	}
	return d
}

func seq(n int) []int {
	out := make([]int, n)
	for i := range out {
		out[i] = i
	}
	return out
}

func vars(d descriptor) map[string]any {
	v := map[string]any{}
	if d.Loop > 0 {
		v["again"] = false
	}
	if d.ExcData > 0 {
		v["exc"], v["excDone"] = true, false
	}
	if len(v) == 0 {
		return nil
	}
	return v
}

// leave is the answer that does not send the token round the loop again
func leave(d descriptor) *model.Answer {
	if d.Loop > 0 {
		return &model.Answer{Kind: model.AnsOK, Results: map[string]any{"again": false}}
	}
	return nil
}

func run(d descriptor) (*drive.ScriptOutcome, *built) {
	bt := build(d)
	c := &drive.ScriptCase{Graph: bt.g, Lang: "expr", Vars: vars(d), Script: d.Script, Perturb: d.Perturb, Drain: true, DrainAns: leave(d), MockClock: d.Timer}
	return drive.RunScript(c), bt
}

// runAsIs runs the case against the model of the engine's KNOWN deviations
// (C10-F1/F2/F3, model.M.AsIs): a run that fails against BPMN but agrees with
// that model step by step is one of the listed findings; anything else is new.
func runAsIs(d descriptor) *drive.ScriptOutcome {
	bt := build(d)
	c := &drive.ScriptCase{Graph: bt.g, Lang: "expr", Vars: vars(d), Script: d.Script, Perturb: d.Perturb, Drain: true, DrainAns: leave(d), ModelAsIs: true, MockClock: d.Timer}
	return drive.RunScript(c)
}

// hostCancelled: "non-interrupting adds" - as long as no event of an
// INTERRUPTING boundary event has been handed to the instance, nothing may
// announce the cancellation of the host (CancellationFlowNodeTrace naming it),
// whatever non-interrupting boundary events fired.
func hostCancelled(d descriptor, out *drive.ScriptOutcome, bt *built) string {
	interrupting := func(e *model.Ev) bool {
		if e == nil {
			return false
		}
		for _, b := range d.Bounds {
			if !b.Interrupt {
				continue
			}
			if b.Def.Kind == "timer" && e.Kind == "timer" {
				return true
			}
			if b.Def.Kind == e.Kind && b.Def.Ref == e.Ref {
				return true
			}
		}
		return false
	}
	var walk func(ss []drive.Stim) bool
	walk = func(ss []drive.Stim) bool {
		for i := range ss {
			if interrupting(ss[i].Ev) || walk(ss[i].Burst) {
				return true
			}
		}
		return false
	}
	if walk(d.Script) {
		return ""
	}
	n := 0
	for _, id := range out.NodeCancels {
		if id == bt.host {
			n++
		}
	}
	if n > 0 {
		return fmt.Sprintf("no event of an interrupting boundary event was ever delivered, yet the cancellation of the host %s was announced %d time(s) (CancellationFlowNodeTrace)", bt.host, n)
	}
	return ""
}

// knownMatch: structural predicate AND symptom class.
func knownMatch(d descriptor, out *drive.ScriptOutcome, bt *built) string {
	fired := map[string]int{}
	for _, f := range out.Fired {
		fired[f]++
	}
	// model state is only available on success; derive from script instead
	matches := map[int]int{}
	for _, s := range d.Script {
		stims := []drive.Stim{s}
		if s.Kind == "burst" || s.Kind == "rapid" {
			stims = s.Burst
		}
		for _, x := range stims {
			if (x.Kind != "event" && x.Kind != "clock") || x.Ev == nil {
				continue
			}
			for i, b := range d.Bounds {
				if model.Matches(b.Def, *x.Ev) {
					matches[i]++
				}
			}
		}
	}
	anyInterrupt, anyTwice, anyNever, anyMatch := false, false, false, false
	for i, b := range d.Bounds {
		if matches[i] > 0 {
			anyMatch = true
		}
		if b.Interrupt && matches[i] > 0 {
			anyInterrupt = true
		}
		if matches[i] >= 2 {
			anyTwice = true
		}
		if matches[i] == 0 {
			anyNever = true
		}
	}
	switch out.Symptom {
	case "not-complete":
		// a listener that never fired (or fired too late/early to be consumed) keeps the instance alive
		if rec.Known("C10-F1") {
			return "C10-F1"
		}
	case "requests":
		if anyInterrupt && rec.Known("C10-F2") {
			return "C10-F2"
		}
		if (anyTwice || (d.TwoTokens && anyMatch)) && rec.Known("C10-F3") {
			return "C10-F3"
		}
	}
	_ = anyNever
	return ""
}

func classify(d descriptor, out *drive.ScriptOutcome) (cls []string, nt bool) {
	events := 0
	for _, s := range d.Script {
		if s.Kind == "event" {
			events++
		}
		if s.Kind == "burst" {
			events++
			cls = append(cls, "eventRacesAnswer")
		}
		if s.Kind == "rapid" {
			events += len(s.Burst)
			cls = append(cls, "backToBack")
		}
	}
	cls = append(cls, "host="+d.HostKind, fmt.Sprintf("bounds=%d", len(d.Bounds)))
	if d.Loop > 0 {
		cls = append(cls, "hostActivatedBefore")
	}
	if d.TwoTokens {
		cls = append(cls, "twoTokensInHost")
	}
	if d.ExcData > 0 {
		cls = append(cls, "exceptionPathReadsData")
	}
	if d.Timer {
		cls = append(cls, "timerBoundaryEvent")
	}
	if d.InSub > 0 {
		cls = append(cls, "insideSubProcess")
	}
	for _, b := range d.Bounds {
		if b.Interrupt {
			cls = append(cls, "interrupting")
		} else {
			cls = append(cls, "nonInterrupting")
		}
	}
	fired := 0
	if out != nil {
		fired = len(out.Fired)
	}
	if fired > 0 {
		cls = append(cls, "boundaryFired")
	}
	nt = fired >= 1 || events >= 2
	return
}

func TestC10Boundary(t *testing.T) {
	var rd descriptor
	if ok, err := rec.ReplayInput(&rd); ok {
		if err != nil {
			t.Fatal(err)
		}
		fails := 0
		for i := 0; i < 10; i++ {
			out, bt := run(rd)
			if msg := hostCancelled(rd, out, bt); msg != "" {
				out.Symptom, out.Detail = "host-cancelled", msg
			}
			if out.Symptom != "" {
				fails++
				if fails == 1 {
					fmt.Printf("REPRODUCED %s: %s\n", out.Symptom, out.Detail)
				}
			}
		}
		if fails > 0 {
			t.Fatalf("reproduced in %d of 10 runs", fails)
		}
		return
	}
	rapid.Check(t, func(rt *rapid.T) {
		d := draw(rt)
		hash := rec.Hash(d)
		rec.Begin("TestC10Boundary", hash, d)
		out, bt := run(d)
		if out.Inconcl != "" {
			rec.End(hash, "inconclusive")
			rec.Inconclusive("TestC10Boundary", out.Inconcl)
			rt.Fatalf("inconclusive: %s", out.Inconcl)
		}
		if msg := hostCancelled(d, out, bt); msg != "" {
			// (an observable of its own: judged whatever else the run shows,
			// also when the rest is a listed finding)
			if out.Symptom != "" {
				msg += " | besides: " + out.Symptom + ": " + out.Detail
			}
			out.Symptom, out.Detail = "host-cancelled", msg
		}
		rec.End(hash, out.Symptom)
		cls, nt := classify(d, out)
		rec.Case("TestC10Boundary", hash, nt, cls, map[string]any{"case": d, "steps": out.Steps})
		if out.Symptom == "" {
			return
		}
		if rec.Unrestricted() && out.Symptom != "host-cancelled" {
			if k := knownMatch(d, out, bt); k != "" {
				// structural predicate and symptom class match a listed finding:
				// it is that finding only if the engine does exactly what the
				// finding says it does (and nothing else differs)
				asIs := runAsIs(d)
				if asIs.Inconcl != "" {
					rec.Inconclusive("TestC10Boundary", asIs.Inconcl)
					rt.Fatalf("inconclusive: %s", asIs.Inconcl)
				}
				if asIs.Symptom == "" {
					rec.KnownHit("TestC10Boundary", k, hash)
					return
				}
				out.Detail = fmt.Sprintf("%s | and it is not the listed deviation either (model of C10-F1/F2/F3): %s: %s", out.Detail, asIs.Symptom, asIs.Detail)
			}
		}
		rt.Fatalf("%s", rec.Fail(rec.Failure{Property: prop, Test: "TestC10Boundary", Symptom: out.Symptom, Detail: out.Detail, Descriptor: d,
			History: map[string]any{"steps": out.Steps, "traces": out.Traces, "xml": out.XML}, Goroutines: out.Gs}))
	})
}

// ---------------------------------------------------------------------------
// TestC10LateEvent: the host's boundary event is delivered at the earliest
// moment at which the activity is observably complete - when the subscriber
// receives the host's ActiveBoundaryTrace{Start:false} - and must not react.
// (The engine clears the host's "active" gate before it sends that trace, so
// on conforming code the delivery, which starts after the trace was received,
// always finds the gate closed: the oracle does not depend on timing.)

type lateDesc struct {
	HostKind  string `json:"hostKind"`
	Interrupt bool   `json:"interrupt"`
	Message   bool   `json:"message"`
	Perturb   uint64 `json:"perturb"`
}

func runLate(d lateDesc) (sym, det, inconcl string) {
	def := gen.EventDef{Kind: "signal", Ref: "s0"}
	if d.Message {
		def = gen.EventDef{Kind: "message", Ref: "m0"}
	}
	bt := build(descriptor{HostKind: d.HostKind, Bounds: []boundary{{Def: def, Interrupt: d.Interrupt}}})
	prog := &gen.Program{G: bt.g, DefaultLang: "expr"}
	if d.Perturb != 0 {
		perturb.Install(d.Perturb, 60, map[string]bool{"tracer.send": true})
		defer perturb.Remove()
	}
	in, err := drive.New(prog.XML(), drive.Options{})
	if err != nil {
		return "construct", err.Error(), ""
	}
	defer in.Close()
	ev := drive.Signal("s0")
	if d.Message {
		ev = drive.Message("m0", "")
	}
	var fired sync.WaitGroup
	delivered := false
	in.OnTrace = func(idx int, t tracing.ITrace) {
		if ab, ok := t.(bpmn.ActiveBoundaryTrace); ok && !ab.Start && !delivered {
			if id, present := ab.Node.Id(); present && *id == bt.host {
				delivered = true
				fired.Add(1)
				go func() { defer fired.Done(); in.P.ConsumeEvent(ev) }()
			}
		}
	}
	if err := in.StartAll(); err != nil {
		return "start", err.Error(), ""
	}
	if _, err := in.Quiesce(); err != nil {
		return "", "", err.Error()
	}
	tts := in.NewTasks()
	if len(tts) != 1 {
		return "requests", fmt.Sprintf("%d requests after start", len(tts)), ""
	}
	// (sub-process host: the single request is the inner task)
	tts[0].Do()
	if _, err := in.Quiesce(); err != nil {
		return "", "", err.Error()
	}
	fired.Wait()
	if _, err := in.Quiesce(); err != nil {
		return "", "", err.Error()
	}
	if !delivered {
		return "harness", "the host's ActiveBoundaryTrace{Start:false} was never seen", ""
	}
	var ids []string
	for _, tt := range in.NewTasks() {
		id, _ := tt.GetActivity().Element().Id()
		ids = append(ids, *id)
	}
	if len(ids) != 1 {
		return "late-reaction", fmt.Sprintf("event delivered after the host's ActiveBoundaryTrace{Start:false} was received: requests %v, want only the normal-path task (the boundary event reacted after the activity completed)", ids), ""
	}
	return "", "", ""
}

func TestC10LateEvent(t *testing.T) {
	var rd lateDesc
	if ok, err := rec.ReplayInput(&rd); ok {
		if err != nil {
			t.Fatal(err)
		}
		if rd.HostKind == "" {
			return
		}
		fails := 0
		for i := 0; i < 50; i++ {
			if sym, det, _ := runLate(rd); sym != "" {
				fails++
				if fails == 1 {
					fmt.Printf("REPRODUCED %s: %s\n", sym, det)
				}
			}
		}
		if fails > 0 {
			t.Fatalf("reproduced in %d of 50 runs", fails)
		}
		return
	}
	rapid.Check(t, func(rt *rapid.T) {
		kinds := append([]string{"sub"}, gen.TaskKinds...)
		d := lateDesc{HostKind: rapid.SampledFrom(kinds).Draw(rt, "host"), Interrupt: rapid.Bool().Draw(rt, "interrupt"), Message: rapid.Bool().Draw(rt, "message"),
			Perturb: uint64(rapid.IntRange(0, 400).Draw(rt, "perturb"))}
		hash := rec.Hash(d)
		rec.Begin("TestC10LateEvent", hash, d)
		sym, det, inc := runLate(d)
		if inc != "" {
			rec.End(hash, "inconclusive")
			rec.Inconclusive("TestC10LateEvent", inc)
			rt.Fatalf("inconclusive: %s", inc)
		}
		rec.End(hash, sym)
		rec.Case("TestC10LateEvent", hash, true, []string{"lateEvent", "host=" + d.HostKind}, d)
		if sym != "" {
			rt.Fatalf("%s", rec.Fail(rec.Failure{Property: prop, Test: "TestC10LateEvent", Symptom: sym, Detail: det, Descriptor: d}))
		}
	})
}
