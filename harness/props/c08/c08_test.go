package c08

import (
	"context"
	"fmt"
	"reflect"
	"sort"
	"strings"
	"sync"
	"testing"

	bpmn "github.com/olive-io/bpmn/v2"
	"github.com/olive-io/bpmn/v2/pkg/data"
	"pgregory.net/rapid"

	"verif/harness/drive"
	"verif/harness/gen"
	"verif/harness/perturb"
	"verif/harness/quiesce"
	"verif/harness/rec"
)

const prop = "C08"

// doCall is one TaskTrace.Do invocation.
type doCall struct {
	Kind       string `json:"kind"` // ok err skip exit retry
	Sel        int64  `json:"sel"`  // value written to result "sel" (ok only), 1 or 2
	X          int64  `json:"x"`    // value written to result "x"
	Undeclared bool   `json:"undeclared"`
	Retries    int    `json:"retries"`
	Objects    bool   `json:"objects"` // also pass data objects (declared "out", undeclared "zzobj")
	// F: value written to the float result "fr" (declared iff descriptor.FloatRes)
	F float64 `json:"f,omitempty"`
	// OmitX: the answer leaves result "x" out although other results are supplied:
	// the variable keeps the value it has
	OmitX bool `json:"omitX,omitempty"`
	// Overridden (kind err only): the option list first names a handler
	// (DoWithErrHandle with another error; its channel delivers 1 = exit, 2 =
	// retry twice, 3 = never anything) and THEN DoWithErr: options apply in
	// order, the later one replaces the earlier - an error without a handler
	Overridden int `json:"overridden,omitempty"`
	// Late (skip / exit / retry, first call of a sequential attempt only): the
	// handler's decision is supplied only when the instance is quiescent after
	// the Do call - by then the error trace of the answer must be there (it is
	// what the one who decides reacts to)
	Late bool `json:"late,omitempty"`
}

// attempt is the history of Do calls for one request of the activity.
type attempt struct {
	Calls      []doCall `json:"calls"`
	Concurrent bool     `json:"concurrent"`
}

type descriptor struct {
	TaskKind string    `json:"taskKind"`
	Declared []string  `json:"declared"` // subset of sel, x
	DeclOut  bool      `json:"declOut"`  // data output "out" declared
	Attempts []attempt `json:"attempts"` // per request of A (last repeats)
	Second   []attempt `json:"second"`   // histories for the downstream task (error modes there too)
	Perturb  uint64    `json:"perturb"`  // schedule perturbation seed (0 = off)
	// DeadEnd: the activity has NO outgoing sequence flow (implicit end of the
	// token, legal BPMN): the answer must still be stored / reported / retried
	DeadEnd bool `json:"deadEnd,omitempty"`
	// LoopBack: the branch taken for sel==2 leads back to the activity, which
	// is then requested again - with task inputs (olive properties resolved
	// from the variables) that show what the previous answer stored
	LoopBack bool `json:"loopBack,omitempty"`
	// FloatRes: the activity also declares the float result "fr"
	FloatRes bool `json:"floatRes,omitempty"`
	// Place: 0 = everything at process level; 1 / 2 = the activity sits inside
	// one / two nested embedded sub-processes, the gateway and the downstream
	// tasks that read what it stored sit outside; 3 = the activity sits at
	// process level, the gateway and the downstream tasks inside a sub-process
	Place int `json:"place,omitempty"`
	// Direct: no gateway - the three conditional flows (sel == 1, sel == 2,
	// neither) leave the activity itself: their conditions read what the
	// activity's own answer has just stored
	Direct bool `json:"direct,omitempty"`
}

type built struct {
	prog *gen.Program
	A    string
	B    [3]string // branch tasks: default, sel==1, sel==2
}

func build(d descriptor) *built {
	b := gen.NewB()
	st := b.Add(gen.KStart)
	// prev: the node the token continues from after the activity, in builder b
	var after *gen.Node
	outer := b
	if d.Place == 1 || d.Place == 2 {
		for lvl := 0; lvl < d.Place; lvl++ {
			sp := b.Add(gen.KSub)
			b.Connect(st, sp)
			if lvl == 0 {
				after = sp
			} else {
				en := b.Add(gen.KEnd)
				b.Connect(sp, en)
			}
			ib := b.Sub()
			sp.Inner = ib.G
			b = ib
			st = b.Add(gen.KStart)
		}
	}
	a := b.Add(gen.KTask)
	a.TaskKind = d.TaskKind
	a.Results = append([]string(nil), d.Declared...)
	if d.FloatRes {
		a.Results = append(a.Results, "fr")
	}
	a.Props = []string{"x:integer", "sel:integer"}
	if d.DeclOut {
		a.DataOutputs = []string{"out"}
	}
	b.Connect(st, a)
	bt := &built{A: a.ID}
	if d.DeadEnd {
		bt.prog = &gen.Program{G: b.G, DefaultLang: "expr"}
		return bt
	}
	if after != nil {
		// the activity ends its sub-process(es); the readers follow outside
		en := b.Add(gen.KEnd)
		b.Connect(a, en)
		b = outer
	} else {
		after = a
	}
	if d.Place == 3 {
		sp := b.Add(gen.KSub)
		b.Connect(after, sp)
		en := b.Add(gen.KEnd)
		b.Connect(sp, en)
		ib := b.Sub()
		sp.Inner = ib.G
		b = ib
		after = b.Add(gen.KStart)
	}
	x := b.Add(gen.KXor)
	if d.Direct && d.Place == 0 && !d.LoopBack {
		// (the gateway node is dropped again: the flows start at the activity)
		b.G.Nodes = b.G.Nodes[:len(b.G.Nodes)-1]
		x = after
	} else {
		b.Connect(after, x)
	}
	for i := 0; i < 3; i++ {
		if d.LoopBack && i == 2 {
			f := b.Connect(x, a)
			f.Cond = &gen.Cond{Op: "eq", Var: "sel", K: 2}
			f.Formal = true
			bt.B[i] = a.ID
			continue
		}
		t := b.Add(gen.KTask)
		t.Props = []string{"x:integer", "sel:integer"}
		en := b.Add(gen.KEnd)
		f := b.Connect(x, t)
		b.Connect(t, en)
		bt.B[i] = t.ID
		if i == 0 && x != after {
			x.Default = f.ID
		} else if i == 0 {
			f.Cond = &gen.Cond{Op: "and", L: &gen.Cond{Op: "ne", Var: "sel", K: 1}, R: &gen.Cond{Op: "ne", Var: "sel", K: 2}}
			f.Formal = true
		} else {
			f.Cond = &gen.Cond{Op: "eq", Var: "sel", K: int64(i)}
			f.Formal = true
		}
	}
	bt.prog = &gen.Program{G: outer.G, DefaultLang: "expr"}
	return bt
}

type planErr struct{}

func (planErr) Error() string { return "planned failure" }

type overriddenErr struct{}

func (overriddenErr) Error() string { return "an earlier option, replaced by a later one" }

func (c doCall) options() []bpmn.DoOption {
	opts, decide := c.optionsLate(false)
	_ = decide
	return opts
}

// optionsLate: with late set the handler channel of a skip / exit / retry
// answer is left empty; decide supplies the decision.
func (c doCall) optionsLate(late bool) (opts []bpmn.DoOption, decide func()) {
	decide = func() {}
	res := map[string]any{}
	if c.Kind == "ok" {
		res["sel"] = c.Sel
		if !c.OmitX {
			res["x"] = c.X
		}
		res["fr"] = c.F
		if c.Undeclared {
			res["zz_undeclared"] = int64(99)
		}
		opts = append(opts, bpmn.DoWithResults(res))
		if c.Objects {
			opts = append(opts, bpmn.DoWithObjects(map[string]any{"out": c.X, "zzobj": int64(5)}))
		}
		return opts, decide
	}
	switch c.Kind {
	case "err":
		if c.Overridden > 0 {
			ch := make(chan bpmn.ErrHandler, 1)
			switch c.Overridden {
			case 1:
				ch <- bpmn.ErrHandler{Mode: bpmn.ExitMode}
			case 2:
				ch <- bpmn.ErrHandler{Mode: bpmn.RetryMode, Retries: 2}
			}
			opts = append(opts, bpmn.DoWithErrHandle(overriddenErr{}, ch))
		}
		opts = append(opts, bpmn.DoWithErr(planErr{}))
	default:
		ch := make(chan bpmn.ErrHandler, 1)
		fill := func() {
			switch c.Kind {
			case "skip":
				ch <- bpmn.ErrHandler{Mode: bpmn.SkipMode}
			case "exit":
				ch <- bpmn.ErrHandler{Mode: bpmn.ExitMode}
			case "retry":
				ch <- bpmn.ErrHandler{Mode: bpmn.RetryMode, Retries: int32(c.Retries)}
			}
		}
		if late {
			decide = fill
		} else {
			fill()
		}
		opts = append(opts, bpmn.DoWithErrHandle(planErr{}, ch))
	}
	return opts, decide
}

// state is the model's view after some attempts.
type state struct {
	vars      map[string]any
	objs      map[string]any
	errors    int
	rerequest int // re-requests made so far for this token
}

func (s state) clone() state {
	n := state{vars: map[string]any{}, objs: map[string]any{}, errors: s.errors, rerequest: s.rerequest}
	for k, v := range s.vars {
		n.vars[k] = v
	}
	for k, v := range s.objs {
		n.objs[k] = v
	}
	return n
}

// outcome of applying one effective call: next = "again" | "branch:<id>" | "stop"
func apply(d descriptor, bt *built, s state, c doCall) (state, string) {
	n := s.clone()
	declared := func(name string) bool {
		for _, x := range d.Declared {
			if x == name {
				return true
			}
		}
		return false
	}
	branch := func(st state) string {
		sel, _ := st.vars["sel"].(int64)
		if sel == 2 && d.LoopBack && !d.DeadEnd {
			return "again"
		}
		if sel == 1 || sel == 2 {
			return "branch:" + bt.B[sel]
		}
		return "branch:" + bt.B[0]
	}
	switch c.Kind {
	case "ok":
		if declared("sel") {
			n.vars["sel"] = c.Sel
		}
		if declared("x") && !c.OmitX {
			n.vars["x"] = c.X
		}
		if d.FloatRes {
			n.vars["fr"] = c.F
		}
		if c.Objects && d.DeclOut {
			n.objs["out"] = c.X
		}
		return n, branch(n)
	case "err", "skip":
		n.errors++
		return n, branch(n)
	case "exit":
		n.errors++
		return n, "stop"
	case "retry":
		n.errors++
		if n.rerequest < c.Retries {
			n.rerequest++
			return n, "again"
		}
		return n, "stop"
	}
	return n, "stop"
}

type result struct {
	Symptom, Detail string
	History         []string
	Traces          []string
	Gs              string
	Inconcl         string
	XML             string
	MaxCalls        int
	Late            bool
	ErrModes        int
}

func taskIDs(tts []bpmn.TaskTrace) []string {
	var out []string
	for _, tt := range tts {
		id, _ := tt.GetActivity().Element().Id()
		out = append(out, *id)
	}
	sort.Strings(out)
	return out
}

func runCase(d descriptor) *result {
	bt := build(d)
	r := &result{XML: bt.prog.XML()}
	if d.Perturb != 0 {
		perturb.Install(d.Perturb, 70, map[string]bool{"task.do": true})
		defer perturb.Remove()
	}
	in, err := drive.New(r.XML, drive.Options{Vars: map[string]any{"sel": int64(0), "x": int64(0), "fr": float64(0.5)}})
	if err != nil {
		r.Symptom, r.Detail = "construct", err.Error()
		return r
	}
	defer in.Close()
	fail := func(sym, det string, gs []quiesce.G) *result {
		r.Symptom, r.Detail = sym, det
		r.Traces = drive.DescribeAll(in.Traces())
		if gs != nil {
			r.Gs = quiesce.Dump(gs)
		}
		return r
	}
	if err := in.StartAll(); err != nil {
		return fail("start-error", err.Error(), nil)
	}
	if _, err := in.Quiesce(); err != nil {
		r.Inconcl = err.Error()
		return r
	}
	st := state{vars: map[string]any{"sel": int64(0), "x": int64(0), "fr": float64(0.5)}, objs: map[string]any{}}
	cur := in.NewTasks()
	if !reflect.DeepEqual(taskIDs(cur), []string{bt.A}) {
		return fail("first-request", fmt.Sprintf("requests after start %v, want [%s]", taskIDs(cur), bt.A), nil)
	}
	// task inputs: the olive properties "x" and "sel" have no value of their
	// own and are resolved from the variables at the moment of each request
	checkInputs := func(tts []bpmn.TaskTrace, vars map[string]any, stage string) *result {
		for _, tt := range tts {
			props := tt.GetProperties()
			for _, name := range []string{"x", "sel"} {
				it, ok := props[name]
				if !ok || it == nil {
					return fail("inputs", fmt.Sprintf("%s: request of %v carries no property %q", stage, taskIDs([]bpmn.TaskTrace{tt}), name), nil)
				}
				if fmt.Sprint(it.Value()) != fmt.Sprint(vars[name]) {
					return fail("inputs", fmt.Sprintf("%s: request of %v carries property %s=%v, the variable is %v (inputs are resolved when the task is requested)", stage, taskIDs([]bpmn.TaskTrace{tt}), name, it.Value(), vars[name]), nil)
				}
			}
		}
		return nil
	}
	if r := checkInputs(cur, st.vars, "first request"); r != nil {
		return r
	}
	requestsOfA := 1
	next := ""
	for ai := 0; ; ai++ {
		att := d.Attempts[len(d.Attempts)-1]
		if ai < len(d.Attempts) {
			att = d.Attempts[ai]
		}
		if ai > 8 {
			r.Inconcl = "more than 8 attempts"
			return r
		}
		tt := cur[0]
		if len(att.Calls) > r.MaxCalls {
			r.MaxCalls = len(att.Calls)
		}
		// issue the Do calls
		returned := make([]chan struct{}, len(att.Calls))
		for i := range returned {
			returned[i] = make(chan struct{})
		}
		if att.Concurrent {
			var start sync.WaitGroup
			start.Add(1)
			for i, c := range att.Calls {
				go func(i int, c doCall) {
					opts := c.options()
					start.Wait()
					tt.Do(opts...)
					close(returned[i])
				}(i, c)
			}
			start.Done()
		} else {
			for i, c := range att.Calls {
				late := i == 0 && c.Late && (c.Kind == "skip" || c.Kind == "exit" || c.Kind == "retry")
				opts, decide := c.optionsLate(late)
				before := errorsOf(in, bt.A)
				go func(i int) {
					tt.Do(opts...)
					close(returned[i])
				}(i)
				// sequential: wait until this call returned (or is provably blocked)
				gs, err := in.Quiesce()
				if err != nil {
					r.Inconcl = err.Error()
					return r
				}
				if late {
					r.Late = true
					if now := errorsOf(in, bt.A); now != before+1 {
						return fail("late-decision", fmt.Sprintf("attempt %d: the task was answered with an error and a handler whose decision has not been supplied yet; the instance is quiescent and %d error trace(s) for the task have appeared since the answer, want 1 (the answer emits the error trace, the decision comes after it)", ai, now-before), gs)
					}
					decide()
					if _, err := in.Quiesce(); err != nil {
						r.Inconcl = err.Error()
						return r
					}
				}
			}
		}
		gs, err := in.Quiesce()
		if err != nil {
			r.Inconcl = err.Error()
			return r
		}
		r.History = append(r.History, fmt.Sprintf("attempt %d concurrent=%v calls=%+v", ai, att.Concurrent, att.Calls))
		for i := range returned {
			select {
			case <-returned[i]:
			default:
				return fail("do-blocked", fmt.Sprintf("attempt %d: Do call #%d (%s) has not returned although the instance is quiescent", ai, i, att.Calls[i].Kind), gs)
			}
		}
		// candidates: sequential -> first call; concurrent -> any call
		cands := att.Calls[:1]
		if att.Concurrent {
			cands = att.Calls
		}
		got := in.NewTasks()
		gotIDs := taskIDs(got)
		gotVars := map[string]any{}
		for k, it := range in.P.Locator().CloneVariables() {
			gotVars[k] = it.Value()
		}
		gotObjs := map[string]any{}
		for k, it := range in.P.Locator().CloneItems(data.LocatorObject) {
			gotObjs[k] = it.Value()
		}
		errCount := 0
		var otherErrs []string
		for _, t := range in.Traces() {
			if et, ok := t.(bpmn.ErrorTrace); ok {
				c := drive.ClassifyError(et.Error)
				if c == "task:"+bt.A {
					errCount++
				} else {
					otherErrs = append(otherErrs, c)
				}
			}
		}
		if len(otherErrs) > 0 {
			return fail("unexpected-error", fmt.Sprintf("%v", otherErrs), gs)
		}
		matched := false
		var why []string
		for _, c := range cands {
			ns, nx := apply(d, bt, st, c)
			var wantIDs []string
			switch {
			case nx == "again":
				wantIDs = []string{bt.A}
			case strings.HasPrefix(nx, "branch:") && !d.DeadEnd:
				wantIDs = []string{strings.TrimPrefix(nx, "branch:")}
			}
			if reflect.DeepEqual(gotIDs, wantIDs) && reflect.DeepEqual(gotVars, ns.vars) && errCount == ns.errors && reflect.DeepEqual(gotObjs, ns.objs) {
				matched = true
				st = ns
				next = nx
				if c.Kind != "ok" {
					r.ErrModes++
				}
				break
			}
			why = append(why, fmt.Sprintf("if %s(sel=%d) took effect: requests %v vars %v objects %v errorTraces %d", c.Kind, c.Sel, wantIDs, ns.vars, ns.objs, ns.errors))
		}
		if !matched {
			return fail("effect", fmt.Sprintf("attempt %d (%d Do calls, concurrent=%v): observed requests %v vars %v objects %v errorTraces %d; allowed: %s",
				ai, len(att.Calls), att.Concurrent, gotIDs, gotVars, gotObjs, errCount, strings.Join(why, " | ")), gs)
		}
		if r := checkInputs(got, st.vars, fmt.Sprintf("after attempt %d", ai)); r != nil {
			return r
		}
		if next == "again" {
			cur = got
			requestsOfA++
			continue
		}
		// error trace must precede the continuation
		break
	}
	// order: every ErrorTrace of A precedes the first downstream task trace
	seenDown := false
	for _, t := range in.Traces() {
		switch tr := t.(type) {
		case bpmn.TaskTrace:
			id, _ := tr.GetActivity().Element().Id()
			if *id != bt.A {
				seenDown = true
			}
		case bpmn.ErrorTrace:
			if seenDown {
				return fail("error-order", "an ErrorTrace of the activity follows the downstream request", nil)
			}
		}
	}
	// downstream task: answer it (possibly with error modes) and expect completion
	if strings.HasPrefix(next, "branch:") && !d.DeadEnd {
		id := strings.TrimPrefix(next, "branch:")
		_ = id
		// the downstream request was returned by NewTasks in the loop; fetch via traces
		var down bpmn.TaskTrace
		for _, t := range in.Traces() {
			if tt, ok := t.(bpmn.TaskTrace); ok {
				tid, _ := tt.GetActivity().Element().Id()
				if *tid == id {
					down = tt
				}
			}
		}
		if down == nil {
			return fail("effect", "downstream request vanished", nil)
		}
		st2 := state{vars: st.vars, objs: st.objs}
		curDown := down
		for ai := 0; ai < 6; ai++ {
			att := attempt{Calls: []doCall{{Kind: "ok"}}}
			if len(d.Second) > 0 {
				att = d.Second[len(d.Second)-1]
				if ai < len(d.Second) {
					att = d.Second[ai]
				}
			}
			c := att.Calls[0]
			done := make(chan struct{})
			go func() { curDown.Do(c.options()...); close(done) }()
			gs, err := in.Quiesce()
			if err != nil {
				r.Inconcl = err.Error()
				return r
			}
			select {
			case <-done:
			default:
				return fail("do-blocked", "Do on the downstream task has not returned at quiescence", gs)
			}
			got := in.NewTasks()
			// retry budget is per token: the downstream task shares it ("at most")
			if c.Kind == "retry" {
				if len(got) == 1 {
					st2.rerequest++
					used := st.rerequest
					if d.Place == 3 {
						// inside the sub-process the downstream task is run by the
						// sub-process's own token, with a budget of its own
						used = 0
					}
					if st2.rerequest+used > c.Retries {
						return fail("retry-bound", fmt.Sprintf("downstream task re-requested %d times with retries=%d (token already used %d)", st2.rerequest, c.Retries, st.rerequest), gs)
					}
					curDown = got[0]
					continue
				}
			}
			if len(got) != 0 {
				return fail("effect", fmt.Sprintf("unexpected requests after the downstream answer: %v", taskIDs(got)), gs)
			}
			break
		}
	}
	// the instance completes in every case (exit / exhausted retry / normal end)
	wctx, cancel := context.WithCancel(context.Background())
	res := make(chan bool, 1)
	go func() { res <- in.P.WaitUntilComplete(wctx) }()
	gs, err := in.Quiesce()
	if err != nil {
		cancel()
		r.Inconcl = err.Error()
		return r
	}
	ok := false
	select {
	case ok = <-res:
	default:
	}
	cancel()
	if !ok {
		return fail("not-complete", "the instance does not complete after the last answer", gs)
	}
	if more := in.NewTasks(); len(more) > 0 {
		return fail("effect", fmt.Sprintf("requests after completion: %v", taskIDs(more)), gs)
	}
	_ = requestsOfA
	return r
}

// errorsOf counts the error traces of task a seen so far.
func errorsOf(in *drive.Inst, a string) int {
	n := 0
	for _, t := range in.Traces() {
		if et, ok := t.(bpmn.ErrorTrace); ok && drive.ClassifyError(et.Error) == "task:"+a {
			n++
		}
	}
	return n
}

func drawCall(rt *rapid.T, allowRetry bool) doCall {
	kinds := []string{"ok", "ok", "ok", "err", "skip", "exit"}
	if allowRetry {
		kinds = append(kinds, "retry", "retry")
	}
	return doCall{Kind: rapid.SampledFrom(kinds).Draw(rt, "kind"), Sel: int64(rapid.IntRange(1, 2).Draw(rt, "sel")), X: int64(rapid.IntRange(3, 9).Draw(rt, "x")),
		Undeclared: rapid.Bool().Draw(rt, "undeclared"), Retries: rapid.IntRange(0, 3).Draw(rt, "retries"), Objects: rapid.Bool().Draw(rt, "objects"),
		F:     rapid.SampledFrom([]float64{1.5, -0.25, 2.5e-7, 0.7500004, 1e21, 123456789.123456789, 5e-324, -3}).Draw(rt, "f"),
		OmitX: rapid.IntRange(0, 3).Draw(rt, "omitX") == 0, Overridden: rapid.SampledFrom([]int{0, 0, 1, 2, 3}).Draw(rt, "overridden"),
		Late: rapid.IntRange(0, 2).Draw(rt, "late") == 0}
}

func drawDescriptor(rt *rapid.T) descriptor {
	d := descriptor{TaskKind: rapid.SampledFrom(gen.TaskKinds).Draw(rt, "taskKind"), DeclOut: rapid.Bool().Draw(rt, "declOut"), FloatRes: rapid.Bool().Draw(rt, "floatRes")}
	switch rapid.IntRange(0, 3).Draw(rt, "declared") {
	case 0:
		d.Declared = []string{"sel", "x"}
	case 1:
		d.Declared = []string{"sel"}
	case 2:
		d.Declared = []string{"x"}
	default:
		d.Declared = nil
	}
	maxConc := 3
	if rec.Exclude("C08-F1") {
		maxConc = 2
	}
	na := rapid.IntRange(1, 4).Draw(rt, "attempts")
	for i := 0; i < na; i++ {
		a := attempt{Concurrent: rapid.Bool().Draw(rt, "concurrent")}
		nc := rapid.IntRange(1, 3).Draw(rt, "calls")
		if a.Concurrent && nc > maxConc {
			nc = maxConc
		}
		for j := 0; j < nc; j++ {
			c := drawCall(rt, true)
			if a.Concurrent {
				// distinguishable payloads
				c.Sel = int64(1 + j%2)
				c.X = int64(10*(j+1)) + c.X
			}
			a.Calls = append(a.Calls, c)
		}
		d.Attempts = append(d.Attempts, a)
	}
	// the last attempt must not loop forever: force its calls to a terminating kind
	last := &d.Attempts[len(d.Attempts)-1]
	for j := range last.Calls {
		if last.Calls[j].Kind == "retry" {
			last.Calls[j].Retries = 0
		}
	}
	d.Perturb = uint64(rapid.IntRange(0, 1000).Draw(rt, "perturb"))
	d.DeadEnd = rapid.IntRange(0, 4).Draw(rt, "deadEnd") == 0
	if !d.DeadEnd && rapid.IntRange(0, 2).Draw(rt, "loopBack") == 0 {
		// the activity is re-entered through the gateway: no retry answers
		// (their budget is per token, across visits), and the last attempt leaves the loop
		d.LoopBack = true
		for i := range d.Attempts {
			for j := range d.Attempts[i].Calls {
				if d.Attempts[i].Calls[j].Kind == "retry" {
					d.Attempts[i].Calls[j].Kind = "ok"
				}
			}
		}
		l := &d.Attempts[len(d.Attempts)-1]
		for j := range l.Calls {
			l.Calls[j].Kind, l.Calls[j].Sel = "ok", 1
		}
		if len(d.Declared) == 0 || d.Declared[0] != "sel" {
			d.Declared = append([]string{"sel"}, d.Declared...)
		}
	}
	if !d.DeadEnd && !d.LoopBack {
		d.Direct = rapid.IntRange(0, 3).Draw(rt, "direct") == 0
		// a third of the plain shapes put a sub-process boundary between the
		// activity that stores the results and the condition / tasks reading them
		d.Place = rapid.SampledFrom([]int{0, 0, 0, 0, 1, 2, 3, 3}).Draw(rt, "place")
		if d.Direct {
			d.Place = 0
		}
		if d.Place == 1 || d.Place == 2 {
			// inside a sub-process a token that stops (exit, exhausted retries)
			// completes the sub-process and the outer token continues: another
			// story than the one this check tells - such answers become skip / err
			for i := range d.Attempts {
				for j := range d.Attempts[i].Calls {
					switch d.Attempts[i].Calls[j].Kind {
					case "exit":
						d.Attempts[i].Calls[j].Kind = "skip"
					case "retry":
						d.Attempts[i].Calls[j].Kind = "err"
					}
				}
			}
		}
	}
	ns := rapid.IntRange(0, 2).Draw(rt, "secondAttempts")
	if d.DeadEnd {
		ns = 0
	}
	for i := 0; i < ns; i++ {
		c := drawCall(rt, true)
		d.Second = append(d.Second, attempt{Calls: []doCall{c}})
	}
	if len(d.Second) > 0 {
		l := &d.Second[len(d.Second)-1]
		if l.Calls[0].Kind == "retry" {
			l.Calls[0].Retries = 0
		}
	}
	return d
}

func nontrivial(d descriptor) bool {
	for _, a := range d.Attempts {
		if len(a.Calls) >= 2 {
			return true
		}
		for _, c := range a.Calls {
			if c.Kind != "ok" || c.Undeclared {
				return true
			}
		}
	}
	return false
}

func TestC08Histories(t *testing.T) {
	var rd descriptor
	if ok, err := rec.ReplayInput(&rd); ok {
		if err != nil {
			t.Fatal(err)
		}
		fails := 0
		for i := 0; i < 20; i++ {
			r := runCase(rd)
			if r.Symptom != "" {
				fails++
				if fails == 1 {
					fmt.Printf("REPRODUCED %s: %s\n", r.Symptom, r.Detail)
				}
			}
		}
		if fails > 0 {
			t.Fatalf("reproduced in %d of 20 runs", fails)
		}
		return
	}
	rapid.Check(t, func(rt *rapid.T) {
		d := drawDescriptor(rt)
		hash := rec.Hash(d)
		rec.Begin("TestC08Histories", hash, d)
		r := runCase(d)
		if r.Inconcl != "" {
			rec.End(hash, "inconclusive")
			rec.Inconclusive("TestC08Histories", r.Inconcl)
			rt.Fatalf("inconclusive: %s", r.Inconcl)
		}
		rec.End(hash, r.Symptom)
		cls := []string{"kind=" + d.TaskKind, fmt.Sprintf("maxCalls=%d", r.MaxCalls)}
		if r.Late {
			cls = append(cls, "lateDecision")
		}
		for _, a := range d.Attempts {
			if a.Concurrent && len(a.Calls) >= 2 {
				cls = append(cls, "concurrentDo")
				break
			}
		}
		if r.ErrModes > 0 {
			cls = append(cls, "errorMode")
		}
		if len(d.Declared) < 2 {
			cls = append(cls, "partlyUndeclared")
		}
		if d.DeadEnd {
			cls = append(cls, "noOutgoingFlow")
		}
		rec.Case("TestC08Histories", hash, nontrivial(d), cls, map[string]any{"case": d, "history": r.History})
		if r.Symptom == "" {
			return
		}
		if rec.Unrestricted() && rec.Known("C08-F1") && r.Symptom == "do-blocked" {
			rec.KnownHit("TestC08Histories", "C08-F1", hash)
			return
		}
		rt.Fatalf("%s", rec.Fail(rec.Failure{Property: prop, Test: "TestC08Histories", Symptom: r.Symptom, Detail: r.Detail, Descriptor: d,
			History: map[string]any{"steps": r.History, "traces": r.Traces, "xml": r.XML}, Goroutines: r.Gs}))
	})
}
