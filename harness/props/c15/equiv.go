package c15

import (
	"fmt"
	"reflect"
	"strings"
)

// equiv compares two parsed models field by field. Differences are reported as
// paths. Rules (DESIGN.md C15): a nil text/string pointer equals a pointer to a
// whitespace-only string; other strings are compared after trimming; the
// dynamic type behind every interface field must be the same; slices must have
// equal length and equivalent elements in order.
func equiv(a, b any) []string {
	var diffs []string
	walk(reflect.ValueOf(a), reflect.ValueOf(b), "", &diffs, 0)
	return diffs
}

func isBlankString(v reflect.Value) bool {
	return strings.TrimSpace(v.String()) == ""
}

func walk(a, b reflect.Value, path string, diffs *[]string, depth int) {
	if len(*diffs) > 20 || depth > 200 {
		return
	}
	if !a.IsValid() || !b.IsValid() {
		if a.IsValid() != b.IsValid() {
			*diffs = append(*diffs, path+": one side invalid")
		}
		return
	}
	if a.Type() != b.Type() {
		*diffs = append(*diffs, fmt.Sprintf("%s: type %s vs %s", path, a.Type(), b.Type()))
		return
	}
	switch a.Kind() {
	case reflect.Pointer:
		if a.IsNil() || b.IsNil() {
			if a.IsNil() && b.IsNil() {
				return
			}
			nn := a
			if a.IsNil() {
				nn = b
			}
			// nil vs pointer to blank string / empty struct-less text is the same
			if nn.Elem().Kind() == reflect.String && isBlankString(nn.Elem()) {
				return
			}
			*diffs = append(*diffs, fmt.Sprintf("%s: nil vs %s", path, short(nn.Elem())))
			return
		}
		walk(a.Elem(), b.Elem(), path, diffs, depth+1)
	case reflect.Interface:
		if a.IsNil() || b.IsNil() {
			if a.IsNil() != b.IsNil() {
				*diffs = append(*diffs, path+": nil interface vs value")
			}
			return
		}
		if a.Elem().Type() != b.Elem().Type() {
			*diffs = append(*diffs, fmt.Sprintf("%s: dynamic type %s vs %s", path, a.Elem().Type(), b.Elem().Type()))
			return
		}
		walk(a.Elem(), b.Elem(), path, diffs, depth+1)
	case reflect.Struct:
		for i := 0; i < a.NumField(); i++ {
			f := a.Type().Field(i)
			if !f.IsExported() {
				continue
			}
			walk(a.Field(i), b.Field(i), path+"."+f.Name, diffs, depth+1)
		}
	case reflect.Slice:
		if a.Len() != b.Len() {
			*diffs = append(*diffs, fmt.Sprintf("%s: %d vs %d elements", path, a.Len(), b.Len()))
			return
		}
		for i := 0; i < a.Len(); i++ {
			walk(a.Index(i), b.Index(i), fmt.Sprintf("%s[%d]", path, i), diffs, depth+1)
		}
	case reflect.Map:
		if a.Len() != b.Len() {
			*diffs = append(*diffs, fmt.Sprintf("%s: map size %d vs %d", path, a.Len(), b.Len()))
			return
		}
		for _, k := range a.MapKeys() {
			bv := b.MapIndex(k)
			if !bv.IsValid() {
				*diffs = append(*diffs, fmt.Sprintf("%s[%v]: missing", path, k))
				continue
			}
			walk(a.MapIndex(k), bv, fmt.Sprintf("%s[%v]", path, k), diffs, depth+1)
		}
	case reflect.String:
		if strings.TrimSpace(a.String()) != strings.TrimSpace(b.String()) {
			*diffs = append(*diffs, fmt.Sprintf("%s: %q vs %q", path, a.String(), b.String()))
		}
	default:
		if a.CanInterface() && b.CanInterface() {
			if !reflect.DeepEqual(a.Interface(), b.Interface()) {
				*diffs = append(*diffs, fmt.Sprintf("%s: %v vs %v", path, a.Interface(), b.Interface()))
			}
		}
	}
}

func short(v reflect.Value) string {
	s := fmt.Sprintf("%v", v)
	if len(s) > 60 {
		s = s[:60] + "..."
	}
	return fmt.Sprintf("%s(%s)", v.Type(), s)
}

// textPayloads lists what the TextPayload() accessor of every element of the
// model returns (path = value), in traversal order. The accessor is what the
// engine reads expressions, timers and scripts through; it normalises the
// stored text, so the stored field may differ where the accessor does not.
func textPayloads(m any) []string {
	var out []string
	seen := 0
	var rec func(v reflect.Value, path string, depth int)
	rec = func(v reflect.Value, path string, depth int) {
		if !v.IsValid() || depth > 200 || seen > 20000 {
			return
		}
		seen++
		switch v.Kind() {
		case reflect.Pointer, reflect.Interface:
			if !v.IsNil() {
				rec(v.Elem(), path, depth+1)
			}
		case reflect.Struct:
			if v.CanAddr() {
				if mth := v.Addr().MethodByName("TextPayload"); mth.IsValid() && mth.Type().NumIn() == 0 && mth.Type().NumOut() == 1 {
					if r := mth.Call(nil)[0]; r.Kind() == reflect.Pointer && !r.IsNil() && r.Elem().Kind() == reflect.String {
						if s := r.Elem().String(); s != "" {
							out = append(out, fmt.Sprintf("%s = %q", path, s))
						}
					}
				}
			}
			for i := 0; i < v.NumField(); i++ {
				if f := v.Type().Field(i); f.IsExported() {
					rec(v.Field(i), path+"."+f.Name, depth+1)
				}
			}
		case reflect.Slice:
			for i := 0; i < v.Len(); i++ {
				rec(v.Index(i), fmt.Sprintf("%s[%d]", path, i), depth+1)
			}
		}
	}
	rec(reflect.ValueOf(m), "", 0)
	return out
}

// sameTexts compares two models' accessor texts exactly.
func sameTexts(a, b any) string {
	ta, tb := textPayloads(a), textPayloads(b)
	for i := 0; i < len(ta) && i < len(tb); i++ {
		if ta[i] != tb[i] {
			return fmt.Sprintf("%s vs %s", ta[i], tb[i])
		}
	}
	if len(ta) != len(tb) {
		return fmt.Sprintf("%d vs %d non-empty text payloads", len(ta), len(tb))
	}
	return ""
}
