package c15

import (
	"fmt"
	"reflect"
	"strings"
)

// equiv compares two parsed models field by field. Differences are reported as
// paths. Rules (DESIGN.md C15): a nil text/string pointer equals a pointer to a
// whitespace-only string; other strings are compared after trimming; the
// dynamic type behind every interface field must be the same; slices must have
// equal length and equivalent elements in order.
func equiv(a, b any) []string {
	var diffs []string
	walk(reflect.ValueOf(a), reflect.ValueOf(b), "", &diffs, 0)
	return diffs
}

func isBlankString(v reflect.Value) bool {
	return strings.TrimSpace(v.String()) == ""
}

func walk(a, b reflect.Value, path string, diffs *[]string, depth int) {
	if len(*diffs) > 20 || depth > 200 {
		return
	}
	if !a.IsValid() || !b.IsValid() {
		if a.IsValid() != b.IsValid() {
			*diffs = append(*diffs, path+": one side invalid")
		}
		return
	}
	if a.Type() != b.Type() {
		*diffs = append(*diffs, fmt.Sprintf("%s: type %s vs %s", path, a.Type(), b.Type()))
		return
	}
	switch a.Kind() {
	case reflect.Pointer:
		if a.IsNil() || b.IsNil() {
			if a.IsNil() && b.IsNil() {
				return
			}
			nn := a
			if a.IsNil() {
				nn = b
			}
			// nil vs pointer to blank string / empty struct-less text is the same
			if nn.Elem().Kind() == reflect.String && isBlankString(nn.Elem()) {
				return
			}
			*diffs = append(*diffs, fmt.Sprintf("%s: nil vs %s", path, short(nn.Elem())))
			return
		}
		walk(a.Elem(), b.Elem(), path, diffs, depth+1)
	case reflect.Interface:
		if a.IsNil() || b.IsNil() {
			if a.IsNil() != b.IsNil() {
				*diffs = append(*diffs, path+": nil interface vs value")
			}
			return
		}
		if a.Elem().Type() != b.Elem().Type() {
			*diffs = append(*diffs, fmt.Sprintf("%s: dynamic type %s vs %s", path, a.Elem().Type(), b.Elem().Type()))
			return
		}
		walk(a.Elem(), b.Elem(), path, diffs, depth+1)
	case reflect.Struct:
		for i := 0; i < a.NumField(); i++ {
			f := a.Type().Field(i)
			if !f.IsExported() {
				continue
			}
			walk(a.Field(i), b.Field(i), path+"."+f.Name, diffs, depth+1)
		}
	case reflect.Slice:
		if a.Len() != b.Len() {
			*diffs = append(*diffs, fmt.Sprintf("%s: %d vs %d elements", path, a.Len(), b.Len()))
			return
		}
		for i := 0; i < a.Len(); i++ {
			walk(a.Index(i), b.Index(i), fmt.Sprintf("%s[%d]", path, i), diffs, depth+1)
		}
	case reflect.Map:
		if a.Len() != b.Len() {
			*diffs = append(*diffs, fmt.Sprintf("%s: map size %d vs %d", path, a.Len(), b.Len()))
			return
		}
		for _, k := range a.MapKeys() {
			bv := b.MapIndex(k)
			if !bv.IsValid() {
				*diffs = append(*diffs, fmt.Sprintf("%s[%v]: missing", path, k))
				continue
			}
			walk(a.MapIndex(k), bv, fmt.Sprintf("%s[%v]", path, k), diffs, depth+1)
		}
	case reflect.String:
		if strings.TrimSpace(a.String()) != strings.TrimSpace(b.String()) {
			*diffs = append(*diffs, fmt.Sprintf("%s: %q vs %q", path, a.String(), b.String()))
		}
	default:
		if a.CanInterface() && b.CanInterface() {
			if !reflect.DeepEqual(a.Interface(), b.Interface()) {
				*diffs = append(*diffs, fmt.Sprintf("%s: %v vs %v", path, a.Interface(), b.Interface()))
			}
		}
	}
}

func short(v reflect.Value) string {
	s := fmt.Sprintf("%v", v)
	if len(s) > 60 {
		s = s[:60] + "..."
	}
	return fmt.Sprintf("%s(%s)", v.Type(), s)
}
