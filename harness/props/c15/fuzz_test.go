package c15

import (
	"encoding/xml"
	"os"
	"testing"

	"github.com/olive-io/bpmn/schema"

	"verif/harness/rec"
)

// FuzzC15Parse: native coverage-guided fuzzing of schema.Parse with the
// round-trip oracle inside the target (thorough tier). Inputs the parser
// rejects are uninteresting; everything it accepts must round-trip.
func FuzzC15Parse(f *testing.F) {
	for _, p := range repoFiles() {
		if b, err := os.ReadFile(p); err == nil && len(b) < 64<<10 {
			f.Add(b)
		}
	}
	f.Add([]byte(`<definitions xmlns="http://www.omg.org/spec/BPMN/20100524/MODEL" id="d"><process id="p"><startEvent id="s"/></process></definitions>`))
	f.Fuzz(func(t *testing.T, data []byte) {
		if len(data) > 256<<10 {
			return
		}
		// Arbitrary bytes contain content the model deliberately does not hold
		// (unknown elements, character data in element-only content, ...), so
		// the first generation is not compared with the input's parse. What
		// must hold for every input the parser accepts: serialising works, the
		// output parses, and from then on the model is stable - the serialiser's
		// own output round-trips to an equivalent model and the same bytes.
		m1, err := schema.Parse(data)
		if err != nil {
			return
		}
		x2, err := xml.Marshal(m1)
		if err != nil {
			t.Fatalf("%s", rec.Fail(rec.Failure{Property: prop, Test: "FuzzC15Parse", Symptom: "marshal", Detail: err.Error(), Descriptor: map[string]any{"xml": string(data)}}))
		}
		sym, det, _, _ := roundTrip(x2)
		if sym == "" {
			return
		}
		if sym == "unparsable" {
			det = "output of Marshal does not parse: " + det
		}
		t.Fatalf("%s", rec.Fail(rec.Failure{Property: prop, Test: "FuzzC15Parse", Symptom: sym, Detail: det, Descriptor: map[string]any{"xml": string(data)}}))
	})
}
