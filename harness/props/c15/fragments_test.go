package c15

import (
	"fmt"
	"strings"
	"testing"

	"pgregory.net/rapid"

	"verif/harness/rec"
)

// TestC15Fragments: documents assembled from a pool of standard BPMN 2.0
// fragments (every flow-node kind of the schema, every event definition kind,
// loop characteristics, lanes, io specifications, root elements) with drawn
// attribute texts, checked with the same round-trip oracle as the other C15
// tests (equivalence, fixpoint, non-mutation, FindBy of every id). The
// fragments are not executed.

type fragCase struct {
	Picks []int    `json:"picks"` // indices into the fragment pool, in document order
	Texts []string `json:"texts"` // awkward texts substituted for %T in order
	Roots []int    `json:"roots"` // indices into the root-element pool
	Lang  string   `json:"lang"`
}

var awkward = []string{"plain", "a < b && c > d", `"quoted" 'text'`, "ünïcödé", "tab\there", "two  spaces", "${x}", "x==1 ? 'a' : 'b'", "0", "true", "-",
	// line ends of every kind (written as character references: a parser
	// normalises raw CR / CRLF to LF), CDATA terminator, a lone ampersand entity look-alike
	"windows\r\nline ends\r\n  kept", "lone\rcarriage return", "unix\nline end", "]]> inside", "&amp; literally",
	// white space that is not XML white space at the edges of a text (a
	// no-break space pasted along with a value, an em space, NEL, LINE
	// SEPARATOR, an ideographic space): not "whitespace-only text"
	"\u00a0no-break spaces around\u00a0", "\u2003em space first", "next line last\u0085", "\u2028line separator\u2028", "\u3000ideographic\u3000", "\u00a0PT1M\u00a0"}

// every fragment uses ids with the placeholder %N (instance number) so that a
// fragment can occur several times; %T is an awkward text (XML-escaped).
var fragPool = []string{
	`<bpmn:task id="T%N" name="%T"/>`,
	`<bpmn:userTask id="UT%N" name="%T" implementation="##unspecified"><bpmn:documentation id="Doc%N" textFormat="text/plain">%T</bpmn:documentation></bpmn:userTask>`,
	`<bpmn:serviceTask id="ST%N" name="%T" implementation="##WebService" operationRef="Op_R"/>`,
	`<bpmn:sendTask id="SeT%N" messageRef="Msg_R" operationRef="Op_R"/>`,
	`<bpmn:receiveTask id="RT%N" messageRef="Msg_R" instantiate="false"/>`,
	`<bpmn:scriptTask id="ScT%N" scriptFormat="text/x-groovy"><bpmn:script>%T</bpmn:script></bpmn:scriptTask>`,
	`<bpmn:scriptTask id="ScO%N"><bpmn:extensionElements><olive:taskDefinition type="script"/><olive:script expression="%T" result="r"/></bpmn:extensionElements></bpmn:scriptTask>`,
	`<bpmn:businessRuleTask id="BRT%N" implementation="##unspecified" name="%T"/>`,
	`<bpmn:manualTask id="MT%N" name="%T"/>`,
	`<bpmn:callActivity id="CA%N" calledElement="Other_Process" name="%T"><bpmn:extensionElements><olive:calledElement processId="Other_Process"/></bpmn:extensionElements></bpmn:callActivity>`,
	// extension attributes with explicit values, also the "other" value of a flag and zero / negative numbers
	`<bpmn:callActivity id="CAf%N" calledElement="Other_Process"><bpmn:extensionElements><olive:calledElement definitionId="Defs_X" processId="Other_Process" propagateAllChildVariables="false"/></bpmn:extensionElements></bpmn:callActivity>`,
	`<bpmn:callActivity id="CAt%N" calledElement="Other_Process"><bpmn:extensionElements><olive:calledElement processId="%T" propagateAllChildVariables="true"/></bpmn:extensionElements></bpmn:callActivity>`,
	`<bpmn:businessRuleTask id="BRd%N"><bpmn:extensionElements><olive:calledDecision decisionId="%T" result="%T"/></bpmn:extensionElements></bpmn:businessRuleTask>`,
	`<bpmn:serviceTask id="OLz%N"><bpmn:extensionElements><olive:taskDefinition type="" timeout="0s" retries="0" target="%T" metadata="{&quot;k&quot;:0}"/></bpmn:extensionElements></bpmn:serviceTask>`,
	`<bpmn:serviceTask id="OLn%N"><bpmn:extensionElements><olive:taskDefinition type="t" retries="-1"/></bpmn:extensionElements></bpmn:serviceTask>`,
	// expression elements without a body (what a modeler leaves behind when a condition is cleared): the element, its id and its kind stay
	`<bpmn:sequenceFlow id="SFe%N" sourceRef="T_none" targetRef="T_none"><bpmn:conditionExpression xsi:type="bpmn:tFormalExpression" id="CEe%N"/></bpmn:sequenceFlow>`,
	`<bpmn:sequenceFlow id="SFi%N" sourceRef="T_none" targetRef="T_none"><bpmn:conditionExpression id="CEi%N"></bpmn:conditionExpression></bpmn:sequenceFlow>`,
	`<bpmn:intermediateCatchEvent id="ICe%N"><bpmn:timerEventDefinition id="ICed%N"><bpmn:timeDuration xsi:type="bpmn:tFormalExpression" id="TDe%N"/></bpmn:timerEventDefinition></bpmn:intermediateCatchEvent>`,
	`<bpmn:complexGateway id="CGe%N"><bpmn:activationCondition xsi:type="bpmn:tFormalExpression" id="ACe%N">  </bpmn:activationCondition></bpmn:complexGateway>`,
	// extension lists with completely blank rows between ordinary ones
	`<bpmn:serviceTask id="OLb%N"><bpmn:extensionElements><olive:taskHeaders><olive:header name="a" value="1"/><olive:header/><olive:header name="b" value="%T"/></olive:taskHeaders><olive:properties><olive:property/><olive:property name="p" value="%T" type="string"/><olive:property name="q" value="2" type="integer"/></olive:properties><olive:results><olive:field name="r" type="integer"/><olive:field/><olive:field name="s" type="string"/></olive:results></bpmn:extensionElements></bpmn:serviceTask>`,
	`<bpmn:subProcess id="SP%N" triggeredByEvent="false" name="%T"><bpmn:startEvent id="SPs%N"><bpmn:outgoing>SPf%N</bpmn:outgoing></bpmn:startEvent><bpmn:endEvent id="SPe%N"><bpmn:incoming>SPf%N</bpmn:incoming></bpmn:endEvent><bpmn:sequenceFlow id="SPf%N" sourceRef="SPs%N" targetRef="SPe%N"/></bpmn:subProcess>`,
	`<bpmn:subProcess id="ESP%N" triggeredByEvent="true"><bpmn:startEvent id="ESPs%N" isInterrupting="false"><bpmn:signalEventDefinition id="ESPd%N" signalRef="Sig_R"/></bpmn:startEvent></bpmn:subProcess>`,
	`<bpmn:exclusiveGateway id="XG%N" name="%T" gatewayDirection="Diverging"/>`,
	`<bpmn:inclusiveGateway id="IG%N" gatewayDirection="Unspecified"/>`,
	`<bpmn:parallelGateway id="PG%N" name="%T"/>`,
	`<bpmn:eventBasedGateway id="EG%N" instantiate="false" eventGatewayType="Exclusive"/>`,
	`<bpmn:complexGateway id="CG%N"><bpmn:activationCondition xsi:type="bpmn:tFormalExpression">%T</bpmn:activationCondition></bpmn:complexGateway>`,
	`<bpmn:startEvent id="SE%N" isInterrupting="true" parallelMultiple="false"><bpmn:timerEventDefinition id="SEd%N"><bpmn:timeCycle xsi:type="bpmn:tFormalExpression">R3/PT10M</bpmn:timeCycle></bpmn:timerEventDefinition></bpmn:startEvent>`,
	`<bpmn:startEvent id="SEm%N"><bpmn:messageEventDefinition id="SEmd%N" messageRef="Msg_R"/></bpmn:startEvent>`,
	`<bpmn:startEvent id="SEc%N"><bpmn:conditionalEventDefinition id="SEcd%N"><bpmn:condition xsi:type="bpmn:tFormalExpression" language="%T">%T</bpmn:condition></bpmn:conditionalEventDefinition></bpmn:startEvent>`,
	`<bpmn:intermediateCatchEvent id="ICE%N" name="%T"><bpmn:timerEventDefinition id="ICEd%N"><bpmn:timeDate xsi:type="bpmn:tFormalExpression">2031-01-01T00:00:00Z</bpmn:timeDate></bpmn:timerEventDefinition></bpmn:intermediateCatchEvent>`,
	`<bpmn:intermediateCatchEvent id="ICL%N"><bpmn:linkEventDefinition id="ICLd%N" name="%T"/></bpmn:intermediateCatchEvent>`,
	`<bpmn:intermediateCatchEvent id="ICM%N" parallelMultiple="true"><bpmn:signalEventDefinition id="ICMs%N" signalRef="Sig_R"/><bpmn:messageEventDefinition id="ICMm%N" messageRef="Msg_R"><bpmn:operationRef>Op_R</bpmn:operationRef></bpmn:messageEventDefinition><bpmn:timerEventDefinition id="ICMt%N"><bpmn:timeDuration xsi:type="bpmn:tFormalExpression">PT1H</bpmn:timeDuration></bpmn:timerEventDefinition></bpmn:intermediateCatchEvent>`,
	`<bpmn:intermediateThrowEvent id="ITE%N" name="%T"><bpmn:signalEventDefinition id="ITEd%N" signalRef="Sig_R"/></bpmn:intermediateThrowEvent>`,
	`<bpmn:intermediateThrowEvent id="ITM%N"><bpmn:messageEventDefinition id="ITMd%N" messageRef="Msg_R"/></bpmn:intermediateThrowEvent>`,
	`<bpmn:intermediateThrowEvent id="ITEs%N"><bpmn:escalationEventDefinition id="ITEsd%N" escalationRef="Esc_R"/></bpmn:intermediateThrowEvent>`,
	`<bpmn:intermediateThrowEvent id="ITC%N"><bpmn:compensateEventDefinition id="ITCd%N" waitForCompletion="true"/></bpmn:intermediateThrowEvent>`,
	`<bpmn:intermediateThrowEvent id="ITL%N"><bpmn:linkEventDefinition id="ITLd%N" name="%T"/></bpmn:intermediateThrowEvent>`,
	`<bpmn:endEvent id="EE%N" name="%T"><bpmn:terminateEventDefinition id="EEd%N"/></bpmn:endEvent>`,
	`<bpmn:endEvent id="EEe%N"><bpmn:errorEventDefinition id="EEed%N" errorRef="Err_R"/></bpmn:endEvent>`,
	`<bpmn:endEvent id="EEm%N"><bpmn:messageEventDefinition id="EEmd%N" messageRef="Msg_R"/></bpmn:endEvent>`,
	`<bpmn:endEvent id="EEc%N"><bpmn:cancelEventDefinition id="EEcd%N"/></bpmn:endEvent>`,
	`<bpmn:task id="BH%N"/><bpmn:boundaryEvent id="BE%N" attachedToRef="BH%N" cancelActivity="false" name="%T"><bpmn:timerEventDefinition id="BEd%N"><bpmn:timeCycle xsi:type="bpmn:tFormalExpression">R/PT5S</bpmn:timeCycle></bpmn:timerEventDefinition></bpmn:boundaryEvent>`,
	`<bpmn:task id="BI%N"/><bpmn:boundaryEvent id="BEi%N" attachedToRef="BI%N" cancelActivity="true"><bpmn:errorEventDefinition id="BEid%N" errorRef="Err_R"/></bpmn:boundaryEvent>`,
	`<bpmn:task id="BS%N"/><bpmn:boundaryEvent id="BEs%N" attachedToRef="BS%N"><bpmn:signalEventDefinition id="BEsd%N" signalRef="Sig_R"/></bpmn:boundaryEvent>`,
	`<bpmn:task id="BC%N"/><bpmn:boundaryEvent id="BEc%N" attachedToRef="BC%N"><bpmn:compensateEventDefinition id="BEcd%N"/></bpmn:boundaryEvent>`,
	`<bpmn:task id="LT%N"><bpmn:standardLoopCharacteristics id="LTl%N" testBefore="true" loopMaximum="3"><bpmn:loopCondition xsi:type="bpmn:tFormalExpression">%T</bpmn:loopCondition></bpmn:standardLoopCharacteristics></bpmn:task>`,
	`<bpmn:task id="MI%N"><bpmn:multiInstanceLoopCharacteristics id="MIl%N" isSequential="true"><bpmn:loopCardinality xsi:type="bpmn:tFormalExpression">%T</bpmn:loopCardinality><bpmn:completionCondition xsi:type="bpmn:tFormalExpression" language="%T">%T</bpmn:completionCondition></bpmn:multiInstanceLoopCharacteristics></bpmn:task>`,
	`<bpmn:task id="IO%N"><bpmn:ioSpecification id="IOs%N"><bpmn:dataInput id="IOi%N" name="%T"/><bpmn:dataOutput id="IOo%N" name="out"/><bpmn:inputSet id="IOis%N"><bpmn:dataInputRefs>IOi%N</bpmn:dataInputRefs></bpmn:inputSet><bpmn:outputSet id="IOos%N"><bpmn:dataOutputRefs>IOo%N</bpmn:dataOutputRefs></bpmn:outputSet></bpmn:ioSpecification><bpmn:dataInputAssociation id="IOa%N"><bpmn:sourceRef>DOR_F</bpmn:sourceRef><bpmn:targetRef>IOi%N</bpmn:targetRef></bpmn:dataInputAssociation></bpmn:task>`,
	`<bpmn:task id="PR%N"><bpmn:property id="PRp%N" name="%T"/></bpmn:task>`,
	`<bpmn:task id="A%N"/><bpmn:task id="B%N"/><bpmn:sequenceFlow id="AB%N" name="%T" sourceRef="A%N" targetRef="B%N" isImmediate="true"><bpmn:conditionExpression xsi:type="bpmn:tFormalExpression" language="%T">%T</bpmn:conditionExpression></bpmn:sequenceFlow>`,
	`<bpmn:task id="C%N"/><bpmn:task id="D%N"/><bpmn:sequenceFlow id="CD%N" sourceRef="C%N" targetRef="D%N"><bpmn:conditionExpression>%T</bpmn:conditionExpression></bpmn:sequenceFlow>`,
	`<bpmn:dataObject id="DOx%N" name="%T" isCollection="true"/><bpmn:dataObjectReference id="DORx%N" dataObjectRef="DOx%N"/>`,
	`<bpmn:dataStoreReference id="DSR%N" name="%T"/>`,
	`<bpmn:textAnnotation id="TA%N" textFormat="text/plain"><bpmn:text>%T</bpmn:text></bpmn:textAnnotation><bpmn:association id="AS%N" sourceRef="TA%N" targetRef="DOR_F" associationDirection="One"/>`,
	`<bpmn:group id="GR%N" categoryValueRef="CatV_R"/>`,
	`<bpmn:transaction id="TX%N" method="##Compensate"><bpmn:startEvent id="TXs%N"/></bpmn:transaction>`,
	`<bpmn:adHocSubProcess id="AH%N" cancelRemainingInstances="true" ordering="Sequential"><bpmn:task id="AHt%N"/><bpmn:completionCondition xsi:type="bpmn:tFormalExpression">%T</bpmn:completionCondition></bpmn:adHocSubProcess>`,
	`<bpmn:task id="RS%N"><bpmn:potentialOwner id="RSo%N"><bpmn:resourceAssignmentExpression id="RSe%N"><bpmn:formalExpression id="RSf%N">%T</bpmn:formalExpression></bpmn:resourceAssignmentExpression></bpmn:potentialOwner></bpmn:task>`,
	`<bpmn:serviceTask id="OL%N"><bpmn:extensionElements><olive:taskDefinition type="%T" timeout="5s" retries="1"/><olive:taskHeaders><olive:header name="h" value="%T"/></olive:taskHeaders><olive:properties><olive:property name="p" value="%T" type="string"/><olive:property name="q" ref="$a.b"/></olive:properties><olive:results><olive:field name="r" type="integer"/></olive:results></bpmn:extensionElements></bpmn:serviceTask>`,
}

var rootPool = []string{
	`<bpmn:itemDefinition id="Item_%N" structureRef="%T" isCollection="false" itemKind="Information"/>`,
	`<bpmn:error id="ErrX_%N" name="%T" errorCode="%T"/>`,
	`<bpmn:escalation id="EscX_%N" name="%T" escalationCode="E1"/>`,
	`<bpmn:signal id="SigX_%N" name="%T"/>`,
	`<bpmn:message id="MsgX_%N" name="%T" itemRef="Item_F"/>`,
	`<bpmn:resource id="Res_%N" name="%T"/>`,
	`<bpmn:dataStore id="DS_%N" name="%T" capacity="3" isUnlimited="false"/>`,
	`<bpmn:category id="Cat_%N" name="%T"><bpmn:categoryValue id="CatV_%N" value="%T"/></bpmn:category>`,
	`<bpmn:interface id="If_%N" name="%T" implementationRef="impl"><bpmn:operation id="OpX_%N" name="op"><bpmn:inMessageRef>Msg_R</bpmn:inMessageRef></bpmn:operation></bpmn:interface>`,
	`<bpmn:process id="Other_%N" isExecutable="false" processType="Private" isClosed="true" name="%T"><bpmn:laneSet id="LS_%N"><bpmn:lane id="Lane_%N" name="%T"><bpmn:flowNodeRef>OT_%N</bpmn:flowNodeRef></bpmn:lane></bpmn:laneSet><bpmn:task id="OT_%N"/></bpmn:process>`,
	`<bpmn:collaboration id="Col_%N" name="%T" isClosed="false"><bpmn:participant id="Par_%N" name="%T" processRef="Proc_F"><bpmn:participantMultiplicity id="PM_%N" minimum="1" maximum="2"/></bpmn:participant><bpmn:participant id="ParB_%N"/><bpmn:messageFlow id="MFl_%N" name="%T" sourceRef="Par_%N" targetRef="ParB_%N" messageRef="Msg_R"/></bpmn:collaboration>`,
	`<bpmn:globalUserTask id="GUT_%N" name="%T"/>`,
	`<bpmn:correlationProperty id="CP_%N" name="%T"><bpmn:correlationPropertyRetrievalExpression id="CPR_%N" messageRef="Msg_R"><bpmn:messagePath id="MP_%N">%T</bpmn:messagePath></bpmn:correlationPropertyRetrievalExpression></bpmn:correlationProperty>`,
}

func fragEsc(s string) string {
	return strings.NewReplacer("&", "&amp;", "<", "&lt;", ">", "&gt;", `"`, "&quot;", "\r", "&#13;", "\n", "&#10;").Replace(s)
}

func fragDocument(c fragCase) string {
	ti := 0
	text := func() string {
		t := "t"
		if ti < len(c.Texts) {
			t = c.Texts[ti]
		}
		ti++
		return fragEsc(t)
	}
	fill := func(tpl string, n int) string {
		s := strings.ReplaceAll(tpl, "%N", fmt.Sprint(n))
		for strings.Contains(s, "%T") {
			s = strings.Replace(s, "%T", text(), 1)
		}
		return s
	}
	var sb strings.Builder
	lang := ""
	if c.Lang != "" {
		lang = fmt.Sprintf(` expressionLanguage="%s"`, fragEsc(c.Lang))
	}
	sb.WriteString(`<?xml version="1.0" encoding="UTF-8"?>` + "\n")
	sb.WriteString(`<bpmn:definitions xmlns:bpmn="http://www.omg.org/spec/BPMN/20100524/MODEL" xmlns:olive="http://olive.io/spec/BPMN/MODEL" xmlns:xsi="http://www.w3.org/2001/XMLSchema-instance" id="Defs_F" targetNamespace="http://bpmn.io/schema/bpmn"` + lang + `>` + "\n")
	sb.WriteString(`<bpmn:message id="Msg_R" name="m"/><bpmn:signal id="Sig_R" name="s"/><bpmn:error id="Err_R" name="e" errorCode="c"/><bpmn:escalation id="Esc_R" name="x"/><bpmn:itemDefinition id="Item_F"/>` + "\n")
	for i, r := range c.Roots {
		sb.WriteString(fill(rootPool[r%len(rootPool)], i))
		sb.WriteString("\n")
	}
	sb.WriteString(`<bpmn:process id="Proc_F" isExecutable="true">` + "\n")
	sb.WriteString(`<bpmn:dataObject id="DO_F"/><bpmn:dataObjectReference id="DOR_F" dataObjectRef="DO_F"/>` + "\n")
	for i, p := range c.Picks {
		sb.WriteString(fill(fragPool[p%len(fragPool)], i))
		sb.WriteString("\n")
	}
	sb.WriteString(`</bpmn:process>` + "\n" + `</bpmn:definitions>` + "\n")
	return sb.String()
}

func TestC15Fragments(t *testing.T) {
	var rd fragCase
	if ok, err := rec.ReplayInput(&rd); ok {
		if err != nil {
			t.Fatal(err)
		}
		if rd.Picks == nil && rd.Roots == nil {
			return
		}
		if sym, det, _, _ := roundTrip([]byte(fragDocument(rd))); sym != "" {
			fmt.Printf("REPRODUCED %s: %s\n", sym, det)
			t.Fatalf("%s", sym)
		}
		return
	}
	// in the thorough tier shard 0 first walks every fragment alone (all of the pool is covered whatever the draws are)
	if rec.Tier() == "thorough" {
		for i := range fragPool {
			c := fragCase{Picks: []int{i}, Texts: []string{"a < b", `"q"`, "x"}}
			if sym, det, _, _ := roundTrip([]byte(fragDocument(c))); sym != "" && sym != "unparsable" {
				t.Fatalf("%s", rec.Fail(rec.Failure{Property: prop, Test: "TestC15Fragments", Symptom: sym, Detail: det, Descriptor: c, History: map[string]any{"xml": fragDocument(c)}}))
			}
		}
	}
	rapid.Check(t, func(rt *rapid.T) {
		c := fragCase{
			Picks: rapid.SliceOfN(rapid.IntRange(0, len(fragPool)-1), 1, 8).Draw(rt, "picks"),
			Roots: rapid.SliceOfN(rapid.IntRange(0, len(rootPool)-1), 0, 4).Draw(rt, "roots"),
			Texts: rapid.SliceOfN(rapid.SampledFrom(awkward), 0, 30).Draw(rt, "texts"),
			Lang:  rapid.SampledFrom([]string{"", "https://github.com/expr-lang/expr", "http://www.w3.org/1999/XPath"}).Draw(rt, "lang"),
		}
		x := fragDocument(c)
		hash := rec.Hash(c)
		rec.Begin("TestC15Fragments", hash, c)
		sym, det, _, _ := roundTrip([]byte(x))
		rec.End(hash, sym)
		if sym == "unparsable" {
			rt.Fatalf("%s", rec.Fail(rec.Failure{Property: prop, Test: "TestC15Fragments", Symptom: "generator", Detail: "fragment document does not parse: " + det, Descriptor: c, History: map[string]any{"xml": x}}))
		}
		var cls []string
		for _, p := range c.Picks {
			cls = append(cls, fmt.Sprintf("frag%02d", p))
		}
		rec.Case("TestC15Fragments", hash, len(c.Picks) >= 2, cls, c)
		if sym != "" {
			rt.Fatalf("%s", rec.Fail(rec.Failure{Property: prop, Test: "TestC15Fragments", Symptom: sym, Detail: det, Descriptor: c, History: map[string]any{"xml": x}}))
		}
	})
}
