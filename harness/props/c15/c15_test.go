package c15

import (
	"context"
	"encoding/xml"
	"fmt"
	bpmn "github.com/olive-io/bpmn/v2"
	"os"
	"path/filepath"
	"reflect"
	"sort"
	"strings"
	"testing"

	"github.com/olive-io/bpmn/schema"
	"pgregory.net/rapid"

	"verif/harness/drive"
	"verif/harness/gen"
	"verif/harness/model"
	"verif/harness/quiesce"
	"verif/harness/rec"
)

const prop = "C15"

// roundTrip applies the structural oracle to one document.
const foreignDoc = `<?xml version="1.0" encoding="UTF-8"?>
<bpmn:definitions xmlns:bpmn="http://www.omg.org/spec/BPMN/20100524/MODEL" id="Foreign_Defs" name="foreign" targetNamespace="urn:foreign" expressionLanguage="urn:foreign:lang" typeLanguage="urn:foreign:types" exporter="x" exporterVersion="9">
<bpmn:process id="Foreign_Proc" isExecutable="false" processType="Public" isClosed="true"><bpmn:task id="Foreign_Task" name="ft" startQuantity="7" completionQuantity="3" isForCompensation="true"/></bpmn:process>
</bpmn:definitions>`

// untypeItems turns a parsed model into what a caller builds in code: olive
// items (headers, properties, result fields) without an explicit type - the
// parser fills in "string", code that assembles a model usually does not.
// Returns the number of items edited.
func untypeItems(m *schema.Definitions) int {
	n := 0
	var walk func(v reflect.Value, depth int)
	walk = func(v reflect.Value, depth int) {
		if depth > 200 || !v.IsValid() {
			return
		}
		switch v.Kind() {
		case reflect.Pointer:
			if v.IsNil() {
				return
			}
			if it, ok := v.Interface().(*schema.Item); ok {
				if it.Type == schema.ItemTypeString {
					it.Type = ""
					n++
				}
				return
			}
			walk(v.Elem(), depth+1)
		case reflect.Interface:
			if !v.IsNil() {
				walk(v.Elem(), depth+1)
			}
		case reflect.Struct:
			for i := 0; i < v.NumField(); i++ {
				if v.Type().Field(i).IsExported() {
					walk(v.Field(i), depth+1)
				}
			}
		case reflect.Slice:
			for i := 0; i < v.Len(); i++ {
				walk(v.Index(i), depth+1)
			}
		}
	}
	walk(reflect.ValueOf(m), 0)
	return n
}

// editedModel: serialising a model that was assembled / edited in code must
// not alter it either, and serialising it twice gives the same document.
func editedModel(x []byte) (sym, det string, edited int) {
	m, err := schema.Parse(x)
	if err != nil {
		return "", "", 0
	}
	ref, _ := schema.Parse(x)
	edited = untypeItems(m)
	untypeItems(ref)
	if edited == 0 {
		return "", "", 0
	}
	a, err := xml.Marshal(m)
	if err != nil {
		return "marshal", err.Error(), edited
	}
	if d := equiv(m, ref); len(d) > 0 {
		return "model-altered", "serialising changed a model whose olive items carry no explicit type: " + strings.Join(d, "; "), edited
	}
	b, err := xml.Marshal(m)
	if err != nil {
		return "marshal", err.Error(), edited
	}
	if string(a) != string(b) {
		return "model-altered", "serialising the same model twice gives different documents", edited
	}
	// the document written for the untyped items reads back as the typed original
	back, err := schema.Parse(a)
	if err != nil {
		return "reparse", err.Error(), edited
	}
	orig, _ := schema.Parse(x)
	if d := equiv(back, orig); len(d) > 0 {
		return "not-equivalent", "a model with untyped olive items does not read back as the model with the default type: " + strings.Join(d, "; "), edited
	}
	return "", "", edited
}

func roundTrip(x []byte) (sym, det string, m1, m2 *schema.Definitions) {
	m1, err := schema.Parse(x)
	if err != nil {
		return "unparsable", err.Error(), nil, nil
	}
	if s, d, _ := editedModel(x); s != "" {
		return s, d, m1, nil
	}
	ref, _ := schema.Parse(x) // untouched second parse
	x2, err := xml.Marshal(m1)
	if err != nil {
		return "marshal", err.Error(), m1, nil
	}
	m2, err = schema.Parse(x2)
	if err != nil {
		return "reparse", fmt.Sprintf("output of Marshal does not parse: %v", err), m1, nil
	}
	if d := equiv(m1, m2); len(d) > 0 {
		return "not-equivalent", "re-parsed model differs: " + strings.Join(d, "; "), m1, m2
	}
	x3, err := xml.Marshal(m2)
	if err != nil {
		return "marshal", err.Error(), m1, m2
	}
	if string(x3) != string(x2) {
		return "no-fixpoint", fmt.Sprintf("Marshal(Parse(Marshal(M))) differs from Marshal(M) (%d vs %d bytes)", len(x3), len(x2)), m1, m2
	}
	if d := equiv(m1, ref); len(d) > 0 {
		return "model-altered", "serialising changed the model: " + strings.Join(d, "; "), m1, m2
	}
	// the texts as the accessors hand them out (what the engine evaluates):
	// exactly the same before serialising, after it, and in the re-parsed model
	if d := sameTexts(ref, m1); d != "" {
		return "model-altered", "serialising changed a text of the model: " + d, m1, m2
	}
	if d := sameTexts(ref, m2); d != "" {
		return "not-equivalent", "a text of the re-parsed model differs: " + d, m1, m2
	}
	// a parsed model is a value of its own: parsing an unrelated document
	// (other expression / type language, other target namespace) must not
	// change what an already parsed model says
	if _, err := schema.Parse([]byte(foreignDoc)); err == nil {
		x2b, err := xml.Marshal(m1)
		if err != nil {
			return "marshal", err.Error(), m1, m2
		}
		if string(x2b) != string(x2) {
			return "model-shared-state", fmt.Sprintf("parsing another document changed the serialisation of an already parsed model (%d vs %d bytes): models share state", len(x2b), len(x2)), m1, m2
		}
		if d := equiv(m1, m2); len(d) > 0 {
			return "model-shared-state", "after parsing another document the model differs from its own re-parse: " + strings.Join(d, "; "), m1, m2
		}
	}
	// every id is retrievable by that id, in both models
	// (ids of BPMN model elements; diagram-interchange elements are not base
	// elements and ExactId does not address them)
	ids := map[string]bool{}
	// (taken from the serialised model, i.e. the elements the model actually
	// holds: unknown elements of the input are not part of the model)
	dec := xml.NewDecoder(strings.NewReader(string(x2)))
	for {
		tok, err := dec.Token()
		if err != nil {
			break
		}
		if se, ok := tok.(xml.StartElement); ok && se.Name.Space == "http://www.omg.org/spec/BPMN/20100524/MODEL" && se.Name.Local != "definitions" {
			for _, a := range se.Attr {
				if a.Name.Local == "id" && a.Name.Space == "" && strings.TrimSpace(a.Value) != "" {
					// (an empty id attribute is not an identifier)
					ids[a.Value] = true
				}
			}
		}
	}
	keys := make([]string, 0, len(ids))
	for k := range ids {
		keys = append(keys, k)
	}
	sort.Strings(keys)
	for _, id := range keys {
		for which, mm := range []*schema.Definitions{m1, m2} {
			el, ok := mm.FindBy(schema.ExactId(id))
			if !ok {
				// ExactId addresses base elements only; an element that carries
				// an id without being one (documentation) is retrievable through
				// the same traversal with a predicate on its Id()
				want := id
				el, ok = mm.FindBy(func(e schema.Element) bool {
					if x, isId := e.(interface {
						Id() (*schema.Id, bool)
					}); isId {
						if got, present := x.Id(); present && got != nil && *got == want {
							return true
						}
					}
					return false
				})
			}
			if !ok {
				return "findby", fmt.Sprintf("element with id %q not found in model %d", id, which+1), m1, m2
			}
			if be, ok := el.(schema.BaseElementInterface); ok {
				if got, present := be.Id(); !present || *got != id {
					return "findby", fmt.Sprintf("FindBy(ExactId(%q)) returned an element with another id", id), m1, m2
				}
			}
		}
	}
	return "", "", m1, m2
}

func repoFiles() []string {
	var out []string
	for _, dir := range []string{"/repo/testdata", "/repo/examples", "/repo/schema/testdata"} {
		filepath.Walk(dir, func(p string, info os.FileInfo, err error) error {
			if err == nil && !info.IsDir() && strings.HasSuffix(p, ".bpmn") {
				out = append(out, p)
			}
			return nil
		})
	}
	sort.Strings(out)
	return out
}

// TestC15Files: every bundled .bpmn file.
func TestC15Files(t *testing.T) {
	var rf struct {
		File string `json:"file"`
	}
	if ok, _ := rec.ReplayInput(&rf); ok {
		x, err := os.ReadFile(rf.File)
		if err != nil {
			t.Fatal(err)
		}
		if sym, det, _, _ := roundTrip(x); sym != "" && sym != "unparsable" {
			fmt.Printf("REPRODUCED %s: %s\n", sym, det)
			t.Fatalf("%s", sym)
		}
		return
	}
	total, nt := 0, 0
	var samples []any
	for _, f := range repoFiles() {
		x, err := os.ReadFile(f)
		if err != nil {
			t.Fatal(err)
		}
		sym, det, _, _ := roundTrip(x)
		total++
		if strings.Contains(string(x), "tFormalExpression") || strings.Contains(string(x), "EventDefinition") || strings.Contains(string(x), "olive:") {
			nt++
		}
		if len(samples) < 5 {
			samples = append(samples, f)
		}
		if sym == "unparsable" {
			continue // a bundled file the parser itself rejects is not a round-trip subject
		}
		if sym == "not-equivalent" && rec.Known("C15-F2") && strings.Contains(string(x), "standardLoopCharacteristics") && !strings.Contains(string(x), "loopCondition") &&
			strings.Count(det, "LoopConditionField") == strings.Count(det, ";")+1 {
			// listed finding: an absent (optional) loopCondition comes back as an empty informal expression
			rec.KnownHit("TestC15Files", "C15-F2", f)
			continue
		}
		if sym != "" {
			t.Fatalf("%s", rec.Fail(rec.Failure{Property: prop, Test: "TestC15Files", Symptom: sym, Detail: f + ": " + det, Descriptor: map[string]any{"file": f}}))
		}
	}
	rec.Count("TestC15Files", total, nt, map[string]int{"bundledFiles": total}, samples, true)
}

// decorate adds the remaining supported content to a generated program's XML.
type deco struct {
	Collab    bool   `json:"collab"`
	DI        bool   `json:"di"`
	Docs      bool   `json:"docs"`
	DataObj   bool   `json:"dataObj"`
	Olive     bool   `json:"olive"`
	Text      string `json:"text"`
	TimerKind int    `json:"timer"`
	// PadRefs: the <incoming> / <outgoing> references are written the way a
	// pretty-printer leaves them - on a line of their own, i.e. with white
	// space around the id
	PadRefs bool `json:"padRefs,omitempty"`
}

type descriptor struct {
	Case *drive.Case `json:"case"`
	Deco deco        `json:"deco"`
	// Kind: lockstep program, or event program
	Events bool `json:"events"`
}

func esc(s string) string {
	return strings.NewReplacer("&", "&amp;", "<", "&lt;", ">", "&gt;", `"`, "&quot;").Replace(s)
}

func document(d *descriptor) (string, *gen.Program) {
	prog, _ := d.Case.BuildProgram()
	g := prog.G
	if d.Events {
		// add event nodes on a parallel branch that never blocks completion checks (they are not executed here)
		b := &gen.B{G: g}
		_ = b
	}
	x := prog.XML()
	var extra strings.Builder
	var inProc strings.Builder
	if d.Deco.DataObj {
		inProc.WriteString(`<bpmn:dataObject id="DO_1" name="do1"><bpmn:extensionElements><olive:dataObjectBody><![CDATA[{"a": "a  a", "n": 3, "t": "x\t\ty ", "k  k": [1,  2]}]]></olive:dataObjectBody></bpmn:extensionElements></bpmn:dataObject>` +
			`<bpmn:dataObjectReference id="DOR_1" name="ref1" dataObjectRef="DO_1"/>`)
	}
	if d.Deco.Docs {
		inProc.WriteString(`<bpmn:textAnnotation id="TA_1"><bpmn:text>  ` + esc(d.Deco.Text) + `  </bpmn:text></bpmn:textAnnotation>`)
	}
	if d.Deco.Olive {
		inProc.WriteString(`<bpmn:serviceTask id="Deco_Task" name="deco &amp; &lt;task&gt;"><bpmn:extensionElements>` +
			`<olive:taskDefinition type="svc" timeout="30s" retries="2"/>` +
			`<olive:taskHeaders><olive:header name="h1" value="v &quot;1&quot;"/><olive:header name="h2" ref="$a.b" type="string"/></olive:taskHeaders>` +
			`<olive:properties><olive:property name="p1" value="12" type="integer"/><olive:property name="p2" value="{&quot;k&quot;:1}" type="object"/><olive:property name="p3" ref="$x.y"/></olive:properties>` +
			`<olive:results><olive:field name="r1" type="boolean"/><olive:field name="r2"/></olive:results>` +
			`<olive:dataInput name="in" targetRef="DOR_1"/><olive:dataOutput name="out" targetRef="DOR_1"/>` +
			`</bpmn:extensionElements></bpmn:serviceTask>`)
	}
	switch d.Deco.TimerKind {
	case 1:
		inProc.WriteString(`<bpmn:intermediateCatchEvent id="Deco_Timer"><bpmn:timerEventDefinition id="Deco_TD"><bpmn:timeDuration xsi:type="bpmn:tFormalExpression">PT10S</bpmn:timeDuration></bpmn:timerEventDefinition></bpmn:intermediateCatchEvent>`)
	case 2:
		inProc.WriteString(`<bpmn:intermediateCatchEvent id="Deco_Sig" parallelMultiple="true"><bpmn:signalEventDefinition id="Deco_SD" signalRef="Sig_1"/><bpmn:messageEventDefinition id="Deco_MD" messageRef="Msg_1"><bpmn:operationRef>Op_1</bpmn:operationRef></bpmn:messageEventDefinition></bpmn:intermediateCatchEvent>`)
		extra.WriteString(`<bpmn:signal id="Sig_1" name="sig"/><bpmn:message id="Msg_1" name="msg"/>`)
	}
	x = strings.Replace(x, "</bpmn:process>", inProc.String()+"</bpmn:process>", 1)
	if d.Deco.Collab {
		extra.WriteString(`<bpmn:collaboration id="Collab_1"><bpmn:participant id="Part_1" name="P" processRef="Proc_1"/><bpmn:participant id="Part_2" name="Q"/><bpmn:messageFlow id="MF_1" sourceRef="Part_1" targetRef="Part_2"/></bpmn:collaboration>`)
	}
	if d.Deco.DI {
		var di strings.Builder
		di.WriteString(`<bpmndi:BPMNDiagram id="Diagram_1"><bpmndi:BPMNPlane id="Plane_1" bpmnElement="Proc_1">`)
		n := 0
		g.AllNodes(func(nd *gen.Node, owner *gen.Graph) {
			if owner != g || n > 4 {
				return
			}
			n++
			di.WriteString(fmt.Sprintf(`<bpmndi:BPMNShape id="%s_di" bpmnElement="%s"><dc:Bounds x="%d" y="82.5" width="36" height="36"/><bpmndi:BPMNLabel><dc:Bounds x="1" y="2" width="3" height="4"/></bpmndi:BPMNLabel></bpmndi:BPMNShape>`, nd.ID, nd.ID, 100*n))
		})
		for i, f := range g.Flows {
			if i > 3 {
				break
			}
			di.WriteString(fmt.Sprintf(`<bpmndi:BPMNEdge id="%s_di" bpmnElement="%s"><di:waypoint x="10" y="20"/><di:waypoint x="30.5" y="40"/></bpmndi:BPMNEdge>`, f.ID, f.ID))
		}
		di.WriteString(`</bpmndi:BPMNPlane></bpmndi:BPMNDiagram>`)
		extra.WriteString(di.String())
		x = strings.Replace(x, `xmlns:olive=`, `xmlns:bpmndi="http://www.omg.org/spec/BPMN/20100524/DI" xmlns:dc="http://www.omg.org/spec/DD/20100524/DC" xmlns:di="http://www.omg.org/spec/DD/20100524/DI" xmlns:olive=`, 1)
	}
	x = strings.Replace(x, "</bpmn:definitions>", extra.String()+"</bpmn:definitions>", 1)
	if d.Deco.PadRefs {
		x = strings.ReplaceAll(x, "<bpmn:incoming>", "<bpmn:incoming>\n        ")
		x = strings.ReplaceAll(x, "</bpmn:incoming>", "\n      </bpmn:incoming>")
		x = strings.ReplaceAll(x, "<bpmn:outgoing>", "<bpmn:outgoing> ")
		x = strings.ReplaceAll(x, "</bpmn:outgoing>", "\t</bpmn:outgoing>")
	}
	return x, prog
}

// constructible reports whether the engine can wire an instance of the model.
func constructible(defs *schema.Definitions) (bool, string) {
	ctx, cancel := context.WithCancel(context.Background())
	defer cancel()
	_, err := bpmn.NewEngine().NewProcess(defs, bpmn.WithContext(ctx))
	if err != nil {
		return false, err.Error()
	}
	return true, ""
}

// engineLeg runs the lock-step oracle on a parsed model and returns a digest
// of what was observed.
func engineLeg(c *drive.Case, defs *schema.Definitions, picks *[]int, replay bool) (*drive.Outcome, string) {
	pos := 0
	pick := func(n int) int {
		if replay {
			v := 0
			if pos < len(*picks) {
				v = (*picks)[pos]
			}
			pos++
			return v % n
		}
		v := 0
		if pos < len(c.Schedule) {
			v = c.Schedule[pos] % n
		}
		pos++
		*picks = append(*picks, v)
		return v
	}
	hk := &drive.Hooks{NewInst: func(x string, vars map[string]any) (*drive.Inst, error) {
		return drive.NewFromDefs(defs, quiesce.Begin(), drive.Options{Vars: vars})
	}}
	out := drive.RunLockstep(c, pick, hk)
	var sb strings.Builder
	for _, s := range out.Steps {
		fmt.Fprintf(&sb, "%s=>%v;", s.Stimulus, s.Got)
	}
	fmt.Fprintf(&sb, "done=%v ends=%v flows=%v", out.Done, out.Summary.Ends, out.Summary.Flows)
	return out, sb.String()
}

func check(d *descriptor, withEngine bool) (sym, det, inconcl string) {
	x, _ := document(d)
	sym, det, m1, m2 := roundTrip([]byte(x))
	if sym == "unparsable" {
		return "generator", "generated document does not parse: " + det + "\n" + x, ""
	}
	if sym != "" {
		return sym, det, ""
	}
	// "the engine behaves identically": first of all it can wire both models or neither
	ok1, e1 := constructible(m1)
	ok2, e2 := constructible(m2)
	if ok1 != ok2 {
		return "behaviour", fmt.Sprintf("the engine can wire the original model: %v (%s), the re-parsed model: %v (%s)", ok1, e1, ok2, e2), ""
	}
	if !withEngine || !ok1 {
		return "", "", ""
	}
	var picks []int
	o1, d1 := engineLeg(d.Case, m1, &picks, false)
	if o1.Inconcl != "" {
		return "", "", o1.Inconcl
	}
	if o1.Symptom != "" {
		// the original model itself does not conform: C01's business, not a round-trip difference
		return "", "", ""
	}
	o2, d2 := engineLeg(d.Case, m2, &picks, true)
	if o2.Inconcl != "" {
		return "", "", o2.Inconcl
	}
	if o2.Symptom != "" {
		return "behaviour", fmt.Sprintf("the original model conforms to the token game, the re-parsed one does not: %s: %s", o2.Symptom, o2.Detail), ""
	}
	if d1 != d2 {
		return "behaviour", fmt.Sprintf("engine observations differ: original %s | re-parsed %s", d1, d2), ""
	}
	return "", "", ""
}

func drawCase(rt *rapid.T) *descriptor {
	o := gen.GenOpts{MaxDepth: 3, MaxNodes: 12, AllKinds: true, XPath: true, NoIncNest: rec.Exclude("C05-F1")}
	blk := gen.GenProgram(rt, o)
	c := &drive.Case{Prog: blk, Lang: rapid.SampledFrom([]string{"expr", "xpath"}).Draw(rt, "lang"), Vars: map[string]any{}, Answers: map[string][]model.Answer{}}
	c.DeclSeed = rapid.IntRange(0, 100).Draw(rt, "declSeed")
	// id shapes: prefixes / suffixes of one another, ids that differ only in
	// case, dots, dashes and non-ASCII letters (every one retrievable by
	// exactly that id)
	c.IDStyle = rapid.IntRange(0, 3).Draw(rt, "idStyle")
	for _, v := range gen.IntVars {
		c.Vars[v] = int64(rapid.IntRange(0, 3).Draw(rt, v))
	}
	for _, v := range gen.BoolVars {
		c.Vars[v] = rapid.Bool().Draw(rt, v)
	}
	for i := 1; i <= 4; i++ {
		c.Vars[fmt.Sprintf("lp%d", i)] = false
	}
	c.Schedule = rapid.SliceOfN(rapid.IntRange(0, 3), 0, 12).Draw(rt, "schedule")
	return &descriptor{Case: c, Deco: deco{Collab: rapid.Bool().Draw(rt, "collab"), DI: rapid.Bool().Draw(rt, "di"), Docs: rapid.Bool().Draw(rt, "docs"),
		DataObj: true, Olive: rapid.Bool().Draw(rt, "olive"), TimerKind: rapid.IntRange(0, 2).Draw(rt, "timer"), PadRefs: rapid.IntRange(0, 4).Draw(rt, "padRefs") == 0,
		Text: rapid.SampledFrom([]string{"plain", "a < b && c > d", `"quoted" 'text'`, "   ", "ünïcödé\ttab", "line1\nline2"}).Draw(rt, "text")}}
}

func nontrivial(x string) bool {
	return strings.Contains(x, "tFormalExpression") || strings.Contains(x, "EventDefinition") || strings.Contains(x, "olive:")
}

func TestC15Generated(t *testing.T) {
	var rd descriptor
	if ok, err := rec.ReplayInput(&rd); ok {
		if err != nil {
			t.Fatal(err)
		}
		if rd.Case != nil {
			rd.Case.Normalize()
			if sym, det, _ := check(&rd, true); sym != "" {
				fmt.Printf("REPRODUCED %s: %s\n", sym, det)
				t.Fatalf("%s", sym)
			}
		}
		return
	}
	n := 0
	rapid.Check(t, func(rt *rapid.T) {
		d := drawCase(rt)
		n++
		withEngine := n%3 == 0
		hash := rec.Hash(d)
		rec.Begin("TestC15Generated", hash, d)
		sym, det, inc := check(d, withEngine)
		if inc != "" {
			rec.End(hash, "inconclusive")
			rec.Inconclusive("TestC15Generated", inc)
			rt.Fatalf("inconclusive: %s", inc)
		}
		rec.End(hash, sym)
		x, _ := document(d)
		cls := []string{}
		if withEngine {
			cls = append(cls, "engineLeg")
		}
		if strings.Contains(x, "tFormalExpression") {
			cls = append(cls, "formalExpression")
		}
		if strings.Contains(x, "<bpmn:conditionExpression>") {
			cls = append(cls, "informalExpression")
		}
		if d.Deco.Collab {
			cls = append(cls, "collaboration")
		}
		if d.Deco.DI {
			cls = append(cls, "di")
		}
		if d.Deco.Olive {
			cls = append(cls, "olive")
		}
		rec.Case("TestC15Generated", hash, nontrivial(x), cls, map[string]any{"deco": d.Deco, "xmlBytes": len(x)})
		if sym != "" {
			rt.Fatalf("%s", rec.Fail(rec.Failure{Property: prop, Test: "TestC15Generated", Symptom: sym, Detail: det, Descriptor: d, History: map[string]any{"xml": x}}))
		}
	})
}
