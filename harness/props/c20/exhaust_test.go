package c20

// TestC20Exhaustion: a long-running program creates far more generators than
// the underlying id library has partitions (65535). Whatever the builder does
// beyond that point - refuse, or hand out generators again - identifiers
// issued by the generators it DID hand out must stay pairwise distinct,
// including those of generators created early that are still in use.
//
// This test exhausts the partition pool of its process; the driver runs every
// test in a process of its own.

import (
	"context"
	"fmt"
	"testing"

	"github.com/olive-io/bpmn/v2/pkg/id"
	"github.com/olive-io/bpmn/v2/pkg/tracing"

	"verif/harness/rec"
)

func TestC20Exhaustion(t *testing.T) {
	if ok, _ := rec.ReplayInput(&struct{}{}); ok {
		t.Skip("replay: the test is deterministic, run it without a replay file")
	}
	ctx, cancel := context.WithCancel(context.Background())
	defer cancel()
	tracer := tracing.NewTracer(ctx)
	sub := tracer.Subscribe()
	go func() {
		for range sub {
		}
	}()
	total := 140000
	if rec.Tier() == "thorough" {
		total = 280000
	}
	seen := map[string]int{} // id -> generator number
	type kept struct {
		n int
		g id.IGenerator
	}
	var alive []kept
	created, refused, draws := 0, 0, 0
	fail := func(det string) {
		msg := rec.Fail(rec.Failure{Property: prop, Test: "TestC20Exhaustion", Symptom: "cross-generator", Detail: det,
			Descriptor: map[string]any{"generatorsRequested": total}})
		t.Fatalf("%s", msg)
	}
	drawFrom := func(k kept, n int) {
		for i := 0; i < n; i++ {
			s := k.g.New().String()
			draws++
			if other, dup := seen[s]; dup {
				fail(fmt.Sprintf("identifier %s issued by generator #%d was already issued by generator #%d (%d generators handed out, %d refused so far)", s, k.n, other, created, refused))
			}
			seen[s] = k.n
		}
	}
	for n := 0; n < total; n++ {
		g, err := id.GetSno().NewIdGenerator(ctx, tracer)
		if err != nil || g == nil {
			refused++
		} else {
			created++
			k := kept{n, g}
			drawFrom(k, 2)
			// the first few and every 5000th generator stay in use
			if n < 3 || n%5000 == 0 {
				alive = append(alive, k)
			}
		}
		if n%2048 == 0 {
			for _, k := range alive {
				drawFrom(k, 8)
			}
		}
	}
	for _, k := range alive {
		drawFrom(k, 50)
	}
	classes := map[string]int{"generatorsHandedOut": created, "refused": refused, "keptInUse": len(alive)}
	rec.Count("TestC20Exhaustion", draws, draws, classes, []any{map[string]any{"requested": total, "handedOut": created, "refused": refused, "idsDrawn": draws}}, false)
}
