package c20

import (
	"context"
	"fmt"
	"sync"
	"testing"
	"time"

	bpmn "github.com/olive-io/bpmn/v2"
	"github.com/olive-io/bpmn/v2/pkg/clock"
	"github.com/olive-io/bpmn/v2/pkg/id"
	"github.com/olive-io/bpmn/v2/pkg/tracing"
	"pgregory.net/rapid"

	"verif/harness/drive"
	"verif/harness/gen"
	"verif/harness/model"
	"verif/harness/rec"
)

const prop = "C20"

// op of a generator-pool history.
type op struct {
	Kind   string `json:"kind"` // newSno | newFallback | fallbackBurst | draw | drawMany | snapshot | restore | snapTwice
	Gen    int    `json:"gen"`  // generator index (modulo pool size)
	Gor    int    `json:"gor"`  // goroutines drawing
	Batch  int    `json:"batch"`
	SnapID int    `json:"snap"`
}

type descriptor struct {
	Ops []op `json:"ops"`
	// MockClock: the context the generators are created in carries a mock clock
	// (as every instance driven on a mock clock has it) - and that clock stands
	// still for the whole case
	MockClock bool `json:"mockClock,omitempty"`
}

type genState struct {
	g        id.IGenerator
	kind     string
	restored bool
	// for restored generators: the ids its source had issued before the snapshot
	forbidden map[string]struct{}
	own       map[string]struct{}
	// lineage: generators related by snapshot / restore share it (a restored
	// generator continues its source's sequence, so the two may issue the same
	// ids after the snapshot); ids of generators of DIFFERENT lineages never collide
	lineage int
}

type snap struct {
	data    []byte
	before  map[string]struct{}
	kind    string
	lineage int
}

type issued struct {
	label   string
	lineage int
}

type result struct {
	Symptom, Detail string
	Draws           int
	MaxGor          int
	Restores        int
	Alive           int
	ManyGens        bool
	Log             []string
}

func run(d descriptor) *result {
	r := &result{}
	ctx, cancel := context.WithCancel(context.Background())
	defer cancel()
	if d.MockClock {
		ctx = clock.ToContext(ctx, clock.NewMockAt(time.Date(2030, 1, 1, 0, 0, 0, 0, time.UTC)))
	}
	tracer := tracing.NewTracer(ctx)
	sub := tracer.Subscribe()
	go func() {
		for range sub {
		}
	}()
	var pool []*genState
	var snaps []snap
	globalS := map[string]issued{} // String() -> who issued it
	globalB := map[string]issued{}
	lineages := 0
	addGen := func(kind string, g id.IGenerator) {
		lineages++
		pool = append(pool, &genState{g: g, kind: kind, own: map[string]struct{}{}, lineage: lineages})
	}
	// record books one drawn id; false = violation (r filled in)
	record := func(oi int, gs *genState, label string, x id.Id, how string) bool {
		s, b := x.String(), string(x.Bytes())
		r.Draws++
		if _, dup := gs.own[s]; dup {
			r.Symptom, r.Detail = "duplicate", fmt.Sprintf("op %d: %s issued id %s twice (%s)", oi, label, s, how)
			return false
		}
		gs.own[s] = struct{}{}
		if gs.restored {
			if _, bad := gs.forbidden[s]; bad {
				r.Symptom, r.Detail = "restore-collision", fmt.Sprintf("op %d: restored %s issued id %s that its source had issued before the snapshot", oi, label, s)
				return false
			}
		}
		if other, dup := globalS[s]; dup && other.lineage != gs.lineage {
			r.Symptom, r.Detail = "cross-generator", fmt.Sprintf("op %d: %s issued id %s already issued by %s (%s)", oi, label, s, other.label, how)
			return false
		}
		if other, dup := globalB[b]; dup && other.lineage != gs.lineage {
			r.Symptom, r.Detail = "cross-generator-bytes", fmt.Sprintf("op %d: %s issued id bytes already issued by %s", oi, label, other.label)
			return false
		}
		globalS[s] = issued{label, gs.lineage}
		globalB[b] = issued{label, gs.lineage}
		return true
	}
	mk := func() error {
		g, err := id.GetSno().NewIdGenerator(ctx, tracer)
		if err != nil {
			return err
		}
		addGen("sno", g)
		return nil
	}
	if err := mk(); err != nil {
		r.Symptom, r.Detail = "construct", err.Error()
		return r
	}
	for oi, o := range d.Ops {
		switch o.Kind {
		case "newSno":
			if len(pool) >= 8 {
				continue
			}
			if err := mk(); err != nil {
				r.Symptom, r.Detail = "construct", err.Error()
				return r
			}
		case "newFallback":
			if len(pool) >= 8 {
				continue
			}
			addGen("fallback", id.NewFallbackGenerator())
		case "fallbackBurst":
			// several fallback generators created at the same moment
			n := 2 + o.Gor%7
			gs := make([]id.IGenerator, n)
			var wg sync.WaitGroup
			for i := range gs {
				wg.Add(1)
				go func(i int) { defer wg.Done(); gs[i] = id.NewFallbackGenerator() }(i)
			}
			wg.Wait()
			for _, g := range gs {
				if len(pool) < 12 {
					addGen("fallback", g)
				}
			}
			// ... and many more, created in tight loops (what a program does whose
			// default generators fall back: every instance gets one of its own);
			// the first id of each must be new
			per := 50 + 50*(o.Batch%8)
			short := make([][]id.Id, n)
			for i := range short {
				wg.Add(1)
				go func(i int) {
					defer wg.Done()
					ids := make([]id.Id, per)
					for k := range ids {
						ids[k] = id.NewFallbackGenerator().New()
					}
					short[i] = ids
				}(i)
			}
			wg.Wait()
			for i, ids := range short {
				for k, x := range ids {
					lineages++
					gs := &genState{kind: "fallback", own: map[string]struct{}{}, lineage: lineages}
					if !record(oi, gs, fmt.Sprintf("fallback generator %d of goroutine %d", k, i), x, fmt.Sprintf("%d goroutines x %d fallback generators created at the same time, first id of each", n, per)) {
						return r
					}
				}
			}
		case "draw":
			gs := pool[o.Gen%len(pool)]
			gor := 1 + o.Gor%16
			batch := o.Batch
			if gor > r.MaxGor && gor*batch >= 10000 {
				r.MaxGor = gor
			}
			outs := make([][]id.Id, gor)
			var wg sync.WaitGroup
			for w := 0; w < gor; w++ {
				wg.Add(1)
				go func(w int) {
					defer wg.Done()
					ids := make([]id.Id, batch)
					for i := range ids {
						ids[i] = gs.g.New()
					}
					outs[w] = ids
				}(w)
			}
			wg.Wait()
			label := fmt.Sprintf("gen%d(%s)", o.Gen%len(pool), gs.kind)
			for _, ids := range outs {
				for _, x := range ids {
					if !record(oi, gs, label, x, fmt.Sprintf("%d goroutines x %d draws", gor, batch)) {
						return r
					}
				}
			}
		case "drawMany":
			// 2..4 different generators draw at the same time, one goroutine each
			k := 2 + o.Gor%3
			if k > len(pool) {
				k = len(pool)
			}
			if k < 2 {
				continue
			}
			first := o.Gen % len(pool)
			batch := o.Batch
			outs := make([][]id.Id, k)
			var wg sync.WaitGroup
			for w := 0; w < k; w++ {
				g := pool[(first+w)%len(pool)].g
				wg.Add(1)
				go func(w int) {
					defer wg.Done()
					ids := make([]id.Id, batch)
					for i := range ids {
						ids[i] = g.New()
					}
					outs[w] = ids
				}(w)
			}
			wg.Wait()
			if k*batch >= 10000 {
				r.ManyGens = true
			}
			for w, ids := range outs {
				gs := pool[(first+w)%len(pool)]
				label := fmt.Sprintf("gen%d(%s)", (first+w)%len(pool), gs.kind)
				for _, x := range ids {
					if !record(oi, gs, label, x, fmt.Sprintf("%d generators drawing %d ids each at the same time", k, batch)) {
						return r
					}
				}
			}
		case "snapshot":
			gs := pool[o.Gen%len(pool)]
			if gs.kind != "sno" {
				continue
			}
			data, err := gs.g.Snapshot()
			if err != nil {
				r.Symptom, r.Detail = "snapshot", err.Error()
				return r
			}
			before := make(map[string]struct{}, len(gs.own))
			for k := range gs.own {
				before[k] = struct{}{}
			}
			snaps = append(snaps, snap{data: data, before: before, kind: gs.kind, lineage: gs.lineage})
		case "snapTwice":
			// a generator whose state is saved after every step at a low rate: a
			// few draws, a snapshot, a pause longer than the generator's time unit
			// (4 ms: its sequence starts over), the same number of draws, a second
			// snapshot - and a generator restored from THAT one at once
			gs := pool[o.Gen%len(pool)]
			if gs.kind != "sno" {
				continue
			}
			n := 1 + o.Gor%3
			label := fmt.Sprintf("gen%d(%s)", o.Gen%len(pool), gs.kind)
			for i := 0; i < n; i++ {
				if !record(oi, gs, label, gs.g.New(), "before the first snapshot") {
					return r
				}
			}
			if _, err := gs.g.Snapshot(); err != nil {
				r.Symptom, r.Detail = "snapshot", err.Error()
				return r
			}
			time.Sleep(5 * time.Millisecond)
			for i := 0; i < n; i++ {
				if !record(oi, gs, label, gs.g.New(), "between the two snapshots") {
					return r
				}
			}
			before := make(map[string]struct{}, len(gs.own))
			for k := range gs.own {
				before[k] = struct{}{}
			}
			data, err := gs.g.Snapshot()
			if err != nil {
				r.Symptom, r.Detail = "snapshot", err.Error()
				return r
			}
			g, err := id.GetSno().RestoreIdGenerator(ctx, data, tracer)
			if err != nil {
				r.Symptom, r.Detail = "restore", err.Error()
				return r
			}
			rs := &genState{g: g, kind: "sno", restored: true, forbidden: before, own: map[string]struct{}{}, lineage: gs.lineage}
			for i := 0; i < n+2; i++ {
				if !record(oi, rs, "generator restored from the second snapshot of "+label, g.New(), fmt.Sprintf("%d draws, snapshot, 5 ms, %d draws, snapshot, restore", n, n)) {
					return r
				}
			}
			if len(pool) < 12 {
				pool = append(pool, rs)
			}
			r.Restores++
		case "restore":
			if len(snaps) == 0 || len(pool) >= 12 {
				continue
			}
			sp := snaps[o.SnapID%len(snaps)]
			g, err := id.GetSno().RestoreIdGenerator(ctx, sp.data, tracer)
			if err != nil {
				r.Symptom, r.Detail = "restore", err.Error()
				return r
			}
			pool = append(pool, &genState{g: g, kind: "sno", restored: true, forbidden: sp.before, own: map[string]struct{}{}, lineage: sp.lineage})
			r.Restores++
		}
	}
	r.Alive = len(pool)
	return r
}

func draw(rt *rapid.T, budget int) descriptor {
	var d descriptor
	n := rapid.IntRange(3, 14).Draw(rt, "ops")
	left := budget
	for i := 0; i < n; i++ {
		k := rapid.SampledFrom([]string{"draw", "draw", "draw", "drawMany", "drawMany", "newSno", "newSno", "newFallback", "fallbackBurst", "snapshot", "restore", "snapTwice"}).Draw(rt, "kind")
		o := op{Kind: k, Gen: rapid.IntRange(0, 11).Draw(rt, "gen"), Gor: rapid.IntRange(0, 15).Draw(rt, "gor"), SnapID: rapid.IntRange(0, 5).Draw(rt, "snap")}
		if k == "drawMany" {
			o.Batch = rapid.SampledFrom([]int{10, 1000, 5000, 20000}).Draw(rt, "batch")
			cost := o.Batch * 4
			if cost > left {
				o.Batch = 10
				cost = 40
			}
			left -= cost
		}
		if k == "draw" {
			o.Batch = rapid.SampledFrom([]int{1, 10, 100, 1000, 5000, 20000}).Draw(rt, "batch")
			cost := o.Batch * (1 + o.Gor%16)
			if cost > left {
				o.Batch = 10
				cost = 10 * (1 + o.Gor%16)
			}
			left -= cost
		}
		d.Ops = append(d.Ops, o)
	}
	d.MockClock = rapid.IntRange(0, 2).Draw(rt, "mockClock") == 0
	return d
}

func TestC20Pool(t *testing.T) {
	var rd descriptor
	if ok, err := rec.ReplayInput(&rd); ok {
		if err != nil {
			t.Fatal(err)
		}
		fails := 0
		for i := 0; i < 5; i++ {
			r := run(rd)
			if r.Symptom != "" {
				fails++
				if fails == 1 {
					fmt.Printf("REPRODUCED %s: %s\n", r.Symptom, r.Detail)
				}
			}
		}
		if fails > 0 {
			t.Fatalf("reproduced in %d of 5 runs", fails)
		}
		return
	}
	budget := 200000
	if rec.Tier() == "thorough" {
		budget = 1000000
	}
	rapid.Check(t, func(rt *rapid.T) {
		d := draw(rt, budget)
		hash := rec.Hash(d)
		rec.Begin("TestC20Pool", hash, d)
		r := run(d)
		rec.End(hash, r.Symptom)
		cls := []string{}
		if r.MaxGor >= 2 {
			cls = append(cls, "concurrentDraw>=1e4")
		}
		if r.Alive >= 2 {
			cls = append(cls, "generators>=2")
		}
		if r.Restores > 0 {
			cls = append(cls, "restore")
		}
		if r.ManyGens {
			cls = append(cls, "severalGeneratorsAtOnce>=1e4")
		}
		rec.Case("TestC20Pool", hash, r.MaxGor >= 2 || r.Alive >= 2 || r.Restores > 0, cls, map[string]any{"case": d, "draws": r.Draws})
		if r.Symptom != "" {
			rt.Fatalf("%s", rec.Fail(rec.Failure{Property: prop, Test: "TestC20Pool", Symptom: r.Symptom, Detail: r.Detail, Descriptor: d}))
		}
	})
}

// ---------------------------------------------------------------------------
// ids observed in traces never repeat within a program run (this test binary)

var (
	seenMu   sync.Mutex
	seenFlow = map[string]string{}
)

func TestC20EngineIds(t *testing.T) {
	if ok, _ := rec.ReplayInput(&struct{}{}); ok {
		t.Skip("no replay for this test")
	}
	o := gen.GenOpts{MaxDepth: 2, MaxNodes: 10, NoIncNest: true, NoSub: false}
	caseNo := 0
	rapid.Check(t, func(rt *rapid.T) {
		caseNo++
		blk := gen.GenProgram(rt, o)
		c := &drive.Case{Prog: blk, Lang: "expr", Vars: map[string]any{}, Answers: map[string][]model.Answer{}}
		for _, v := range gen.IntVars {
			c.Vars[v] = int64(rapid.IntRange(0, 3).Draw(rt, v))
		}
		for _, v := range gen.BoolVars {
			c.Vars[v] = rapid.Bool().Draw(rt, v)
		}
		for i := 1; i <= 4; i++ {
			c.Vars[fmt.Sprintf("lp%d", i)] = false
		}
		label := fmt.Sprintf("case %d", caseNo)
		var dup string
		flows := 0
		// half of the instances without sub-processes are started a second time
		// when their run is over (the start events fire again, new flows run
		// through the process): the ids of both runs must differ
		// (a sub-process entered again is finding C12-F3's pattern)
		restart := blk.Features().Sub == 0 && rapid.Bool().Draw(rt, "restart")
		restartErr := ""
		hk := &drive.Hooks{BeforeClose: func(in *drive.Inst, m *model.M, out *drive.Outcome) {
			if restart {
				if err := in.StartAll(); err != nil {
					restartErr = err.Error()
				}
				if _, err := in.Quiesce(); err != nil {
					restartErr = err.Error()
				}
			}
			seenMu.Lock()
			defer seenMu.Unlock()
			add := func(kind, s string) {
				if prev, ok := seenFlow[s]; ok && dup == "" {
					dup = fmt.Sprintf("%s id %s of %s was already issued as %s", kind, s, label, prev)
				}
				seenFlow[s] = kind + " in " + label
			}
			add("instance", in.P.Id().String())
			for _, tr := range in.Traces() {
				if nf, ok := tr.(bpmn.NewFlowTrace); ok {
					add("flow", nf.FlowId.String())
					flows++
				}
			}
		}}
		pick := func(n int) int { return rapid.IntRange(0, n-1).Draw(rt, "pick") }
		out := drive.RunLockstep(c, pick, hk)
		if out.Inconcl != "" {
			rec.Inconclusive("TestC20EngineIds", out.Inconcl)
			rt.Fatalf("inconclusive: %s", out.Inconcl)
		}
		if out.Symptom == "flow-id-repeat" {
			// (the driver's own uniqueness check over the run's NewFlowTrace ids)
			rt.Fatalf("%s", rec.Fail(rec.Failure{Property: prop, Test: "TestC20EngineIds", Symptom: "trace-id-repeat", Detail: out.Detail, Descriptor: c}))
		}
		if restartErr != "" {
			rec.Inconclusive("TestC20EngineIds", restartErr)
			rt.Fatalf("inconclusive: %s", restartErr)
		}
		rec.Case("TestC20EngineIds", rec.Hash(c), flows >= 2, []string{"engineRun", fmt.Sprintf("startedTwice:%v", restart)}, map[string]any{"flows": flows})
		if dup != "" {
			rt.Fatalf("%s", rec.Fail(rec.Failure{Property: prop, Test: "TestC20EngineIds", Symptom: "trace-id-repeat", Detail: dup, Descriptor: c}))
		}
	})
}
