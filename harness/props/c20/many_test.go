package c20

// TestC20ManyInstances: many instances alive at once, each with the generator
// the engine gives an instance by default (nothing configured): 300..2000
// instances of a start -> end process are created from 1..8 goroutines through
// Engine.NewProcess and started; instance ids and flow ids (NewFlowTrace) of
// the whole round are pairwise distinct.

import (
	"context"
	"fmt"
	"sync"
	"testing"

	"github.com/olive-io/bpmn/schema"
	bpmn "github.com/olive-io/bpmn/v2"
	"github.com/olive-io/bpmn/v2/pkg/tracing"
	"pgregory.net/rapid"

	"verif/harness/rec"
)

type manyDesc struct {
	N   int `json:"n"`
	Gor int `json:"gor"`
}

const manyDoc = `<?xml version="1.0" encoding="UTF-8"?><bpmn:definitions xmlns:bpmn="http://www.omg.org/spec/BPMN/20100524/MODEL" id="D" targetNamespace="x"><bpmn:process id="P" isExecutable="true"><bpmn:startEvent id="s"><bpmn:outgoing>f</bpmn:outgoing></bpmn:startEvent><bpmn:endEvent id="e"><bpmn:incoming>f</bpmn:incoming></bpmn:endEvent><bpmn:sequenceFlow id="f" sourceRef="s" targetRef="e"/></bpmn:process></bpmn:definitions>`

func runMany(d manyDesc) (sym, det string) {
	defs, err := schema.Parse([]byte(manyDoc))
	if err != nil {
		return "generator", err.Error()
	}
	ctx, cancel := context.WithCancel(context.Background())
	defer cancel()
	procs := make([]*bpmn.Process, d.N)
	var flowMu sync.Mutex
	flows := map[string]int{}
	var readers sync.WaitGroup
	var wg sync.WaitGroup
	errs := make(chan error, d.Gor)
	for g := 0; g < d.Gor; g++ {
		wg.Add(1)
		go func(g int) {
			defer wg.Done()
			for i := g; i < d.N; i += d.Gor {
				p, err := bpmn.NewEngine().NewProcess(defs, bpmn.WithContext(ctx))
				if err != nil {
					errs <- err
					return
				}
				procs[i] = p
			}
		}(g)
	}
	wg.Wait()
	select {
	case e := <-errs:
		return "construct", e.Error()
	default:
	}
	ids := map[string]int{}
	for i, p := range procs {
		k := p.Id().String()
		if j, dup := ids[k]; dup {
			return "instance-id-repeat", fmt.Sprintf("instances %d and %d of %d (created from %d goroutines, default generators) have the same id %s", j, i, d.N, d.Gor, k)
		}
		ids[k] = i
	}
	for _, p := range procs {
		ch := p.Tracer().SubscribeChannel(make(chan tracing.ITrace, 32))
		readers.Add(1)
		go func() {
			defer readers.Done()
			for t := range ch {
				if nf, ok := tracing.Unwrap(t).(bpmn.NewFlowTrace); ok {
					flowMu.Lock()
					flows[nf.FlowId.String()]++
					flowMu.Unlock()
				}
			}
		}()
	}
	for _, p := range procs {
		if err := p.StartAll(ctx); err != nil {
			return "start-error", err.Error()
		}
	}
	for _, p := range procs {
		wctx, wcancel := context.WithCancel(ctx)
		p.WaitUntilComplete(wctx)
		wcancel()
	}
	cancel()
	readers.Wait()
	for k, n := range flows {
		if n > 1 {
			return "flow-id-repeat", fmt.Sprintf("flow id %s announced %d times among %d instances alive at once", k, n, d.N)
		}
		if _, clash := ids[k]; clash {
			return "flow-id-repeat", fmt.Sprintf("flow id %s equals an instance id", k)
		}
	}
	if len(flows) < d.N {
		return "flows-missing", fmt.Sprintf("%d flows announced by %d instances", len(flows), d.N)
	}
	return "", ""
}

func TestC20ManyInstances(t *testing.T) {
	var rd manyDesc
	if ok, err := rec.ReplayInput(&rd); ok {
		if err != nil {
			t.Fatal(err)
		}
		if rd.N == 0 {
			return
		}
		fails := 0
		for i := 0; i < 10; i++ {
			if s, dd := runMany(rd); s != "" {
				fails++
				if fails == 1 {
					fmt.Printf("REPRODUCED %s: %s\n", s, dd)
				}
			}
		}
		if fails > 0 {
			t.Fatalf("reproduced in %d of 10 rounds", fails)
		}
		return
	}
	rapid.Check(t, func(rt *rapid.T) {
		d := manyDesc{N: rapid.SampledFrom([]int{300, 800, 1500, 2000}).Draw(rt, "n"), Gor: rapid.SampledFrom([]int{1, 4, 8}).Draw(rt, "gor")}
		hash := rec.Hash(d) + fmt.Sprint(rapid.IntRange(0, 1<<30).Draw(rt, "round"))
		rec.Begin("TestC20ManyInstances", hash, d)
		s, dd := runMany(d)
		rec.End(hash, s)
		rec.Case("TestC20ManyInstances", hash, d.N >= 800, []string{fmt.Sprintf("instances=%d goroutines=%d", d.N, d.Gor)}, d)
		if s != "" {
			rt.Fatalf("%s", rec.Fail(rec.Failure{Property: prop, Test: "TestC20ManyInstances", Symptom: s, Detail: dd, Descriptor: d}))
		}
	})
}
