package c11

import (
	"fmt"
	"testing"

	"pgregory.net/rapid"

	"verif/harness/drive"
	"verif/harness/gen"
	"verif/harness/model"
	"verif/harness/rec"
)

const prop = "C11"

// catchSpec describes one intermediate catch event.
type catchSpec struct {
	Def      gen.EventDef `json:"def"`
	PreTask  bool         `json:"preTask"`  // a task before the catch event (listener armed only after it is answered)
	PostTask bool         `json:"postTask"` // a task after it (makes the continuation observable)
	// Def2: a second event definition (funnel shape); Parallel: the catch event
	// is parallel-multiple (both definitions must be matched), else either fires it
	Def2     *gen.EventDef `json:"def2,omitempty"`
	Parallel bool          `json:"parallel,omitempty"`
}

type descriptor struct {
	Shape   string       `json:"shape"` // seq | par | xor | sub | funnel (3..4 tokens reach ONE catch event one after another: the node is armed and fired again and again)
	// Depth (shape sub): every catch-event chain sits inside Depth nested embedded
	// sub-processes, in parallel branches of the process
	Depth int `json:"depth,omitempty"`
	Tokens  int          `json:"tokens,omitempty"`
	Catches []catchSpec  `json:"catches"`
	Taken   int          `json:"taken"` // xor: index of the branch taken
	Script  []drive.Stim `json:"script"`
	Perturb uint64       `json:"perturb"`
	// PreStart / Early: number of non-matching events delivered before StartAll /
	// immediately after it returned (before the first flow has left the start event)
	PreStart int `json:"preStart"`
	Early    int `json:"early"`
	// BusyBus: the instance takes its events from a source of the caller's on
	// which an event (nobody waits for) arrives while the instance is still
	// being built - before most of its nodes exist
	BusyBus bool `json:"busyBus,omitempty"`
}

func build(d descriptor) (*gen.Graph, map[string]any) {
	b := gen.NewB()
	vars := map[string]any{"br": int64(d.Taken)}
	st := b.Add(gen.KStart)
	chain := func(from *gen.Node, cs catchSpec, cond *gen.Cond) *gen.Node {
		cur := from
		first := true
		link := func(n *gen.Node) {
			f := b.Connect(cur, n)
			if first && cond != nil {
				f.Cond, f.Formal = cond, true
			}
			first = false
			cur = n
		}
		if cs.PreTask {
			link(b.Add(gen.KTask))
		}
		c := b.Add(gen.KCatch)
		c.Defs = []gen.EventDef{cs.Def}
		link(c)
		// the continuation is always made observable by a task
		link(b.Add(gen.KTask))
		return cur
	}
	switch d.Shape {
	case "funnel":
		f := b.Add(gen.KPar)
		mrg := b.Add(gen.KXor)
		b.Connect(st, f)
		for i := 0; i < d.Tokens; i++ {
			t := b.Add(gen.KTask)
			b.Connect(f, t)
			b.Connect(t, mrg)
		}
		c := b.Add(gen.KCatch)
		c.Defs = []gen.EventDef{d.Catches[0].Def}
		if d.Catches[0].Def2 != nil {
			c.Defs = append(c.Defs, *d.Catches[0].Def2)
			c.ParallelMul = d.Catches[0].Parallel
		}
		b.Connect(mrg, c)
		after := b.Add(gen.KTask)
		b.Connect(c, after)
		en := b.Add(gen.KEnd)
		b.Connect(after, en)
	case "seq":
		cur := st
		for _, cs := range d.Catches {
			cur = chain(cur, cs, nil)
		}
		en := b.Add(gen.KEnd)
		b.Connect(cur, en)
	case "par":
		f := b.Add(gen.KPar)
		j := b.Add(gen.KPar)
		b.Connect(st, f)
		for _, cs := range d.Catches {
			last := chain(f, cs, nil)
			b.Connect(last, j)
		}
		en := b.Add(gen.KEnd)
		b.Connect(j, en)
	case "sub":
		// parallel branches; the catch event of each branch sits inside nested sub-processes
		f := b.Add(gen.KPar)
		j := b.Add(gen.KPar)
		b.Connect(st, f)
		for _, cs := range d.Catches {
			cur := f
			if cs.PreTask {
				t := b.Add(gen.KTask)
				b.Connect(cur, t)
				cur = t
			}
			outer := b.Add(gen.KSub)
			b.Connect(cur, outer)
			sp, ib := outer, b.Sub()
			sp.Inner = ib.G
			for lvl := 1; lvl < d.Depth; lvl++ {
				is := ib.Add(gen.KStart)
				nsp := ib.Add(gen.KSub)
				ie := ib.Add(gen.KEnd)
				ib.Connect(is, nsp)
				ib.Connect(nsp, ie)
				nb := ib.Sub()
				nsp.Inner = nb.G
				ib = nb
			}
			is := ib.Add(gen.KStart)
			c := ib.Add(gen.KCatch)
			c.Defs = []gen.EventDef{cs.Def}
			it := ib.Add(gen.KTask)
			ie := ib.Add(gen.KEnd)
			ib.Connect(is, c)
			ib.Connect(c, it)
			ib.Connect(it, ie)
			after := b.Add(gen.KTask)
			b.Connect(outer, after)
			b.Connect(after, j)
		}
		en := b.Add(gen.KEnd)
		b.Connect(j, en)
	default: // xor: only branch Taken is taken, the others hold catch events never reached
		x := b.Add(gen.KXor)
		mrg := b.Add(gen.KXor)
		b.Connect(st, x)
		for i, cs := range d.Catches {
			last := chain(x, cs, &gen.Cond{Op: "eq", Var: "br", K: int64(i)})
			b.Connect(last, mrg)
		}
		en := b.Add(gen.KEnd)
		b.Connect(mrg, en)
	}
	return b.G, vars
}

func evOf(d gen.EventDef) model.Ev { return model.Ev{Kind: d.Kind, Ref: d.Ref, Op: d.Op} }

func drawDef(rt *rapid.T) gen.EventDef {
	ref := rapid.SampledFrom([]string{"e1", "e2", "e3"}).Draw(rt, "ref")
	switch rapid.IntRange(0, 2).Draw(rt, "defKind") {
	case 0:
		return gen.EventDef{Kind: "signal", Ref: ref}
	case 1:
		return gen.EventDef{Kind: "message", Ref: ref}
	default:
		return gen.EventDef{Kind: "message", Ref: ref, Op: "op_" + ref}
	}
}

func draw(rt *rapid.T) descriptor {
	d := descriptor{Shape: rapid.SampledFrom([]string{"seq", "par", "xor", "funnel", "sub"}).Draw(rt, "shape"), Perturb: uint64(rapid.IntRange(0, 300).Draw(rt, "perturb")),
		BusyBus: rapid.IntRange(0, 3).Draw(rt, "busyBus") == 0}
	if d.Shape == "sub" {
		d.Depth = rapid.IntRange(1, 2).Draw(rt, "depth")
	}
	if d.Shape == "funnel" {
		// every round: one more token reaches the catch event (answer), then
		// events; the catch event is armed / fired once per round
		d.Tokens = rapid.IntRange(3, 4).Draw(rt, "tokens")
		d.Catches = []catchSpec{{Def: drawDef(rt)}}
		e := evOf(d.Catches[0].Def)
		if rapid.IntRange(0, 2).Draw(rt, "multi") > 0 {
			// two definitions: every round the events that complete the listener
			// are followed back-to-back by surplus matching events, which arrive
			// when the node has stopped listening and must not count for the next
			// round's listener
			d2 := drawDef(rt)
			for d2.Ref == d.Catches[0].Def.Ref {
				d2.Ref = map[string]string{"e1": "e2", "e2": "e3", "e3": "e1"}[d2.Ref]
				if d2.Op != "" {
					d2.Op = "op_" + d2.Ref
				}
			}
			d.Catches[0].Def2 = &d2
			d.Catches[0].Parallel = rapid.Bool().Draw(rt, "parallelMultiple")
			e2 := evOf(d2)
			for i := 0; i < d.Tokens; i++ {
				d.Script = append(d.Script, drive.Stim{Kind: "answer", Pick: 0})
				if rapid.IntRange(0, 3).Draw(rt, "twoAtOnce") == 0 && i+1 < d.Tokens {
					d.Script = append(d.Script, drive.Stim{Kind: "answer", Pick: 0})
					i++
				}
				var evs []drive.Stim
				add := func(x model.Ev) { y := x; evs = append(evs, drive.Stim{Kind: "event", Ev: &y}) }
				first := rapid.Bool().Draw(rt, "order")
				if rapid.IntRange(0, 2).Draw(rt, "completingPairConcurrent") == 0 {
					// the two completing events come from two goroutines at the same
					// time: whatever their order, together they complete the listener
					x, y := e, e2
					d.Script = append(d.Script, drive.Stim{Kind: "burst", Burst: []drive.Stim{{Kind: "event", Ev: &x}, {Kind: "event", Ev: &y}}})
				} else if first {
					add(e)
					add(e2)
				} else {
					add(e2)
					add(e)
				}
				for k := rapid.IntRange(0, 3).Draw(rt, "surplus"); k > 0; k-- {
					switch rapid.IntRange(0, 2).Draw(rt, "surplusKind") {
					case 0:
						add(e)
					case 1:
						add(e2)
					default:
						add(model.Ev{Kind: "signal", Ref: "zz"})
					}
				}
				if len(evs) > 0 {
					d.Script = append(d.Script, drive.Stim{Kind: "rapid", Burst: evs})
				}
				if rapid.Bool().Draw(rt, "answerAfter") {
					d.Script = append(d.Script, drive.Stim{Kind: "answer", Pick: rapid.IntRange(0, 3).Draw(rt, "pick")})
				}
			}
			// a lone event of each kind at the end: nothing listens any more
			add := func(x model.Ev) { y := x; d.Script = append(d.Script, drive.Stim{Kind: "event", Ev: &y}) }
			add(e2)
			add(e)
			return d
		}
		for i := 0; i < d.Tokens; i++ {
			d.Script = append(d.Script, drive.Stim{Kind: "answer", Pick: 0})
			if rapid.IntRange(0, 3).Draw(rt, "twoAtOnce") == 0 && i+1 < d.Tokens {
				d.Script = append(d.Script, drive.Stim{Kind: "answer", Pick: 0})
				i++
			}
			if rapid.IntRange(0, 2).Draw(rt, "noise") == 0 {
				d.Script = append(d.Script, drive.Stim{Kind: "event", Ev: &model.Ev{Kind: "signal", Ref: "zz"}})
			}
			ev := e
			d.Script = append(d.Script, drive.Stim{Kind: "event", Ev: &ev})
			if rapid.Bool().Draw(rt, "answerAfter") {
				d.Script = append(d.Script, drive.Stim{Kind: "answer", Pick: rapid.IntRange(0, 3).Draw(rt, "pick")})
			}
		}
		ev := e
		d.Script = append(d.Script, drive.Stim{Kind: "event", Ev: &ev})
		return d
	}
	n := rapid.IntRange(1, 3).Draw(rt, "catches")
	if d.Shape == "xor" && n < 2 {
		n = 2
	}
	for i := 0; i < n; i++ {
		d.Catches = append(d.Catches, catchSpec{Def: drawDef(rt), PreTask: rapid.Bool().Draw(rt, "pre")})
	}
	d.Taken = rapid.IntRange(0, n-1).Draw(rt, "taken")
	if !rec.Exclude("C11-F2") {
		d.PreStart = rapid.SampledFrom([]int{0, 0, 1, 2, 3}).Draw(rt, "preStart")
	}
	d.Early = rapid.SampledFrom([]int{0, 0, 1, 2, 4}).Draw(rt, "early")
	maxEvents := 8
	if rec.Exclude("C11-F1") {
		// finding C11-F1: a catch event that is not (yet) reached buffers at most 3 events, the 4th delivery blocks
		maxEvents = 3
	}
	ne := 0
	ns := rapid.IntRange(0, 12).Draw(rt, "scriptLen")
	drawEv := func() *model.Ev {
		switch rapid.IntRange(0, 5).Draw(rt, "evKind") {
		case 0:
			return &model.Ev{Kind: "signal", Ref: "zz"}
		case 1:
			// right ref, other kind / op mismatch
			c := d.Catches[rapid.IntRange(0, n-1).Draw(rt, "which")].Def
			if c.Kind == "signal" {
				return &model.Ev{Kind: "message", Ref: c.Ref}
			}
			if c.Op == "" {
				return &model.Ev{Kind: "message", Ref: c.Ref, Op: "op_other"}
			}
			return &model.Ev{Kind: "message", Ref: c.Ref}
		default:
			e := evOf(d.Catches[rapid.IntRange(0, n-1).Draw(rt, "which")].Def)
			return &e
		}
	}
	for i := 0; i < ns; i++ {
		k := rapid.IntRange(0, 9).Draw(rt, "stim")
		switch {
		case k <= 3:
			d.Script = append(d.Script, drive.Stim{Kind: "answer", Pick: rapid.IntRange(0, 3).Draw(rt, "pick")})
		case k <= 8:
			if ne >= maxEvents {
				continue
			}
			ne++
			d.Script = append(d.Script, drive.Stim{Kind: "event", Ev: drawEv()})
		default:
			if rapid.Bool().Draw(rt, "backToBack") {
				// 3..7 events that match nothing, delivered back-to-back, with at most
				// one matching event somewhere among them (more than an inbox holds)
				k := rapid.IntRange(3, 7).Draw(rt, "nonMatching")
				var evs []drive.Stim
				for j := 0; j < k; j++ {
					evs = append(evs, drive.Stim{Kind: "event", Ev: &model.Ev{Kind: "signal", Ref: "zz"}})
				}
				if rapid.IntRange(0, 3).Draw(rt, "withMatch") != 0 {
					e := evOf(d.Catches[rapid.IntRange(0, n-1).Draw(rt, "which")].Def)
					pos := rapid.IntRange(0, k).Draw(rt, "matchPos")
					evs = append(evs[:pos], append([]drive.Stim{{Kind: "event", Ev: &e}}, evs[pos:]...)...)
				}
				d.Script = append(d.Script, drive.Stim{Kind: "rapid", Burst: evs})
				continue
			}
			if ne+2 > maxEvents {
				continue
			}
			ne += 2
			d.Script = append(d.Script, drive.Stim{Kind: "burst", Burst: []drive.Stim{{Kind: "event", Ev: drawEv()}, {Kind: "event", Ev: drawEv()}}})
		}
	}
	return d
}

func run(d descriptor) *drive.ScriptOutcome {
	g, vars := build(d)
	c := &drive.ScriptCase{Graph: g, Lang: "expr", Vars: vars, Script: d.Script, Perturb: d.Perturb, Drain: false, BusyBus: d.BusyBus}
	for i := 0; i < d.PreStart; i++ {
		c.PreStart = append(c.PreStart, model.Ev{Kind: "signal", Ref: "zz"})
	}
	for i := 0; i < d.Early; i++ {
		c.Early = append(c.Early, model.Ev{Kind: "message", Ref: "zz"})
	}
	return drive.RunScript(c)
}

func classify(d descriptor, out *drive.ScriptOutcome) (cls []string, nt bool) {
	events, fired := 0, len(out.Fired)
	for _, s := range d.Script {
		if s.Kind == "event" {
			events++
		}
		if s.Kind == "burst" {
			events += len(s.Burst)
		}
		if s.Kind == "rapid" {
			events += len(s.Burst)
			cls = append(cls, "backToBack")
		}
	}
	cls = append(cls, "shape="+d.Shape, fmt.Sprintf("events=%d", events))
	if d.BusyBus {
		cls = append(cls, "eventArrivesWhileTheInstanceIsBuilt")
	}
	if d.PreStart > 0 {
		cls = append(cls, "eventsBeforeStart")
	}
	if d.Early > 0 {
		cls = append(cls, "eventsRightAfterStart")
	}
	if fired > 0 {
		cls = append(cls, "fired")
	}
	if events > fired {
		cls = append(cls, "ineffectiveDelivery")
	}
	if events > 3 {
		cls = append(cls, "events>inbox")
	}
	if d.Shape == "funnel" && fired >= 3 {
		cls = append(cls, "sameCatchEventFired>=3")
	}
	if d.Shape == "funnel" && d.Catches[0].Def2 != nil {
		if d.Catches[0].Parallel {
			cls = append(cls, "parallelMultipleRearmed")
		} else {
			cls = append(cls, "multipleRearmed")
		}
	}
	nt = (events >= 2 && fired >= 1 && events > fired) || d.Shape == "xor"
	return
}

func TestC11Delivery(t *testing.T) {
	var rd descriptor
	if ok, err := rec.ReplayInput(&rd); ok {
		if err != nil {
			t.Fatal(err)
		}
		fails := 0
		for i := 0; i < 10; i++ {
			out := run(rd)
			if out.Symptom != "" {
				fails++
				if fails == 1 {
					fmt.Printf("REPRODUCED %s: %s\n", out.Symptom, out.Detail)
				}
			}
		}
		if fails > 0 {
			t.Fatalf("reproduced in %d of 10 runs", fails)
		}
		return
	}
	rapid.Check(t, func(rt *rapid.T) {
		d := draw(rt)
		hash := rec.Hash(d)
		rec.Begin("TestC11Delivery", hash, d)
		out := run(d)
		if out.Inconcl != "" {
			rec.End(hash, "inconclusive")
			rec.Inconclusive("TestC11Delivery", out.Inconcl)
			rt.Fatalf("inconclusive: %s", out.Inconcl)
		}
		rec.End(hash, out.Symptom)
		cls, nt := classify(d, out)
		rec.Case("TestC11Delivery", hash, nt, cls, map[string]any{"case": d, "steps": out.Steps})
		if out.Symptom == "" {
			return
		}
		if rec.Unrestricted() && rec.Known("C11-F1") && out.Symptom == "consume-blocked" {
			rec.KnownHit("TestC11Delivery", "C11-F1", hash)
			return
		}
		rt.Fatalf("%s", rec.Fail(rec.Failure{Property: prop, Test: "TestC11Delivery", Symptom: out.Symptom, Detail: out.Detail, Descriptor: d,
			History: map[string]any{"steps": out.Steps, "traces": out.Traces, "xml": out.XML}, Goroutines: out.Gs}))
	})
}
