package c11

// TestC11AfterCancel: "delivering an event returns in bounded time regardless
// of which nodes have or have not been reached" - also when the context the
// instance was STARTED with has been cancelled (the construction context, and
// with it the instance's tracers, stay alive): the run loops of its nodes have
// ended, nothing listens any more, and every event handed to the instance
// afterwards is dropped - the call returns.
//
//	start -> task -> catch (signal / message) -> task -> end

import (
	"fmt"
	"testing"

	"pgregory.net/rapid"

	"verif/harness/drive"
	"verif/harness/gen"
	"verif/harness/rec"
)

type afterCancelDesc struct {
	Kind   string `json:"kind"`   // signal | message
	Before int    `json:"before"` // events delivered while the instance runs (0..6)
	After  int    `json:"after"`  // events delivered after the cancellation (2..8)
	Match  bool   `json:"match"`  // the events match the catch event's definition
	Answer bool   `json:"answer"` // the first task is answered before the cancellation (the catch event then listens)
	Both   bool   `json:"both"`   // the construction context is cancelled too
}

func runAfterCancel(d afterCancelDesc) (sym, det, inconcl string) {
	b := gen.NewB()
	st := b.Add(gen.KStart)
	t1 := b.Add(gen.KTask)
	c := b.Add(gen.KCatch)
	c.Defs = []gen.EventDef{{Kind: d.Kind, Ref: "e0"}}
	t2 := b.Add(gen.KTask)
	en := b.Add(gen.KEnd)
	b.Connect(st, t1)
	b.Connect(t1, c)
	b.Connect(c, t2)
	b.Connect(t2, en)
	prog := &gen.Program{G: b.G, DefaultLang: "expr"}
	in, err := drive.New(prog.XML(), drive.Options{SplitCtx: true})
	if err != nil {
		return "construct", err.Error(), ""
	}
	defer in.Close()
	if err := in.StartAll(); err != nil {
		return "start-error", err.Error(), ""
	}
	if _, err := in.Quiesce(); err != nil {
		return "", "", err.Error()
	}
	ref := "e0"
	if !d.Match {
		ref = "other"
	}
	ev := drive.Signal(ref)
	if d.Kind == "message" {
		ev = drive.Message(ref, "")
	}
	deliver := func(stage string, n int) (string, string, string) {
		for i := 0; i < n; i++ {
			done := make(chan struct{})
			go func() { in.P.ConsumeEvent(ev); close(done) }()
			gs, err := in.Quiesce()
			if err != nil {
				return "", "", err.Error()
			}
			select {
			case <-done:
			default:
				return "consume-blocked", fmt.Sprintf("%s: ConsumeEvent #%d (%s %s) has not returned although the instance is quiescent\n%v", stage, i+1, d.Kind, ref, gs), ""
			}
		}
		return "", "", ""
	}
	if s, dd, inc := deliver("before the cancellation, the catch event not reached", d.Before/2); s != "" || inc != "" {
		return s, dd, inc
	}
	if d.Answer {
		for _, tt := range in.NewTasks() {
			tt.Do()
		}
		if _, err := in.Quiesce(); err != nil {
			return "", "", err.Error()
		}
	}
	if s, dd, inc := deliver("before the cancellation", d.Before-d.Before/2); s != "" || inc != "" {
		return s, dd, inc
	}
	in.CancelRun()
	if d.Both {
		in.CancelBuild()
	}
	if _, err := in.Quiesce(); err != nil {
		return "", "", err.Error()
	}
	return deliver("after the run context was cancelled", d.After)
}

func TestC11AfterCancel(t *testing.T) {
	var rd afterCancelDesc
	if ok, err := rec.ReplayInput(&rd); ok {
		if err != nil {
			t.Fatal(err)
		}
		if rd.Kind == "" {
			return
		}
		if s, dd, _ := runAfterCancel(rd); s != "" {
			fmt.Printf("REPRODUCED %s: %s\n", s, dd)
			t.Fatalf("%s", s)
		}
		return
	}
	rapid.Check(t, func(rt *rapid.T) {
		d := afterCancelDesc{Kind: rapid.SampledFrom([]string{"signal", "message"}).Draw(rt, "kind"), Before: rapid.IntRange(0, 6).Draw(rt, "before"),
			After: rapid.IntRange(2, 8).Draw(rt, "after"), Match: rapid.Bool().Draw(rt, "match"), Answer: rapid.Bool().Draw(rt, "answer"), Both: rapid.IntRange(0, 3).Draw(rt, "both") == 0}
		hash := rec.Hash(d)
		rec.Begin("TestC11AfterCancel", hash, d)
		s, dd, inc := runAfterCancel(d)
		if inc != "" {
			rec.End(hash, "inconclusive")
			rec.Inconclusive("TestC11AfterCancel", inc)
			rt.Fatalf("inconclusive: %s", inc)
		}
		rec.End(hash, s)
		rec.Case("TestC11AfterCancel", hash, d.After >= 3, []string{"kind=" + d.Kind, fmt.Sprintf("both=%v", d.Both)}, d)
		if s != "" {
			rt.Fatalf("%s", rec.Fail(rec.Failure{Property: prop, Test: "TestC11AfterCancel", Symptom: s, Detail: dd, Descriptor: d}))
		}
	})
}
