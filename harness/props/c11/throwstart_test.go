package c11

// TestC11ThrowStart: the instance is not started through a start event but by
// triggering an intermediate throw event (Process.ThrowAll, or StartWith with
// the throw event): its catch events listen like any others, and an event
// handed to the instance reaches them.
//
//	throw(none) [-> parallel fork] -> K catch events (signal / message) -> task each -> end
//	(optionally the process also has an ordinary start event path that is not used)
//
// Stimuli are delivered one by one with a fixpoint in between; after each the
// tasks requested are exactly those behind the listening catch events the
// event matches.

import (
	"fmt"
	"sort"
	"testing"

	"pgregory.net/rapid"

	"verif/harness/drive"
	"verif/harness/gen"
	"verif/harness/rec"
)

type throwStartDesc struct {
	Kinds     []string `json:"kinds"`     // per catch event: signal | message
	Stimuli   []int    `json:"stimuli"`   // index of the catch event whose event is delivered; len(Kinds) = an event nobody declares
	WithStart bool     `json:"withStart"` // an unused start event path beside the throw event
	ByElement bool     `json:"byElement"` // StartWith(throw event) instead of ThrowAll
}

func runThrowStart(d throwStartDesc) (sym, det, inconcl string) {
	b := gen.NewB()
	th := b.Add(gen.KThrow)
	var src *gen.Node = th
	if len(d.Kinds) > 1 {
		f := b.Add(gen.KPar)
		b.Connect(th, f)
		src = f
	}
	taskOf := make([]string, len(d.Kinds))
	for i, k := range d.Kinds {
		c := b.Add(gen.KCatch)
		c.Defs = []gen.EventDef{{Kind: k, Ref: fmt.Sprintf("e%d", i)}}
		t := b.Add(gen.KTask)
		en := b.Add(gen.KEnd)
		b.Connect(src, c)
		b.Connect(c, t)
		b.Connect(t, en)
		taskOf[i] = t.ID
	}
	if d.WithStart {
		st := b.Add(gen.KStart)
		en := b.Add(gen.KEnd)
		b.Connect(st, en)
	}
	prog := &gen.Program{G: b.G, DefaultLang: "expr"}
	in, err := drive.New(prog.XML(), drive.Options{})
	if err != nil {
		return "construct", err.Error(), ""
	}
	defer in.Close()
	if d.ByElement {
		el := &(*in.P.Element().IntermediateThrowEvents())[0]
		err = in.P.StartWith(in.RunContext(), el)
	} else {
		err = in.P.ThrowAll(in.RunContext())
	}
	if err != nil {
		return "start-error", err.Error(), ""
	}
	if _, err := in.Quiesce(); err != nil {
		return "", "", err.Error()
	}
	if ts := in.NewTasks(); len(ts) != 0 {
		return "requests", fmt.Sprintf("%d task requests before any event was delivered", len(ts)), ""
	}
	fired := make([]bool, len(d.Kinds))
	for si, s := range d.Stimuli {
		var ev = drive.Signal("nobody")
		want := []string{}
		if s < len(d.Kinds) {
			if d.Kinds[s] == "signal" {
				ev = drive.Signal(fmt.Sprintf("e%d", s))
			} else {
				ev = drive.Message(fmt.Sprintf("e%d", s), "")
			}
			if !fired[s] {
				fired[s] = true
				want = append(want, taskOf[s])
			}
		}
		done := make(chan struct{})
		go func() { in.P.ConsumeEvent(ev); close(done) }()
		gs, err := in.Quiesce()
		if err != nil {
			return "", "", err.Error()
		}
		select {
		case <-done:
		default:
			return "consume-blocked", fmt.Sprintf("stimulus %d: ConsumeEvent has not returned at the fixpoint\n%v", si, gs), ""
		}
		var got []string
		for _, tt := range in.NewTasks() {
			id, _ := tt.GetActivity().Element().Id()
			got = append(got, *id)
			tt.Do()
		}
		sort.Strings(got)
		if fmt.Sprint(got) != fmt.Sprint(want) {
			return "requests", fmt.Sprintf("instance started through its throw event; stimulus %d (%v of %v): tasks requested %v, want %v", si, s, d.Kinds, got, want), ""
		}
		if _, err := in.Quiesce(); err != nil {
			return "", "", err.Error()
		}
	}
	return "", "", ""
}

func TestC11ThrowStart(t *testing.T) {
	var rd throwStartDesc
	if ok, err := rec.ReplayInput(&rd); ok {
		if err != nil {
			t.Fatal(err)
		}
		if len(rd.Kinds) == 0 {
			return
		}
		if s, dd, _ := runThrowStart(rd); s != "" {
			fmt.Printf("REPRODUCED %s: %s\n", s, dd)
			t.Fatalf("%s", s)
		}
		return
	}
	rapid.Check(t, func(rt *rapid.T) {
		var d throwStartDesc
		k := rapid.IntRange(1, 3).Draw(rt, "catches")
		for i := 0; i < k; i++ {
			d.Kinds = append(d.Kinds, rapid.SampledFrom([]string{"signal", "message"}).Draw(rt, "kind"))
		}
		d.Stimuli = rapid.SliceOfN(rapid.IntRange(0, k), 1, 6).Draw(rt, "stimuli")
		d.WithStart = rapid.Bool().Draw(rt, "withStart")
		d.ByElement = rapid.Bool().Draw(rt, "byElement")
		hash := rec.Hash(d)
		rec.Begin("TestC11ThrowStart", hash, d)
		s, dd, inc := runThrowStart(d)
		if inc != "" {
			rec.End(hash, "inconclusive")
			rec.Inconclusive("TestC11ThrowStart", inc)
			rt.Fatalf("inconclusive: %s", inc)
		}
		rec.End(hash, s)
		rec.Case("TestC11ThrowStart", hash, len(d.Stimuli) >= 2, []string{fmt.Sprintf("catches=%d", k)}, d)
		if s != "" {
			rt.Fatalf("%s", rec.Fail(rec.Failure{Property: prop, Test: "TestC11ThrowStart", Symptom: s, Detail: dd, Descriptor: d}))
		}
	})
}
