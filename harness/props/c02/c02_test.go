package c02

import (
	"context"
	"fmt"
	"sort"
	"testing"

	bpmn "github.com/olive-io/bpmn/v2"
	"pgregory.net/rapid"

	"verif/harness/drive"
	"verif/harness/gen"
	"verif/harness/model"
	"verif/harness/perturb"
	"verif/harness/quiesce"
	"verif/harness/rec"
)

const prop = "C02"

type action struct {
	Kind string `json:"kind"` // answer | wait | waitExpire | waitMany | rewait
	Arg  int    `json:"arg"`
}

type descriptor struct {
	Starts  int      `json:"starts"`  // start events 1..3
	Chain   []int    `json:"chain"`   // tasks per start chain (0..2); -1 = the start event's only outgoing flow carries a false condition (its token is consumed at the start event)
	Merge   bool     `json:"merge"`   // chains merge (exclusive gateway) into a common tail task
	Par     bool     `json:"par"`     // first chain contains a parallel block (2 concurrent tasks)
	ForkEnd int      `json:"forkEnd"` // 0 none; 1 parallel fork, 2 task with two outgoing flows: the FIRST branch goes straight to an end event, the second to a task
	Actions []action `json:"actions"`
	Perturb uint64   `json:"perturb"`
	// SubDead: the last chain runs through an embedded sub-process (one inner
	// task) that has a second inner start event whose only flow is false - the
	// instance can only complete if the sub-process notices that this start
	// event has fired although its token never left it
	SubDead bool `json:"subDead,omitempty"`
	// PreWait: WaitUntilComplete is called BEFORE the instance is started: 1 with
	// a context that has already expired, 2 with a live context. What such a
	// call answers is not judged (no start event has fired, the statement does
	// not say), only that it returns - and that it leaves nothing behind that
	// changes the answers given after the start.
	PreWait int `json:"preWait,omitempty"`
	// Boundary: the first task of the first chain carries a non-interrupting
	// boundary event (signal "bs") whose exception path holds a task; the event
	// is delivered once, first thing, while the host waits. The exception
	// path's token counts for completion like any other.
	Boundary bool `json:"boundary,omitempty"`
	// SplitCtx: the instance is started with a context that does not descend
	// from its construction context; the action "cancelBuild" ends the
	// construction context. The instance lives on the context it was started
	// with: completion is reported exactly as before.
	SplitCtx bool `json:"splitCtx,omitempty"`
	// SigStarts: bit i set = start event i carries a signal definition "ss<i>".
	// StartAll fires every start event; the action "startSignal" hands the
	// instance such a signal later on (also after completion): a start event
	// that has fired does not fire again - no token, no trace, no change in
	// what the waiters are told.
	SigStarts int `json:"sigStarts,omitempty"`
	// CondStarts: bit i set = start event i lists, BEFORE its real outgoing
	// flow, a conditional flow whose condition is false (to a task that is
	// never requested); the real flow carries a true condition. The start event
	// fires once, whichever of its flows the token takes.
	CondStarts int `json:"condStarts,omitempty"`
	// EagerWait: the goroutine that calls StartAll calls WaitUntilComplete the
	// moment StartAll has returned (nothing settles in between): that wait is
	// waiter 0 and is judged like every other one
	EagerWait bool `json:"eagerWait,omitempty"`
	// WideEnd: the last chain ends in a parallel fork into WideEnd end events
	// (8..32 flows end at the same moment, the last ones of the instance)
	WideEnd int `json:"wideEnd,omitempty"`
	// Restart: when the run is over (completion reported, the cease-flow trace
	// seen once) the instance is started AGAIN with StartAll and every request
	// is answered until none comes: however the engine treats that second run,
	// the cease-flow trace of the instance has been emitted exactly once
	Restart bool `json:"restart,omitempty"`
}

func build(d descriptor) *gen.Graph {
	b := gen.NewB()
	var merge *gen.Node
	if d.Merge {
		merge = b.Add(gen.KXor)
		tail := b.Add(gen.KTask)
		en := b.Add(gen.KEnd)
		b.Connect(merge, tail)
		b.Connect(tail, en)
	}
	for i := 0; i < d.Starts; i++ {
		st := b.Add(gen.KStart)
		if d.SigStarts&(1<<i) != 0 {
			st.Defs = []gen.EventDef{{Kind: "signal", Ref: fmt.Sprintf("ss%d", i)}}
		}
		if d.CondStarts&(1<<i) != 0 {
			dead := b.Add(gen.KTask)
			de := b.Add(gen.KEnd)
			ff := b.Connect(st, dead)
			ff.Formal, ff.Cond = true, gen.False()
			b.Connect(dead, de)
		}
		cur := st
		n := 0
		if i < len(d.Chain) {
			n = d.Chain[i]
		}
		deadStart := n < 0 && !(i == 0 && (d.Par || d.ForkEnd > 0))
		if i == 0 && d.Par {
			f := b.Add(gen.KPar)
			j := b.Add(gen.KPar)
			b.Connect(cur, f)
			for k := 0; k < 2; k++ {
				t := b.Add(gen.KTask)
				b.Connect(f, t)
				b.Connect(t, j)
			}
			cur = j
		}
		for k := 0; k < n; k++ {
			t := b.Add(gen.KTask)
			b.Connect(cur, t)
			cur = t
			if d.Boundary && i == 0 && k == 0 {
				be := b.Add(gen.KBoundary)
				be.AttachedTo = t.ID
				be.CancelAct = false
				be.Defs = []gen.EventDef{{Kind: "signal", Ref: "bs"}}
				x := b.Add(gen.KTask)
				xe := b.Add(gen.KEnd)
				b.Connect(be, x)
				b.Connect(x, xe)
			}
		}
		if i == 0 && d.ForkEnd > 0 {
			// a fork whose continuing (first listed) branch is consumed at once
			var f *gen.Node
			if d.ForkEnd == 1 {
				f = b.Add(gen.KPar)
			} else {
				f = b.Add(gen.KTask)
			}
			b.Connect(cur, f)
			e1 := b.Add(gen.KEnd)
			b.Connect(f, e1)
			t2 := b.Add(gen.KTask)
			b.Connect(f, t2)
			cur = t2
		}
		if d.SubDead && i == d.Starts-1 {
			sub := b.Add(gen.KSub)
			ib := b.Sub()
			sub.Inner = ib.G
			s1 := ib.Add(gen.KStart)
			it := ib.Add(gen.KTask)
			e1 := ib.Add(gen.KEnd)
			ib.Connect(s1, it)
			ib.Connect(it, e1)
			s2 := ib.Add(gen.KStart)
			e2 := ib.Add(gen.KEnd)
			df := ib.Connect(s2, e2)
			df.Formal, df.Cond = true, gen.False()
			b.Connect(cur, sub)
			cur = sub
		}
		var last *gen.Flow
		if d.WideEnd > 0 && i == d.Starts-1 && !d.Merge && !deadStart {
			wf := b.Add(gen.KPar)
			last = b.Connect(cur, wf)
			for k := 0; k < d.WideEnd; k++ {
				we := b.Add(gen.KEnd)
				b.Connect(wf, we)
			}
		} else if d.Merge {
			last = b.Connect(cur, merge)
		} else {
			en := b.Add(gen.KEnd)
			last = b.Connect(cur, en)
		}
		if d.CondStarts&(1<<i) != 0 && len(st.Out) >= 2 {
			if rf := b.G.Flow(st.Out[1]); rf != nil && rf.Cond == nil {
				rf.Formal, rf.Cond = true, gen.True()
			}
		}
		if deadStart {
			last.Formal, last.Cond = true, gen.False()
		}
	}
	return b.G
}

type waiter struct {
	id              int
	ctx             context.Context
	cancel          context.CancelFunc
	res             chan bool
	done            bool
	val             bool
	expired         bool // harness cancelled its context
	startedDone     bool // model was already done when the waiter was started
	expiredWhenDone bool
}

type result struct {
	Symptom, Detail string
	History         []string
	Traces          []string
	Gs              string
	Inconcl         string
	XML             string
	Waits, Answers  int
	Rewait          bool
	AnsBetween      bool
}

func runCase(d descriptor) *result {
	g := build(d)
	prog := &gen.Program{G: g, DefaultLang: "expr"}
	r := &result{XML: prog.XML()}
	if d.Perturb != 0 {
		perturb.Install(d.Perturb, 50, map[string]bool{"process.startwith": true, "tracer.send": true})
		defer perturb.Remove()
	}
	in, err := drive.New(r.XML, drive.Options{SplitCtx: d.SplitCtx})
	if err != nil {
		r.Symptom, r.Detail = "construct", err.Error()
		return r
	}
	defer in.Close()
	m := model.New(g, nil)
	fail := func(sym, det string, gs []quiesce.G) *result {
		r.Symptom, r.Detail = sym, det
		r.Traces = drive.DescribeAll(in.Traces())
		if gs != nil {
			r.Gs = quiesce.Dump(gs)
		}
		return r
	}
	if d.PreWait > 0 {
		pctx, pcancel := context.WithCancel(context.Background())
		if d.PreWait == 1 {
			pcancel()
		}
		pre := make(chan bool, 1)
		go func() { pre <- in.P.WaitUntilComplete(pctx) }()
		gs, qerr := in.Quiesce()
		if qerr != nil {
			pcancel()
			r.Inconcl = qerr.Error()
			return r
		}
		select {
		case <-pre:
		default:
			// a live wait on an instance that was never started may legitimately
			// still be waiting; an expired one must have returned
			if d.PreWait == 1 {
				pcancel()
				return fail("wait-blocked", "a wait issued before the start with an expired context has not returned", gs)
			}
		}
		pcancel()
		r.History = append(r.History, fmt.Sprintf("wait before the start (context expired: %v)", d.PreWait == 1))
	}
	startDone := make(chan error, 1)
	var eager *waiter
	if d.EagerWait {
		eager = &waiter{id: 0, res: make(chan bool, 1)}
		eager.ctx, eager.cancel = context.WithCancel(context.Background())
	}
	go func() {
		e := in.StartAll()
		startDone <- e // (buffered: does not wait for a reader)
		if e == nil && eager != nil {
			eager.res <- in.P.WaitUntilComplete(eager.ctx)
		}
	}()
	gs, qerr := in.Quiesce()
	if qerr != nil {
		r.Inconcl = qerr.Error()
		return r
	}
	select {
	case e := <-startDone:
		if e != nil {
			return fail("start-error", e.Error(), gs)
		}
	default:
		return fail("start-blocked", fmt.Sprintf("StartAll with %d start events has not returned although every goroutine is parked", d.Starts), gs)
	}
	obs := m.Start()
	pend := map[string][]bpmn.TaskTrace{}
	take := func() []string {
		var ids []string
		for _, tt := range in.NewTasks() {
			id, _ := tt.GetActivity().Element().Id()
			pend[*id] = append(pend[*id], tt)
			ids = append(ids, *id)
		}
		sort.Strings(ids)
		return ids
	}
	got := take()
	if fmt.Sprint(got) != fmt.Sprint(obs.Requests) {
		return fail("requests", fmt.Sprintf("after start: requests %v want %v", got, obs.Requests), gs)
	}
	var waiters []*waiter
	if eager != nil {
		waiters = append(waiters, eager)
		r.Waits++
	}
	newWaiter := func() *waiter {
		w := &waiter{id: len(waiters), res: make(chan bool, 1), startedDone: m.Done()}
		w.ctx, w.cancel = context.WithCancel(context.Background())
		waiters = append(waiters, w)
		go func() { w.res <- in.P.WaitUntilComplete(w.ctx) }()
		r.Waits++
		return w
	}
	lastWasWait := false
	check := func(stage string) *result {
		gs, err := in.Quiesce()
		if err != nil {
			r.Inconcl = err.Error()
			return r
		}
		for _, w := range waiters {
			if !w.done {
				select {
				case v := <-w.res:
					w.done, w.val = true, v
				default:
				}
			}
			if w.done && w.val && !m.Done() {
				return fail("true-early", fmt.Sprintf("%s: waiter %d returned true while the model still holds tokens / pending %v", stage, w.id, m.PendingIDs()), gs)
			}
			if w.done && !w.val && !w.expired {
				return fail("false-without-expiry", fmt.Sprintf("%s: waiter %d returned false although its context is alive", stage, w.id), gs)
			}
			if w.expired && !w.done {
				return fail("wait-blocked", fmt.Sprintf("%s: waiter %d has not returned although its context was cancelled and the instance is quiescent", stage, w.id), gs)
			}
			if w.expired && w.done && w.val && !w.expiredWhenDone {
				return fail("true-early", fmt.Sprintf("%s: waiter %d whose context expired before completion returned true", stage, w.id), gs)
			}
			if m.Done() && !w.expired && !w.done {
				return fail("not-complete", fmt.Sprintf("%s: model has no token left and all start events fired, waiter %d still blocked at quiescence", stage, w.id), gs)
			}
		}
		return nil
	}
	if res := check("after start"); res != nil {
		return res
	}
	for ai, a := range d.Actions {
		switch a.Kind {
		case "answer":
			if len(m.Pending) == 0 {
				continue
			}
			idx := a.Arg % len(m.Pending)
			node := m.Pending[idx].Node.ID
			tt := pend[node][0]
			pend[node] = pend[node][1:]
			tt.Do()
			obs = m.Answer(idx, model.Answer{Kind: model.AnsOK})
			if _, err := in.Quiesce(); err != nil {
				r.Inconcl = err.Error()
				return r
			}
			got := take()
			if fmt.Sprint(got) != fmt.Sprint(obs.Requests) {
				return fail("requests", fmt.Sprintf("after answering %s: requests %v want %v", node, got, obs.Requests), nil)
			}
			r.Answers++
			if lastWasWait {
				r.AnsBetween = true
			}
			lastWasWait = false
			r.History = append(r.History, "answer "+node)
		case "event":
			in.P.ConsumeEvent(drive.Signal("bs"))
			obs = m.Event(model.Ev{Kind: "signal", Ref: "bs"})
			if _, err := in.Quiesce(); err != nil {
				r.Inconcl = err.Error()
				return r
			}
			got := take()
			if fmt.Sprint(got) != fmt.Sprint(obs.Requests) {
				return fail("requests", fmt.Sprintf("after the boundary event: requests %v want %v", got, obs.Requests), nil)
			}
			r.History = append(r.History, "boundary event delivered")
		case "startSignal":
			ref := fmt.Sprintf("ss%d", a.Arg%d.Starts)
			in.P.ConsumeEvent(drive.Signal(ref))
			if _, err := in.Quiesce(); err != nil {
				r.Inconcl = err.Error()
				return r
			}
			if got := take(); len(got) != 0 {
				return fail("requests", fmt.Sprintf("signal %s handed to the instance after its start events fired: requests %v, want none", ref, got), nil)
			}
			r.History = append(r.History, "start signal "+ref+" delivered again")
		case "cancelBuild":
			if !d.SplitCtx {
				continue
			}
			in.CancelBuild()
			r.History = append(r.History, "construction context cancelled")
		case "wait":
			newWaiter()
			lastWasWait = true
			r.History = append(r.History, "wait")
		case "waitMany":
			n := 2 + a.Arg%3
			for i := 0; i < n; i++ {
				newWaiter()
			}
			lastWasWait = true
			r.History = append(r.History, fmt.Sprintf("wait x%d concurrently", n))
		case "waitExpire":
			w := newWaiter()
			if _, err := in.Quiesce(); err != nil {
				r.Inconcl = err.Error()
				return r
			}
			w.expired = true
			w.expiredWhenDone = m.Done()
			w.cancel()
			lastWasWait = true
			r.History = append(r.History, "wait with a context that expires")
		case "rewait":
			// a caller whose earlier wait ended by expiry waits again
			for _, w := range waiters {
				if w.expired {
					newWaiter()
					r.Rewait = true
					r.History = append(r.History, "wait again after expiry")
					break
				}
			}
			lastWasWait = true
		}
		if res := check(fmt.Sprintf("after action %d (%s)", ai, a.Kind)); res != nil {
			return res
		}
	}
	// drain: answer everything, then a final waiter must return true
	for len(m.Pending) > 0 {
		node := m.Pending[0].Node.ID
		tt := pend[node][0]
		pend[node] = pend[node][1:]
		tt.Do()
		obs = m.Answer(0, model.Answer{Kind: model.AnsOK})
		if _, err := in.Quiesce(); err != nil {
			r.Inconcl = err.Error()
			return r
		}
		got := take()
		if fmt.Sprint(got) != fmt.Sprint(obs.Requests) {
			return fail("requests", fmt.Sprintf("drain: after answering %s: requests %v want %v", node, got, obs.Requests), nil)
		}
		if res := check("drain"); res != nil {
			return res
		}
	}
	if !m.Done() {
		return fail("model", "internal: model not done after draining", nil)
	}
	newWaiter()
	if res := check("final wait"); res != nil {
		return res
	}
	if d.SigStarts != 0 {
		// the signals of the start events once more, after completion
		for i := 0; i < d.Starts; i++ {
			in.P.ConsumeEvent(drive.Signal(fmt.Sprintf("ss%d", i)))
		}
		if _, err := in.Quiesce(); err != nil {
			r.Inconcl = err.Error()
			return r
		}
		if got := take(); len(got) != 0 {
			return fail("requests", fmt.Sprintf("start signals handed to the completed instance: requests %v, want none", got), nil)
		}
		newWaiter()
		if res := check("after the late start signals"); res != nil {
			return res
		}
	}
	// cease-flow trace: exactly once, and last among flow traces
	tr := in.Traces()
	cease := -1
	n := 0
	for i, t := range tr {
		if c, ok := t.(bpmn.CeaseFlowTrace); ok {
			_ = c
			n++
			cease = i
		}
	}
	if n != 1 {
		return fail("cease-count", fmt.Sprintf("%d CeaseFlowTrace emitted, want exactly 1", n), nil)
	}
	for _, t := range tr[cease+1:] {
		switch t.(type) {
		case bpmn.VisitTrace, bpmn.LeaveTrace, bpmn.FlowTrace, bpmn.TerminationTrace, bpmn.CompletionTrace, bpmn.NewFlowTrace, bpmn.TaskTrace:
			return fail("cease-order", fmt.Sprintf("trace %s follows the CeaseFlowTrace", drive.Describe(t)), nil)
		}
	}
	if d.Restart {
		if err := in.StartAll(); err != nil {
			return fail("restart", "StartAll on the completed instance: "+err.Error(), nil)
		}
		for round := 0; round < 40; round++ {
			if _, err := in.Quiesce(); err != nil {
				r.Inconcl = err.Error()
				return r
			}
			ts := in.NewTasks()
			if len(ts) == 0 {
				break
			}
			for _, tt := range ts {
				tt.Do()
			}
		}
		n = 0
		for _, t := range in.Traces() {
			if _, ok := t.(bpmn.CeaseFlowTrace); ok {
				n++
			}
		}
		if n != 1 {
			return fail("cease-count", fmt.Sprintf("the completed instance was started again and run to the end: %d CeaseFlowTrace emitted for the one instance, want exactly 1", n), nil)
		}
	}
	for _, w := range waiters {
		w.cancel()
	}
	return r
}

func draw(rt *rapid.T) descriptor {
	maxStarts := 3
	if rec.Exclude("C02-F3") {
		maxStarts = 1
	}
	d := descriptor{Starts: rapid.IntRange(1, maxStarts).Draw(rt, "starts"), Merge: rapid.Bool().Draw(rt, "merge"), Par: rapid.Bool().Draw(rt, "par"),
		Perturb: uint64(rapid.IntRange(0, 500).Draw(rt, "perturb")), ForkEnd: rapid.SampledFrom([]int{0, 0, 1, 2}).Draw(rt, "forkEnd"),
		SubDead: rapid.IntRange(0, 5).Draw(rt, "subDead") == 0, PreWait: rapid.SampledFrom([]int{0, 0, 0, 1, 2}).Draw(rt, "preWait")}
	for i := 0; i < d.Starts; i++ {
		d.Chain = append(d.Chain, rapid.IntRange(-1, 2).Draw(rt, "chain"))
	}
	if !d.Par && d.ForkEnd == 0 && d.Chain[0] >= 1 && rapid.IntRange(0, 3).Draw(rt, "boundary") == 0 {
		d.Boundary = true
		d.Actions = append(d.Actions, action{Kind: "event"})
	}
	na := rapid.IntRange(0, 8).Draw(rt, "nActions")
	kinds := []string{"answer", "answer", "wait", "waitExpire", "waitMany", "rewait"}
	if !d.SubDead && rapid.IntRange(0, 3).Draw(rt, "splitCtx") == 0 {
		d.SplitCtx = true
		kinds = append(kinds, "cancelBuild")
	}
	d.EagerWait = rapid.Bool().Draw(rt, "eagerWait")
	d.WideEnd = rapid.SampledFrom([]int{0, 0, 0, 8, 16, 32}).Draw(rt, "wideEnd")
	if rapid.IntRange(0, 2).Draw(rt, "condStarts") == 0 {
		d.CondStarts = rapid.IntRange(1, 1<<d.Starts-1).Draw(rt, "condStartMask")
	}
	if rapid.IntRange(0, 2).Draw(rt, "signalStarts") == 0 {
		d.SigStarts = rapid.IntRange(1, 1<<d.Starts-1).Draw(rt, "sigStarts")
		kinds = append(kinds, "startSignal")
	}
	d.Restart = !d.SubDead && !d.Boundary && d.SigStarts == 0 && rapid.IntRange(0, 2).Draw(rt, "restart") == 0
	for i := 0; i < na; i++ {
		d.Actions = append(d.Actions, action{Kind: rapid.SampledFrom(kinds).Draw(rt, "kind"), Arg: rapid.IntRange(0, 5).Draw(rt, "arg")})
	}
	return d
}

func TestC02Waiters(t *testing.T) {
	var rd descriptor
	if ok, err := rec.ReplayInput(&rd); ok {
		if err != nil {
			t.Fatal(err)
		}
		fails := 0
		for i := 0; i < 20; i++ {
			r := runCase(rd)
			if r.Symptom != "" {
				fails++
				if fails == 1 {
					fmt.Printf("REPRODUCED %s: %s\n", r.Symptom, r.Detail)
				}
			}
		}
		if fails > 0 {
			t.Fatalf("reproduced in %d of 20 runs", fails)
		}
		return
	}
	rapid.Check(t, func(rt *rapid.T) {
		d := draw(rt)
		hash := rec.Hash(d)
		rec.Begin("TestC02Waiters", hash, d)
		r := runCase(d)
		if r.Inconcl != "" {
			rec.End(hash, "inconclusive")
			rec.Inconclusive("TestC02Waiters", r.Inconcl)
			rt.Fatalf("inconclusive: %s", r.Inconcl)
		}
		rec.End(hash, r.Symptom)
		cls := []string{fmt.Sprintf("starts=%d", d.Starts)}
		if r.Rewait {
			cls = append(cls, "rewaitAfterExpiry")
		}
		if r.Waits >= 2 {
			cls = append(cls, "waiters>=2")
		}
		if d.Merge {
			cls = append(cls, "merge")
		}
		if d.PreWait > 0 {
			cls = append(cls, "waitBeforeStart")
		}
		if d.Boundary {
			cls = append(cls, "boundaryPathToken")
		}
		if d.SplitCtx {
			cls = append(cls, "startContextDiffersFromConstructionContext")
		}
		nt := (r.Waits >= 2 || r.Rewait || d.Starts >= 2) && r.AnsBetween
		rec.Case("TestC02Waiters", hash, nt, cls, map[string]any{"case": d, "history": r.History})
		if r.Symptom == "" {
			return
		}
		if rec.Unrestricted() && rec.Known("C02-F3") && d.Starts >= 2 && r.Symptom == "start-blocked" {
			rec.KnownHit("TestC02Waiters", "C02-F3", hash)
			return
		}
		rt.Fatalf("%s", rec.Fail(rec.Failure{Property: prop, Test: "TestC02Waiters", Symptom: r.Symptom, Detail: r.Detail, Descriptor: d,
			History: map[string]any{"steps": r.History, "traces": r.Traces, "xml": r.XML}, Goroutines: r.Gs}))
	})
}
