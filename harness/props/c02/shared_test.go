package c02

// TestC02Shared: several instances reporting to ONE tracer (bpmn.WithTracer),
// start events triggered one by one (Process.StartWith), histories that
// interleave the instances. Completion of an instance must depend on its own
// start events and its own tokens only.

import (
	"context"
	"fmt"
	"sort"
	"sync"
	"testing"
	"time"

	"github.com/olive-io/bpmn/schema"
	bpmn "github.com/olive-io/bpmn/v2"
	"github.com/olive-io/bpmn/v2/pkg/tracing"
	"pgregory.net/rapid"

	"verif/harness/drive"
	"verif/harness/gen"
	"verif/harness/model"
	"verif/harness/perturb"
	"verif/harness/quiesce"
	"verif/harness/rec"
)

type sInst struct {
	Starts int   `json:"starts"`
	Chain  []int `json:"chain"`
	Merge  bool  `json:"merge"`
	First  int   `json:"first"` // start events triggered by the instance's first start action (1..Starts); the rest by its second
	// SigStarts: bit k set = start event k carries a signal definition "ss<k>";
	// the action "resignal" hands the instance the signal of a start event that
	// has ALREADY fired: nothing may happen (in particular the start event does
	// not count a second time towards "every start event has fired")
	SigStarts int `json:"sigStarts,omitempty"`
	// CondStarts: see descriptor.CondStarts (a false conditional flow listed
	// before the start event's real flow)
	CondStarts int `json:"condStarts,omitempty"`
}

type sAction struct {
	Kind string `json:"kind"` // start | answer | wait | waitExpire
	Inst int    `json:"inst"`
	Arg  int    `json:"arg"`
}

type sharedDesc struct {
	Insts   []sInst   `json:"insts"`
	Shared  bool      `json:"shared"` // false: every instance has its own tracer (control group)
	Actions []sAction `json:"actions"`
	Perturb uint64    `json:"perturb"`
}

type sRun struct {
	p       *bpmn.Process
	m       *model.M
	g       *gen.Graph
	starts  []*schema.StartEvent
	fired   int
	pend    map[string][]bpmn.TaskTrace
	waiters []*waiter
	id      string
}

type sharedResult struct {
	Symptom, Detail string
	History         []string
	Traces          []string
	Gs              string
	Inconcl         string
	XML             []string
	Partial         bool // some instance stayed partially started across another instance's start
	Interleaved     bool
}

func runShared(d sharedDesc) *sharedResult {
	r := &sharedResult{}
	tr := quiesce.Begin()
	if d.Perturb != 0 {
		perturb.Install(d.Perturb, 50, map[string]bool{"process.startwith": true, "tracer.send": true, "start.flow": true})
		defer perturb.Remove()
	}
	ctx, cancel := context.WithCancel(context.Background())
	defer cancel()
	var mu sync.Mutex
	var all []string
	tasks := map[string][]bpmn.TaskTrace{}
	cease := map[string]int{}
	afterCease := map[string]string{}
	var readers []chan struct{}
	attach := func(t tracing.ITracer) {
		sub := t.SubscribeChannel(make(chan tracing.ITrace))
		done := make(chan struct{})
		readers = append(readers, done)
		go func() {
			defer close(done)
			for x := range sub {
				if x == nil {
					continue
				}
				iid := ""
				if it, ok := x.(bpmn.InstanceTrace); ok {
					iid = it.InstanceId.String()
				}
				u := tracing.Unwrap(x)
				mu.Lock()
				all = append(all, iid[max(0, len(iid)-4):]+":"+drive.Describe(u))
				switch v := u.(type) {
				case bpmn.TaskTrace:
					tasks[iid] = append(tasks[iid], v)
				case bpmn.CeaseFlowTrace:
					cease[iid]++
				case bpmn.VisitTrace, bpmn.LeaveTrace, bpmn.FlowTrace, bpmn.TerminationTrace, bpmn.CompletionTrace, bpmn.NewFlowTrace:
					if cease[iid] > 0 && afterCease[iid] == "" {
						afterCease[iid] = drive.Describe(u)
					}
				}
				mu.Unlock()
			}
		}()
	}
	var shared tracing.ITracer
	if d.Shared {
		shared = tracing.NewTracer(ctx)
		attach(shared)
	}
	runs := make([]*sRun, len(d.Insts))
	fail := func(sym, det string, gs []quiesce.G) *sharedResult {
		r.Symptom, r.Detail = sym, det
		mu.Lock()
		r.Traces = append([]string(nil), all...)
		mu.Unlock()
		if gs != nil {
			r.Gs = quiesce.Dump(gs)
		}
		return r
	}
	for i, si := range d.Insts {
		g := build(descriptor{Starts: si.Starts, Chain: si.Chain, Merge: si.Merge, SigStarts: si.SigStarts, CondStarts: si.CondStarts})
		prog := &gen.Program{G: g, DefaultLang: "expr"}
		x := prog.XML()
		r.XML = append(r.XML, x)
		defs, err := schema.Parse([]byte(x))
		if err != nil {
			return fail("construct", err.Error(), nil)
		}
		opts := []bpmn.Option{bpmn.WithContext(ctx)}
		if d.Shared {
			opts = append(opts, bpmn.WithTracer(shared))
		}
		p, err := bpmn.NewEngine().NewProcess(defs, opts...)
		if err != nil {
			return fail("construct", err.Error(), nil)
		}
		if !d.Shared {
			attach(p.Tracer())
		}
		run := &sRun{p: p, m: model.New(g, nil), g: g, pend: map[string][]bpmn.TaskTrace{}, id: p.Id().String()}
		ses := *p.Element().StartEvents()
		for k := range ses {
			run.starts = append(run.starts, &(*p.Element().StartEvents())[k])
		}
		runs[i] = run
	}
	defer func() {
		for _, run := range runs {
			if run == nil {
				continue
			}
			for _, w := range run.waiters {
				w.cancel()
			}
		}
		cancel()
		for _, d := range readers {
			select {
			case <-d:
			case <-time.After(2 * time.Second):
			}
		}
	}()
	take := func(run *sRun) []string {
		mu.Lock()
		ts := tasks[run.id]
		tasks[run.id] = nil
		mu.Unlock()
		var ids []string
		for _, tt := range ts {
			id, _ := tt.GetActivity().Element().Id()
			run.pend[*id] = append(run.pend[*id], tt)
			ids = append(ids, *id)
		}
		sort.Strings(ids)
		return ids
	}
	// after every action: each instance's new requests equal its model's; waiter invariants
	check := func(stage string, want map[int]model.Obs) *sharedResult {
		gs, err := tr.Wait(0)
		if err != nil {
			r.Inconcl = err.Error()
			return r
		}
		for i, run := range runs {
			got := take(run)
			w := want[i].Requests
			if fmt.Sprint(got) != fmt.Sprint(w) && !(len(got) == 0 && len(w) == 0) {
				return fail("requests", fmt.Sprintf("%s: instance %d requests %v want %v", stage, i, got, w), gs)
			}
			for _, w := range run.waiters {
				if !w.done {
					select {
					case v := <-w.res:
						w.done, w.val = true, v
					default:
					}
				}
				if w.done && w.val && !run.m.Done() {
					return fail("true-early", fmt.Sprintf("%s: instance %d (%d of %d start events fired, pending %v): waiter %d returned true", stage, i, run.fired, len(run.starts), run.m.PendingIDs(), w.id), gs)
				}
				if w.done && !w.val && !w.expired {
					return fail("false-without-expiry", fmt.Sprintf("%s: instance %d waiter %d returned false although its context is alive", stage, i, w.id), gs)
				}
				if w.expired && !w.done {
					return fail("wait-blocked", fmt.Sprintf("%s: instance %d waiter %d has not returned although its context was cancelled", stage, i, w.id), gs)
				}
				if w.expired && w.done && w.val && !w.expiredWhenDone {
					return fail("true-early", fmt.Sprintf("%s: instance %d waiter %d whose context expired before completion returned true", stage, i, w.id), gs)
				}
				if run.m.Done() && !w.expired && !w.done {
					return fail("not-complete", fmt.Sprintf("%s: instance %d: all start events fired and no token left, waiter %d still blocked at quiescence", stage, i, w.id), gs)
				}
			}
			mu.Lock()
			c := cease[run.id]
			mu.Unlock()
			if !run.m.Done() && c > 0 {
				return fail("cease-early", fmt.Sprintf("%s: instance %d (%d of %d start events fired, pending %v) emitted its CeaseFlowTrace", stage, i, run.fired, len(run.starts), run.m.PendingIDs()), gs)
			}
			if run.m.Done() && c != 1 {
				return fail("cease-count", fmt.Sprintf("%s: instance %d is complete, %d CeaseFlowTrace seen, want 1", stage, i, c), gs)
			}
		}
		return nil
	}
	newWaiter := func(run *sRun) *waiter {
		w := &waiter{id: len(run.waiters), res: make(chan bool, 1), startedDone: run.m.Done()}
		w.ctx, w.cancel = context.WithCancel(context.Background())
		run.waiters = append(run.waiters, w)
		go func() { w.res <- run.p.WaitUntilComplete(w.ctx) }()
		return w
	}
	// start the next group of start events of an instance; returns nil obs if nothing left
	start := func(i int) (*model.Obs, *sharedResult) {
		run := runs[i]
		if run.fired >= len(run.starts) {
			return nil, nil
		}
		n := len(run.starts) - run.fired
		if run.fired == 0 {
			n = d.Insts[i].First
			if n < 1 || n > len(run.starts) {
				n = len(run.starts)
			}
		}
		var ids []string
		done := make(chan error, 1)
		grp := run.starts[run.fired : run.fired+n]
		go func() {
			for _, se := range grp {
				if err := run.p.StartWith(ctx, se); err != nil {
					done <- err
					return
				}
			}
			done <- nil
		}()
		for _, se := range grp {
			id, _ := se.Id()
			ids = append(ids, *id)
		}
		gs, err := tr.Wait(0)
		if err != nil {
			r.Inconcl = err.Error()
			return nil, r
		}
		select {
		case e := <-done:
			if e != nil {
				return nil, fail("start-error", e.Error(), gs)
			}
		default:
			return nil, fail("start-blocked", fmt.Sprintf("instance %d: StartWith(%v) has not returned although every goroutine is parked", i, ids), gs)
		}
		run.fired += n
		obs := run.m.StartOnly(ids)
		r.History = append(r.History, fmt.Sprintf("instance %d: StartWith %v (%d of %d fired)", i, ids, run.fired, len(run.starts)))
		for j, o := range runs {
			if j != i && o.fired > 0 && o.fired < len(o.starts) {
				r.Partial = true
			}
			if j != i && o.fired > 0 && !o.m.Done() {
				r.Interleaved = true
			}
		}
		return &obs, nil
	}
	answer := func(i, arg int) *model.Obs {
		run := runs[i]
		if len(run.m.Pending) == 0 {
			return nil
		}
		idx := arg % len(run.m.Pending)
		node := run.m.Pending[idx].Node.ID
		tt := run.pend[node][0]
		run.pend[node] = run.pend[node][1:]
		tt.Do()
		obs := run.m.Answer(idx, model.Answer{Kind: model.AnsOK})
		r.History = append(r.History, fmt.Sprintf("instance %d: answer %s", i, node))
		return &obs
	}
	step := func(stage string, i int, o *model.Obs) *sharedResult {
		want := map[int]model.Obs{}
		if o != nil {
			want[i] = *o
		}
		return check(stage, want)
	}
	// instance 0 always starts first
	o, res := start(0)
	if res != nil {
		return res
	}
	if res := step("after first start", 0, o); res != nil {
		return res
	}
	for ai, a := range d.Actions {
		i := a.Inst % len(runs)
		run := runs[i]
		var o *model.Obs
		switch a.Kind {
		case "start":
			var res *sharedResult
			o, res = start(i)
			if res != nil {
				return res
			}
		case "answer":
			o = answer(i, a.Arg)
		case "resignal":
			if run.fired == 0 {
				continue
			}
			k := a.Arg % run.fired
			if d.Insts[i].SigStarts&(1<<k) == 0 {
				continue
			}
			run.p.ConsumeEvent(drive.Signal(fmt.Sprintf("ss%d", k)))
			r.History = append(r.History, fmt.Sprintf("instance %d: signal of its start event %d (fired already) delivered again", i, k))
		case "wait":
			if run.fired == 0 {
				// waiting on an instance no start event of which was ever
				// triggered is outside the domain (no caller does it; the
				// statement speaks about started instances)
				continue
			}
			newWaiter(run)
			r.History = append(r.History, fmt.Sprintf("instance %d: wait", i))
		case "waitExpire":
			if run.fired == 0 {
				continue
			}
			w := newWaiter(run)
			if _, err := tr.Wait(0); err != nil {
				r.Inconcl = err.Error()
				return r
			}
			w.expired, w.expiredWhenDone = true, run.m.Done()
			w.cancel()
			r.History = append(r.History, fmt.Sprintf("instance %d: wait with a context that expires", i))
		}
		if res := step(fmt.Sprintf("after action %d (%s instance %d)", ai, a.Kind, i), i, o); res != nil {
			return res
		}
	}
	// drain: fire every remaining start event, answer everything
	for i, run := range runs {
		for run.fired < len(run.starts) {
			o, res := start(i)
			if res != nil {
				return res
			}
			if res := step("drain start", i, o); res != nil {
				return res
			}
		}
		for len(run.m.Pending) > 0 {
			o := answer(i, 0)
			if res := step("drain", i, o); res != nil {
				return res
			}
		}
		if !run.m.Done() {
			return fail("model", "internal: model not done after draining", nil)
		}
		newWaiter(run)
	}
	if res := check("final wait", nil); res != nil {
		return res
	}
	mu.Lock()
	defer mu.Unlock()
	for i, run := range runs {
		if s := afterCease[run.id]; s != "" {
			r.Symptom, r.Detail = "cease-order", fmt.Sprintf("instance %d: trace %s follows its CeaseFlowTrace", i, s)
			r.Traces = append([]string(nil), all...)
			return r
		}
	}
	return r
}

func drawShared(rt *rapid.T) sharedDesc {
	d := sharedDesc{Shared: rapid.IntRange(0, 4).Draw(rt, "shared") > 0, Perturb: uint64(rapid.IntRange(0, 500).Draw(rt, "perturb"))}
	n := rapid.IntRange(2, 3).Draw(rt, "instances")
	for i := 0; i < n; i++ {
		si := sInst{Starts: rapid.IntRange(1, 3).Draw(rt, "starts"), Merge: rapid.Bool().Draw(rt, "merge")}
		for k := 0; k < si.Starts; k++ {
			si.Chain = append(si.Chain, rapid.IntRange(-1, 2).Draw(rt, "chain"))
		}
		si.First = rapid.IntRange(1, si.Starts).Draw(rt, "first")
		if rapid.Bool().Draw(rt, "condStarts") {
			si.CondStarts = rapid.IntRange(1, 1<<si.Starts-1).Draw(rt, "condStartMask")
		}
		if rapid.Bool().Draw(rt, "signalStarts") {
			si.SigStarts = rapid.IntRange(1, 1<<si.Starts-1).Draw(rt, "sigStarts")
		}
		d.Insts = append(d.Insts, si)
	}
	na := rapid.IntRange(1, 10).Draw(rt, "nActions")
	for i := 0; i < na; i++ {
		d.Actions = append(d.Actions, sAction{Kind: rapid.SampledFrom([]string{"start", "start", "answer", "answer", "wait", "waitExpire", "resignal"}).Draw(rt, "kind"),
			Inst: rapid.IntRange(0, n-1).Draw(rt, "inst"), Arg: rapid.IntRange(0, 3).Draw(rt, "arg")})
	}
	return d
}

func TestC02Shared(t *testing.T) {
	var rd sharedDesc
	if ok, err := rec.ReplayInput(&rd); ok {
		if err != nil {
			t.Fatal(err)
		}
		fails := 0
		for i := 0; i < 20; i++ {
			r := runShared(rd)
			if r.Symptom != "" {
				fails++
				if fails == 1 {
					fmt.Printf("REPRODUCED %s: %s\n", r.Symptom, r.Detail)
				}
			}
		}
		if fails > 0 {
			t.Fatalf("reproduced in %d of 20 runs", fails)
		}
		return
	}
	rapid.Check(t, func(rt *rapid.T) {
		d := drawShared(rt)
		hash := rec.Hash(d)
		rec.Begin("TestC02Shared", hash, d)
		r := runShared(d)
		if r.Inconcl != "" {
			rec.End(hash, "inconclusive")
			rec.Inconclusive("TestC02Shared", r.Inconcl)
			rt.Fatalf("inconclusive: %s", r.Inconcl)
		}
		rec.End(hash, r.Symptom)
		var cls []string
		if d.Shared {
			cls = append(cls, "sharedTracer")
		}
		if r.Partial {
			cls = append(cls, "partialStartAcrossForeignStart")
		}
		if r.Interleaved {
			cls = append(cls, "interleavedInstances")
		}
		nt := d.Shared && (r.Partial || r.Interleaved)
		rec.Case("TestC02Shared", hash, nt, cls, map[string]any{"case": d, "history": r.History})
		if r.Symptom == "" {
			return
		}
		rt.Fatalf("%s", rec.Fail(rec.Failure{Property: prop, Test: "TestC02Shared", Symptom: r.Symptom, Detail: r.Detail, Descriptor: d,
			History: map[string]any{"steps": r.History, "traces": r.Traces, "xml": r.XML}, Goroutines: r.Gs}))
	})
}
