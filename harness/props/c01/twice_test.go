package c01

// TestC01Twice: TWO instances are created, one after the other, from ONE
// parsed definitions model - with different variable and data-object values,
// so that their tokens take different routes. Each is run in lock-step with
// the token game. What the first instance did (conditions it evaluated,
// wiring it resolved, engines and caches it warmed up) must not show in the
// second: an instance's behaviour follows from the model and its own data.

import (
	"encoding/json"
	"fmt"
	"testing"

	"github.com/olive-io/bpmn/schema"
	"pgregory.net/rapid"

	"verif/harness/drive"
	"verif/harness/gen"
	"verif/harness/model"
	"verif/harness/quiesce"
	"verif/harness/rec"
)

type twiceCase struct {
	First  *drive.Case    `json:"first"`
	Vars2  map[string]any `json:"vars2"`
	Sched2 []int          `json:"sched2"`
	// EditConds (programs without sub-processes): between the two instances
	// the model is edited in code - the process gets a NEW slice of sequence
	// flows in which every gateway / activity condition is negated - and the
	// second instance must follow the edited model
	EditConds bool `json:"editConds,omitempty"`
}

// negated returns a copy of the program in which the conditions of exclusive /
// inclusive gateways and of conditional flows leaving activities are negated
// (loop conditions stay: the plans decide how often a loop is taken).
func negated(b *gen.Block) *gen.Block {
	raw, _ := json.Marshal(b)
	var c gen.Block
	_ = json.Unmarshal(raw, &c)
	var walk func(x *gen.Block)
	walk = func(x *gen.Block) {
		if x == nil {
			return
		}
		if x.K == "xor" || x.K == "inc" || x.K == "ctask" {
			for i, cond := range x.Conds {
				if cond != nil {
					x.Conds[i] = &gen.Cond{Op: "not", L: cond}
				}
			}
		}
		for _, k := range x.Kids {
			walk(k)
		}
	}
	walk(&c)
	return &c
}

func runTwice(tc *twiceCase, pick1, pick2 func(int) int) (out *drive.Outcome, which string) {
	var defs *schema.Definitions
	hk := &drive.Hooks{NewInst: func(xml string, vars map[string]any) (*drive.Inst, error) {
		if defs == nil {
			d, err := schema.Parse([]byte(xml))
			if err != nil {
				return nil, err
			}
			defs = d
		}
		ev, do := drive.SplitVars(vars)
		in, err := drive.NewFromDefs(defs, quiesce.Begin(), drive.Options{Vars: ev})
		if err == nil {
			drive.ApplyDataObjects(in, do)
		}
		return in, err
	}}
	c1 := *tc.First
	c1.CancelBuildAfter = 0
	out = drive.RunLockstep(&c1, pick1, hk)
	tc.First.Schedule = c1.Schedule
	if out.Inconcl != "" || out.Symptom != "" {
		return out, "first instance"
	}
	c2 := c1
	c2.Vars = tc.Vars2
	c2.Schedule = tc.Sched2
	if tc.EditConds && defs != nil && len(*defs.Processes()) > 0 {
		c2.Prog = negated(c1.Prog)
		pb, _ := c2.BuildProgram()
		defsB, err := schema.Parse([]byte(pb.XML()))
		if err != nil || len(*defsB.Processes()) == 0 {
			out.Inconcl = fmt.Sprintf("edited program does not parse: %v", err)
			return out, "edit"
		}
		fresh := append([]schema.SequenceFlow(nil), *(*defsB.Processes())[0].SequenceFlows()...)
		(*defs.Processes())[0].SetSequenceFlows(fresh)
	}
	out = drive.RunLockstep(&c2, pick2, hk)
	tc.Sched2 = c2.Schedule
	return out, "second instance (created from the same parsed model, other data)"
}

func TestC01Twice(t *testing.T) {
	var rc twiceCase
	if ok, err := rec.ReplayInput(&rc); ok {
		if err != nil {
			t.Fatal(err)
		}
		if rc.First == nil {
			return
		}
		rc.First.Normalize()
		fix := &drive.Case{Vars: rc.Vars2, Answers: map[string][]model.Answer{}}
		fix.Normalize()
		rc.Vars2 = fix.Vars
		out, which := runTwice(&rc, nil, nil)
		if out.Symptom != "" {
			fmt.Printf("REPRODUCED %s (%s): %s\n", out.Symptom, which, out.Detail)
			t.Fatalf("%s", out.Symptom)
		}
		return
	}
	o := opts()
	rapid.Check(t, func(rt *rapid.T) {
		c := DrawCase(rt, o)
		tc := &twiceCase{First: c, Vars2: map[string]any{}}
		tc.EditConds = c.Prog.Features().Sub == 0 && rapid.IntRange(0, 2).Draw(rt, "editConds") == 0
		differs := false
		for k, v := range c.Vars {
			switch x := v.(type) {
			case bool:
				nv := rapid.Bool().Draw(rt, "second_"+k)
				differs = differs || nv != x
				tc.Vars2[k] = nv
			case int64:
				nv := int64(rapid.IntRange(0, 3).Draw(rt, "second_"+k))
				differs = differs || nv != x
				tc.Vars2[k] = nv
			default:
				tc.Vars2[k] = v
			}
		}
		mk := func(label string, dst *[]int) func(int) int {
			return func(n int) int {
				v := rapid.IntRange(0, n-1).Draw(rt, label)
				*dst = append(*dst, v)
				return v
			}
		}
		var s1, s2 []int
		hash := rec.Hash(tc)
		rec.Begin("TestC01Twice", hash, tc)
		out, which := runTwice(tc, mk("pick1", &s1), mk("pick2", &s2))
		if out.Inconcl != "" {
			rec.End(hash, "inconclusive")
			rec.Inconclusive("TestC01Twice", out.Inconcl)
			rt.Fatalf("inconclusive: %s", out.Inconcl)
		}
		rec.End(hash, out.Symptom)
		cls, _ := classes(c, out)
		rec.Case("TestC01Twice", hash, differs, append(cls, fmt.Sprintf("otherData:%v", differs)), map[string]any{"case": tc})
		if out.Symptom == "" {
			return
		}
		if rec.Unrestricted() {
			if k := knownMatch(c, out); k != "" {
				rec.KnownHit("TestC01Twice", k, hash)
				return
			}
		}
		rt.Fatalf("%s", rec.Fail(rec.Failure{Property: prop, Test: "TestC01Twice", Symptom: out.Symptom, Detail: which + ": " + out.Detail, Descriptor: tc,
			History: map[string]any{"steps": out.Steps, "traces": out.Traces, "xml": out.Program.XML()}, Goroutines: out.Gs}))
	})
}
