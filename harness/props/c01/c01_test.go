package c01

import (
	"fmt"
	"strings"
	"testing"

	"pgregory.net/rapid"

	"verif/harness/drive"
	"verif/harness/gen"
	"verif/harness/model"
	"verif/harness/rec"
)

const prop = "C01"

// DrawCase draws program, data and answer plan.
func DrawCase(t *rapid.T, o gen.GenOpts) *drive.Case {
	blk := gen.GenProgram(t, o)
	c := &drive.Case{Prog: blk, Lang: "expr", Vars: map[string]any{}, Answers: map[string][]model.Answer{}}
	if o.XPath && rapid.IntRange(0, 3).Draw(t, "xpathDefault") == 0 {
		c.Lang = "xpath"
	}
	c.DeclSeed = rapid.IntRange(0, 1000).Draw(t, "declSeed")
	if rapid.Bool().Draw(t, "perturbOn") {
		c.Perturb = uint64(rapid.IntRange(1, 1000).Draw(t, "perturb"))
	}
	for _, v := range gen.IntVars {
		c.Vars[v] = int64(rapid.IntRange(0, 3).Draw(t, v))
	}
	for _, v := range gen.BoolVars {
		c.Vars[v] = rapid.Bool().Draw(t, v)
	}
	if o.DataObjConds {
		for _, v := range gen.DataObjPool {
			c.Vars[gen.DataObjKey(v)] = rapid.Bool().Draw(t, "do_"+v)
		}
	}
	c.IDStyle = rapid.SampledFrom([]int{0, 0, 1, 2, 3}).Draw(t, "idStyle")
	if blk.Features().Sub == 0 && rapid.IntRange(0, 3).Draw(t, "cancelBuild") == 0 {
		// (not with sub-processes: their tracers are bound to the construction
		// context, a sub-process entered after that context ended is cancelled
		// at once and its token never leaves - what the statement says about
		// cancellation, C07, is checked there with split contexts)
		c.CancelBuildAfter = rapid.IntRange(1, 3).Draw(t, "cancelBuildAfter")
	}
	lw := gen.LowerStyle(blk, c.IDStyle)
	lw.G.AllNodes(func(n *gen.Node, _ *gen.Graph) {
		if n.Kind != gen.KTask {
			return
		}
		var as []model.Answer
		isLoop := false
		for _, r := range n.Results {
			if strings.HasPrefix(r, "lp") {
				isLoop = true
			}
		}
		if isLoop {
			c.Vars[n.Results[0]] = false
			iters := rapid.IntRange(0, 2).Draw(t, "iters")
			for i := 0; i < iters; i++ {
				as = append(as, model.Answer{Kind: model.AnsOK, Results: map[string]any{n.Results[0]: true}})
			}
			as = append(as, model.Answer{Kind: model.AnsOK, Results: map[string]any{n.Results[0]: false}})
		} else {
			na := rapid.IntRange(1, 2).Draw(t, "nAnswers")
			for i := 0; i < na; i++ {
				res := map[string]any{}
				for _, r := range n.Results {
					// a declared field may be left out of the answer: the variable
					// then keeps the value it has
					if rapid.IntRange(0, 3).Draw(t, "omit") == 0 {
						continue
					}
					if strings.HasPrefix(r, "n") {
						res[r] = int64(rapid.IntRange(0, 3).Draw(t, "rv"))
					} else {
						res[r] = rapid.Bool().Draw(t, "rb")
					}
				}
				// sometimes an undeclared name rides along: it must not be stored
				if rapid.IntRange(0, 5).Draw(t, "undeclared") == 0 {
					res["zz_undeclared"] = int64(7)
				}
				as = append(as, model.Answer{Kind: model.AnsOK, Results: res})
			}
		}
		c.Answers[n.ID] = as
	})
	return c
}

func classes(c *drive.Case, out *drive.Outcome) (cls []string, nontrivial bool) {
	f := c.Prog.Features()
	add := func(b bool, s string) {
		if b {
			cls = append(cls, s)
		}
	}
	add(f.Xor > 0, "xor")
	add(f.Par > 0, "par")
	add(f.Inc > 0, "inc")
	add(f.Loop > 0, "loop")
	add(f.Sub > 0, "sub")
	add(f.CTask > 0, "ctask")
	add(f.MMerge > 0, "mmerge")
	add(f.EarlyEnd > 0, "earlyEnd")
	add(f.MixedNest, "mixedNest")
	add(c.CancelBuildAfter > 0, "constructionContextCancelledMidRun")
	add(f.IncNested, "incNested")
	add(out.MaxPend >= 2, "pending>=2")
	add(out.LoopIter > 0, "loopIterated")
	add(out.Stuck, "stuckBySpec")
	add(c.Lang == "xpath", "xpath")
	cls = append(cls, fmt.Sprintf("depth=%d", f.Depth))
	gateway := f.Xor+f.Par+f.Inc+f.CTask+f.MMerge+f.Loop > 0
	nontrivial = gateway && (out.MaxPend >= 2 || out.LoopIter > 0 || f.MixedNest)
	return
}

func runCase(t interface{ Fatalf(string, ...any) }, test string, c *drive.Case, pick func(int) int) *drive.Outcome {
	hash := rec.Hash(c)
	rec.Begin(test, hash, c)
	out := drive.RunLockstep(c, pick, nil)
	if out.Inconcl != "" {
		rec.End(hash, "inconclusive")
		rec.Inconclusive(test, out.Inconcl)
		t.Fatalf("inconclusive: %s", out.Inconcl)
	}
	cls, nt := classes(c, out)
	sample := map[string]any{"case": c, "steps": out.Steps}
	rec.Case(test, hash, nt, cls, sample)
	rec.End(hash, out.Symptom)
	return out
}

// knownMatch attributes a failure of the unrestricted campaign to a listed
// finding only if the structural predicate AND the symptom class match.
func knownMatch(c *drive.Case, out *drive.Outcome) string {
	if c.Prog == nil {
		return ""
	}
	if rec.Known("C05-F1") && len(out.CohortRisk) > 0 {
		switch out.Symptom {
		case "missing-request", "not-complete", "extra-request", "flows", "ends", "errors", "complete-early":
			return "C05-F1"
		}
	}
	return ""
}

func report(t interface{ Fatalf(string, ...any) }, test string, c *drive.Case, out *drive.Outcome) {
	if out.Symptom == "" {
		return
	}
	if rec.Unrestricted() {
		if k := knownMatch(c, out); k != "" {
			rec.KnownHit(test, k, rec.Hash(c))
			return
		}
	}
	msg := rec.Fail(rec.Failure{Property: prop, Test: test, Symptom: out.Symptom, Detail: out.Detail, Descriptor: c,
		History: map[string]any{"steps": out.Steps, "traces": out.Traces, "xml": out.Program.XML()}, Goroutines: out.Gs})
	t.Fatalf("%s", msg)
}

func opts() gen.GenOpts {
	o := gen.GenOpts{MaxDepth: 3, MaxNodes: 12}
	if rec.Tier() == "thorough" {
		o.MaxDepth, o.MaxNodes = 4, 30
	}
	o.AllKinds = true
	o.DataObjConds = true
	o.XPath = !rec.Exclude("C04-F1")
	o.NoIncNest = rec.Exclude("C05-F1")
	o.NoSub = rec.Exclude("C12-F1")
	o.NoCTask = rec.Exclude("C01-F1")
	return o
}

func TestC01Lockstep(t *testing.T) {
	var rc drive.Case
	if ok, err := rec.ReplayInput(&rc); ok {
		if err != nil {
			t.Fatal(err)
		}
		rc.Normalize()
		out := drive.RunLockstep(&rc, nil, nil)
		if out.Symptom != "" {
			fmt.Printf("REPRODUCED %s: %s\n", out.Symptom, out.Detail)
			for _, s := range out.Steps {
				fmt.Printf("  step %s expected %v got %v\n", s.Stimulus, s.Expected, s.Got)
			}
			t.Fatalf("%s", out.Symptom)
		}
		return
	}
	o := opts()
	rapid.Check(t, func(rt *rapid.T) {
		c := DrawCase(rt, o)
		pick := func(n int) int {
			v := rapid.IntRange(0, n-1).Draw(rt, "pick")
			c.Schedule = append(c.Schedule, v)
			return v
		}
		out := runCase(rt, "TestC01Lockstep", c, pick)
		report(rt, "TestC01Lockstep", c, out)
	})
}
