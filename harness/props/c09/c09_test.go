package c09

import (
	"context"
	"fmt"
	"runtime"
	"sync"
	"sync/atomic"
	"testing"
	"time"

	"github.com/olive-io/bpmn/v2/pkg/tracing"
	"pgregory.net/rapid"

	"verif/harness/drive"
	"verif/harness/gen"
	"verif/harness/model"
	"verif/harness/perturb"
	"verif/harness/quiesce"
	"verif/harness/rec"
)

const prop = "C09"

// ---------------------------------------------------------------- part (a)

type payload struct {
	Sender, Seq int
	Sentinel    bool
}

func (p payload) Unpack() any { return p }

type subSpec struct {
	Buffer  int `json:"buffer"`
	SubAt   int `json:"subAt"`   // subscribe once the reference subscriber has seen this many payloads
	ReadN   int `json:"readN"`   // unsubscribe after reading this many payloads (0 = read until the sentinel)
	DelayUS int `json:"delayUs"` // pause between reads
}

type script struct {
	Senders   []int     `json:"senders"` // payloads per sender
	Subs      []subSpec `json:"subs"`
	RefBuffer int       `json:"refBuffer"`
	Perturb   uint64    `json:"perturb"`
	// CancelAt > 0: the tracer's context is cancelled once the reference
	// subscriber has seen that many payloads, while the (registered) senders
	// are still sending: the tracer keeps serving them until the last one is
	// done, and every subscriber still gets the same gap-free sequence up to
	// the moment its channel is closed
	CancelAt int `json:"cancelAt,omitempty"`
}

type subResult struct {
	seq              []payload
	subCall, subRet  int64
	unsubCall        int64
	unsubRet         int64
	didUnsub, didSub bool
	closedSeen       bool
}

func runScript(sc script) (symptom, detail string, inconcl string, joinLeave bool) {
	tr := quiesce.Begin()
	if sc.Perturb != 0 {
		perturb.Install(sc.Perturb, 40, map[string]bool{"tracer.send": true})
		defer perturb.Remove()
	}
	ctx, cancel := context.WithCancel(context.Background())
	tracer := tracing.NewTracer(ctx)
	var clock int64
	tick := func() int64 { return atomic.AddInt64(&clock, 1) }

	total := 0
	for _, n := range sc.Senders {
		total += n
	}
	invoke := make([][]int64, len(sc.Senders))
	ret := make([][]int64, len(sc.Senders))
	for i, n := range sc.Senders {
		invoke[i] = make([]int64, n)
		ret[i] = make([]int64, n)
	}

	// reference subscriber
	refCh := tracer.SubscribeChannel(make(chan tracing.ITrace, sc.RefBuffer))
	var refSeq []payload
	var rcount int64
	refDone := make(chan struct{})
	refClosed := false
	go func() {
		defer close(refDone)
		for t := range refCh {
			p := t.(payload)
			refSeq = append(refSeq, p)
			atomic.AddInt64(&rcount, 1)
		}
		refClosed = true
	}()

	var wg sync.WaitGroup
	var subscribed int64
	results := make([]*subResult, len(sc.Subs))
	for k, sp := range sc.Subs {
		k, sp := k, sp
		res := &subResult{}
		results[k] = res
		wg.Add(1)
		go func() {
			defer wg.Done()
			at := int64(sp.SubAt)
			if at > int64(total) {
				at = int64(total)
			}
			for atomic.LoadInt64(&rcount) < at {
				runtime.Gosched()
				time.Sleep(5 * time.Microsecond)
			}
			ch := make(chan tracing.ITrace, sp.Buffer)
			res.subCall = tick()
			tracer.SubscribeChannel(ch)
			res.subRet = tick()
			res.didSub = true
			atomic.AddInt64(&subscribed, 1)
			for {
				t, ok := <-ch
				if !ok {
					res.closedSeen = true
					return
				}
				p := t.(payload)
				if p.Sentinel {
					break
				}
				res.seq = append(res.seq, p)
				if sp.ReadN > 0 && len(res.seq) >= sp.ReadN {
					break
				}
				if sp.DelayUS > 0 {
					time.Sleep(time.Duration(sp.DelayUS) * time.Microsecond)
				}
			}
			res.unsubCall = tick()
			tracer.Unsubscribe(ch)
			res.unsubRet = tick()
			res.didUnsub = true
		}()
	}

	// every sender registers BEFORE anything is sent: the context may be
	// cancelled as soon as the first payload has arrived, and a sender that
	// registers with a tracer whose context is already done is not covered by
	// "waits for the registered senders"
	handles := make([]tracing.ISenderHandle, len(sc.Senders))
	for s := range sc.Senders {
		handles[s] = tracer.RegisterSender()
	}
	if sc.CancelAt > 0 {
		at := int64(sc.CancelAt)
		if at > int64(total) {
			at = int64(total)
		}
		go func() {
			for atomic.LoadInt64(&rcount) < at {
				runtime.Gosched()
				time.Sleep(5 * time.Microsecond)
			}
			cancel()
		}()
	}
	var swg sync.WaitGroup
	for s, n := range sc.Senders {
		s, n := s, n
		swg.Add(1)
		h := handles[s]
		go func() {
			defer swg.Done()
			defer h.Done()
			for q := 0; q < n; q++ {
				invoke[s][q] = tick()
				tracer.Send(payload{Sender: s, Seq: q})
				ret[s][q] = tick()
			}
		}()
	}
	allDone := make(chan struct{})
	go func() {
		swg.Wait()
		// the sentinel is sent once every subscriber has joined (a subscriber
		// that joins after it would wait for it forever - a harness error)
		for atomic.LoadInt64(&subscribed) < int64(len(sc.Subs)) {
			runtime.Gosched()
			time.Sleep(5 * time.Microsecond)
		}
		tracer.Send(payload{Sentinel: true})
		wg.Wait()
		close(allDone)
	}()
	gs, err := tr.Wait(0)
	if err != nil {
		cancel()
		return "", "", err.Error(), false
	}
	select {
	case <-allDone:
	default:
		cancel()
		return "deadlock", "senders/subscribers are blocked although every goroutine is parked (every subscriber keeps reading until it unsubscribes)", "", false
	}
	_ = gs
	cancel()
	if _, err := tr.Wait(0); err != nil {
		return "", "", err.Error(), false
	}
	select {
	case <-refDone:
	default:
		return "not-closed", "after cancel and all senders done the reference subscriber's channel was not closed", "", false
	}
	select {
	case <-tracer.Done():
	default:
		return "not-done", "tracer.Done() not closed after cancel with all senders done", "", false
	}
	if !refClosed {
		return "not-closed", "reference channel not closed", "", false
	}
	// ---- oracle
	// reference: every payload once, per-sender order, sentinel last
	if sc.CancelAt > 0 {
		// the sentinel comes from an unregistered sender after the
		// cancellation: it may or may not get through; the payloads must
		if n := len(refSeq); n > 0 && refSeq[n-1].Sentinel {
			refSeq = refSeq[:n-1]
		}
		if len(refSeq) != total {
			return "reference-incomplete", fmt.Sprintf("context cancelled after %d payloads: the reference subscriber received %d of the %d payloads of registered senders before its channel was closed", sc.CancelAt, len(refSeq), total), "", false
		}
		refSeq = append(refSeq, payload{Sentinel: true})
	}
	if len(refSeq) != total+1 || !refSeq[len(refSeq)-1].Sentinel {
		return "reference-incomplete", fmt.Sprintf("reference subscriber received %d traces, want %d payloads + sentinel", len(refSeq), total), "", false
	}
	next := make([]int, len(sc.Senders))
	pos := map[[2]int]int{}
	for i, p := range refSeq[:total] {
		if p.Sentinel {
			return "reference-order", "sentinel before the last payload", "", false
		}
		if p.Seq != next[p.Sender] {
			return "sender-order", fmt.Sprintf("reference position %d: sender %d payload %d, expected %d (dropped, duplicated or reordered)", i, p.Sender, p.Seq, next[p.Sender]), "", false
		}
		next[p.Sender]++
		pos[[2]int{p.Sender, p.Seq}] = i
	}
	for k, res := range results {
		if !res.didSub {
			return "subscribe-blocked", fmt.Sprintf("subscriber %d never returned from SubscribeChannel", k), "", false
		}
		if !res.didUnsub && !res.closedSeen {
			return "unsubscribe-blocked", fmt.Sprintf("subscriber %d never returned from Unsubscribe", k), "", false
		}
		if len(res.seq) > 0 || sc.Subs[k].ReadN > 0 {
			joinLeave = true
		}
		// contiguous infix of the reference sequence
		for i, p := range res.seq {
			rp, ok := pos[[2]int{p.Sender, p.Seq}]
			if !ok {
				return "unknown-payload", fmt.Sprintf("subscriber %d received a payload the reference never saw", k), "", false
			}
			if i > 0 {
				prev := pos[[2]int{res.seq[i-1].Sender, res.seq[i-1].Seq}]
				if rp != prev+1 {
					return "infix", fmt.Sprintf("subscriber %d: position %d is reference position %d but the previous one was %d (dropped, duplicated or reordered inside its window)", k, i, rp, prev), "", false
				}
			}
			if ret[p.Sender][p.Seq] < res.subCall {
				return "before-subscription", fmt.Sprintf("subscriber %d received payload (%d,%d) whose Send had returned before SubscribeChannel was called", k, p.Sender, p.Seq), "", false
			}
			if res.didUnsub && invoke[p.Sender][p.Seq] > res.unsubRet {
				return "after-unsubscription", fmt.Sprintf("subscriber %d received payload (%d,%d) sent after Unsubscribe returned", k, p.Sender, p.Seq), "", false
			}
		}
		// starts no later than the first payload whose Send was invoked after SubscribeChannel returned
		firstAfter := -1
		for s := range invoke {
			for q := range invoke[s] {
				if invoke[s][q] > res.subRet {
					if rp := pos[[2]int{s, q}]; firstAfter < 0 || rp < firstAfter {
						firstAfter = rp
					}
				}
			}
		}
		if firstAfter >= 0 {
			// that payload must be received unless the subscriber stopped reading before it by its own ReadN
			if len(res.seq) == 0 {
				if sc.Subs[k].ReadN == 0 {
					return "late-start", fmt.Sprintf("subscriber %d received nothing although payloads were sent after its subscription returned", k), "", false
				}
			} else {
				first := pos[[2]int{res.seq[0].Sender, res.seq[0].Seq}]
				if first > firstAfter {
					return "late-start", fmt.Sprintf("subscriber %d starts at reference position %d, but the payload at %d was sent after SubscribeChannel returned", k, first, firstAfter), "", false
				}
				last := first + len(res.seq) - 1
				if sc.Subs[k].ReadN == 0 && last < total-1 {
					return "early-end", fmt.Sprintf("subscriber %d read until the sentinel but its window ends at reference position %d of %d", k, last, total-1), "", false
				}
			}
		}
	}
	return "", "", "", joinLeave
}

func TestC09Tracer(t *testing.T) {
	var rd script
	if ok, err := rec.ReplayInput(&rd); ok {
		if err != nil {
			t.Fatal(err)
		}
		fails := 0
		for i := 0; i < 30; i++ {
			sym, det, _, _ := runScript(rd)
			if sym != "" {
				fails++
				if fails == 1 {
					fmt.Printf("REPRODUCED %s: %s\n", sym, det)
				}
			}
		}
		if fails > 0 {
			t.Fatalf("reproduced in %d of 30 runs", fails)
		}
		return
	}
	rapid.Check(t, func(rt *rapid.T) {
		sc := script{RefBuffer: rapid.IntRange(0, 4).Draw(rt, "refBuffer"), Perturb: uint64(rapid.IntRange(0, 200).Draw(rt, "perturb"))}
		ns := rapid.IntRange(1, 8).Draw(rt, "senders")
		total := 0
		for i := 0; i < ns; i++ {
			n := rapid.IntRange(1, 12).Draw(rt, "perSender")
			sc.Senders = append(sc.Senders, n)
			total += n
		}
		nsub := rapid.IntRange(0, 4).Draw(rt, "subs")
		for i := 0; i < nsub; i++ {
			sc.Subs = append(sc.Subs, subSpec{Buffer: rapid.IntRange(0, 16).Draw(rt, "buffer"), SubAt: rapid.IntRange(0, total).Draw(rt, "subAt"),
				ReadN: rapid.IntRange(0, total).Draw(rt, "readN"), DelayUS: rapid.SampledFrom([]int{0, 0, 5, 50}).Draw(rt, "delay")})
		}
		if rapid.IntRange(0, 3).Draw(rt, "cancelMidStream") == 0 {
			sc.CancelAt = rapid.IntRange(1, total).Draw(rt, "cancelAt")
		}
		hash := rec.Hash(sc)
		rec.Begin("TestC09Tracer", hash, sc)
		sym, det, inc, jl := runScript(sc)
		if inc != "" {
			rec.End(hash, "inconclusive")
			rec.Inconclusive("TestC09Tracer", inc)
			rt.Fatalf("inconclusive: %s", inc)
		}
		rec.End(hash, sym)
		cls := []string{fmt.Sprintf("senders=%d", ns), fmt.Sprintf("subs=%d", nsub)}
		if sc.CancelAt > 0 {
			cls = append(cls, "cancelledWhileSending")
		}
		rec.Case("TestC09Tracer", hash, ns >= 2 && nsub >= 1 && jl, cls, sc)
		if sym != "" {
			rt.Fatalf("%s", rec.Fail(rec.Failure{Property: prop, Test: "TestC09Tracer", Symptom: sym, Detail: det, Descriptor: sc}))
		}
	})
}

// ---------------------------------------------------------------- part (b)

// TestC09Engine runs generated programs (the C01 generator) with two
// recording subscribers and checks the causality grammar on the stream.
func TestC09Engine(t *testing.T) {
	var rc drive.Case
	replay, rerr := rec.ReplayInput(&rc)
	if replay && rerr != nil {
		t.Fatal(rerr)
	}
	o := gen.GenOpts{MaxDepth: 3, MaxNodes: 12, AllKinds: true, XPath: true, NoIncNest: rec.Exclude("C05-F1")}
	if rec.Tier() == "thorough" {
		o.MaxNodes = 24
	}
	one := func(c *drive.Case, pick func(int) int) (string, string, *drive.Outcome, int) {
		var second *drive.Inst
		_ = second
		var viol string
		forks := 0
		var in2traces []tracing.ITrace
		var mu sync.Mutex
		hk := &drive.Hooks{
			NewInst: func(x string, vars map[string]any) (*drive.Inst, error) {
				in, err := drive.New(x, drive.Options{Vars: vars, SplitCtx: c.CancelBuildAfter > 0})
				if err != nil {
					return nil, err
				}
				// second recording subscriber, attached before the start like the first
				ch := in.P.Tracer().SubscribeChannel(make(chan tracing.ITrace, 3))
				go func() {
					for tr := range ch {
						mu.Lock()
						in2traces = append(in2traces, tracing.Unwrap(tr))
						mu.Unlock()
					}
				}()
				return in, nil
			},
			BeforeClose: func(in *drive.Inst, m *model.M, out *drive.Outcome) {
				a := in.Traces()
				mu.Lock()
				b := append([]tracing.ITrace(nil), in2traces...)
				mu.Unlock()
				viol, forks = drive.Causality(a)
				if viol != "" {
					out.Symptom, out.Detail = "causality", viol
					return
				}
				da, db := drive.DescribeAll(a), drive.DescribeAll(b)
				n := len(da)
				if len(db) < n {
					n = len(db)
				}
				for i := 0; i < n; i++ {
					if da[i] != db[i] {
						out.Symptom, out.Detail = "subscribers-differ", fmt.Sprintf("position %d: first subscriber %s, second subscriber %s", i, da[i], db[i])
						return
					}
				}
				if len(da) != len(db) {
					out.Symptom, out.Detail = "subscribers-differ", fmt.Sprintf("first subscriber saw %d traces, second %d, at quiescence", len(da), len(db))
				}
			},
		}
		out := drive.RunLockstep(c, pick, hk)
		return out.Symptom, out.Detail, out, forks
	}
	if replay {
		rc.Normalize()
		sym, det, _, _ := one(&rc, nil)
		if sym != "" {
			fmt.Printf("REPRODUCED %s: %s\n", sym, det)
			t.Fatalf("%s", sym)
		}
		return
	}
	rapid.Check(t, func(rt *rapid.T) {
		blk := gen.GenProgram(rt, o)
		c := &drive.Case{Prog: blk, Lang: "expr", Vars: map[string]any{}, Answers: map[string][]model.Answer{}}
		for _, v := range gen.IntVars {
			c.Vars[v] = int64(rapid.IntRange(0, 3).Draw(rt, v))
		}
		for _, v := range gen.BoolVars {
			c.Vars[v] = rapid.Bool().Draw(rt, v)
		}
		for i := 1; i <= 4; i++ {
			c.Vars[fmt.Sprintf("lp%d", i)] = false
		}
		c.Perturb = uint64(rapid.IntRange(0, 300).Draw(rt, "perturb"))
		if blk.Features().Sub == 0 && rapid.IntRange(0, 3).Draw(rt, "cancelBuild") == 0 {
			// the construction context ends mid-run, the instance lives on the
			// context it was started with: nothing may get lost on the way to the
			// subscribers (relays and tracers were created under the construction context)
			c.CancelBuildAfter = rapid.IntRange(1, 3).Draw(rt, "cancelBuildAfter")
		}
		pick := func(n int) int {
			v := rapid.IntRange(0, n-1).Draw(rt, "pick")
			c.Schedule = append(c.Schedule, v)
			return v
		}
		hash := rec.Hash(c)
		rec.Begin("TestC09Engine", hash, c)
		sym, det, out, forks := one(c, pick)
		if out.Inconcl != "" {
			rec.End(hash, "inconclusive")
			rec.Inconclusive("TestC09Engine", out.Inconcl)
			rt.Fatalf("inconclusive: %s", out.Inconcl)
		}
		rec.End(hash, sym)
		cls := []string{fmt.Sprintf("forks>=1:%v", forks >= 1)}
		if c.CancelBuildAfter > 0 {
			cls = append(cls, "constructionContextCancelledMidRun")
		}
		rec.Case("TestC09Engine", hash, forks >= 1, cls, map[string]any{"case": c, "forks": forks})
		if sym == "" {
			return
		}
		if sym != "causality" && sym != "subscribers-differ" && c.CancelBuildAfter == 0 {
			// (with the construction context cancelled mid-run every symptom counts:
			// the same program conforms without the cancellation, so what is missing
			// afterwards was lost on its way to the subscribers)
			// conformance failures are C01's business; C09 only owns the grammar
			if rec.Unrestricted() || true {
				return
			}
		}
		rt.Fatalf("%s", rec.Fail(rec.Failure{Property: prop, Test: "TestC09Engine", Symptom: sym, Detail: det, Descriptor: c,
			History: map[string]any{"steps": out.Steps, "traces": out.Traces, "xml": out.Program.XML()}}))
	})
}
