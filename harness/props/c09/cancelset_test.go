package c09

// TestC09CancelledSet: a process set is started with a context of its own (the
// set, and so its tracers, were built with another one or with none) and that
// run context is cancelled while many flows are alive. Every one of those
// flows announces its cancellation; the set's internal subscribers of the
// per-process tracers (one watcher per process) go away at that very moment.
// Subscribers of the set's tracer must still receive the whole stream: one
// cancellation trace per flow that was alive, the same sequence for both
// subscribers, nobody left blocked in a send.
//
//	P0: start -> parallel fork -> N tasks -> end events      (N = 2..24)
//	P1: start -> task -> end                                 (optional)

import (
	"context"
	"fmt"
	"strings"
	"sync"
	"testing"

	"github.com/olive-io/bpmn/schema"
	bpmn "github.com/olive-io/bpmn/v2"
	"github.com/olive-io/bpmn/v2/pkg/tracing"
	"pgregory.net/rapid"

	"verif/harness/drive"
	"verif/harness/gen"
	"verif/harness/quiesce"
	"verif/harness/rec"
)

type csetDesc struct {
	N        int  `json:"n"`        // branches of the fork in P0
	Second   bool `json:"second"`   // a second executable process
	Answered int  `json:"answered"` // tasks of P0 answered before the cancellation
	BuildCtx bool `json:"buildCtx"` // the set is built with a context of its own (otherwise with none: its tracers then live as long as the test process, so this variant is drawn less often)
}

func runCancelledSet(d csetDesc) (sym, det, inconcl string) {
	b0 := gen.NewB()
	var sb strings.Builder
	sb.WriteString(`<?xml version="1.0" encoding="UTF-8"?>` + "\n")
	sb.WriteString(`<bpmn:definitions xmlns:bpmn="http://www.omg.org/spec/BPMN/20100524/MODEL" xmlns:olive="http://olive.io/spec/BPMN/MODEL" xmlns:xsi="http://www.w3.org/2001/XMLSchema-instance" id="Defs_1" targetNamespace="http://bpmn.io/schema/bpmn" expressionLanguage="https://github.com/expr-lang/expr">` + "\n")
	prog := &gen.Program{DefaultLang: "expr"}
	b := b0.Sub()
	st := b.Add(gen.KStart)
	fork := b.Add(gen.KPar)
	b.Connect(st, fork)
	var tasks []string
	for i := 0; i < d.N; i++ {
		t := b.Add(gen.KTask)
		en := b.Add(gen.KEnd)
		b.Connect(fork, t)
		b.Connect(t, en)
		tasks = append(tasks, t.ID)
	}
	sb.WriteString(`<bpmn:process id="Proc_0" isExecutable="true">` + "\n" + gen.GraphXML(b.G, prog) + "</bpmn:process>\n")
	if d.Second {
		b2 := b0.Sub()
		s2 := b2.Add(gen.KStart)
		t2 := b2.Add(gen.KTask)
		e2 := b2.Add(gen.KEnd)
		b2.Connect(s2, t2)
		b2.Connect(t2, e2)
		sb.WriteString(`<bpmn:process id="Proc_1" isExecutable="true">` + "\n" + gen.GraphXML(b2.G, prog) + "</bpmn:process>\n")
	}
	sb.WriteString("</bpmn:definitions>\n")
	defs, err := schema.Parse([]byte(sb.String()))
	if err != nil {
		return "generator", err.Error(), ""
	}
	tr := quiesce.Begin()
	buildCtx, buildCancel := context.WithCancel(context.Background())
	defer buildCancel()
	var opts []bpmn.Option
	if d.BuildCtx {
		opts = append(opts, bpmn.WithContext(buildCtx))
	}
	set, err := bpmn.NewEngine().NewProcessSet(defs, opts...)
	if err != nil {
		return "construct", err.Error(), ""
	}
	type recd struct {
		mu     sync.Mutex
		all    []string
		tasks  map[string]bpmn.TaskTrace
		cancel int
	}
	record := func(r *recd, ch chan tracing.ITrace) {
		for t := range ch {
			if t == nil {
				continue
			}
			u := tracing.Unwrap(t)
			r.mu.Lock()
			r.all = append(r.all, drive.Describe(u))
			switch x := u.(type) {
			case bpmn.TaskTrace:
				id, _ := x.GetActivity().Element().Id()
				r.tasks[*id] = x
			case bpmn.CancellationFlowTrace:
				r.cancel++
			}
			r.mu.Unlock()
		}
	}
	r1, r2 := &recd{tasks: map[string]bpmn.TaskTrace{}}, &recd{tasks: map[string]bpmn.TaskTrace{}}
	go record(r1, set.Tracer().SubscribeChannel(make(chan tracing.ITrace)))
	go record(r2, set.Tracer().SubscribeChannel(make(chan tracing.ITrace, 3)))
	runCtx, runCancel := context.WithCancel(context.Background())
	defer runCancel()
	if err := set.StartAll(runCtx); err != nil {
		return "start-error", err.Error(), ""
	}
	if _, err := tr.Wait(0); err != nil {
		return "", "", err.Error()
	}
	want := d.N
	if d.Second {
		want++
	}
	r1.mu.Lock()
	got := len(r1.tasks)
	r1.mu.Unlock()
	if got != want {
		return "missing-request", fmt.Sprintf("%d task requests after the start, want %d", got, want), ""
	}
	for i := 0; i < d.Answered && i < d.N; i++ {
		r1.mu.Lock()
		tt := r1.tasks[tasks[i]]
		r1.mu.Unlock()
		tt.Do()
		if _, err := tr.Wait(0); err != nil {
			return "", "", err.Error()
		}
	}
	alive := want - min(d.Answered, d.N)
	runCancel()
	gs, err := tr.Wait(0)
	if err != nil {
		return "", "", err.Error()
	}
	r1.mu.Lock()
	r2.mu.Lock()
	defer r1.mu.Unlock()
	defer r2.mu.Unlock()
	if r1.cancel != alive || r2.cancel != alive {
		return "stream-stalled", fmt.Sprintf("%d flows were alive when the run context was cancelled; at quiescence the two subscribers of the set's tracer have received %d and %d flow cancellation traces (last traces: %v)\n%s",
			alive, r1.cancel, r2.cancel, r1.all[max(0, len(r1.all)-6):], quiesce.Dump(gs)), ""
	}
	if len(r1.all) != len(r2.all) {
		return "subscribers-differ", fmt.Sprintf("the subscribers saw %d and %d traces", len(r1.all), len(r2.all)), ""
	}
	for i := range r1.all {
		if r1.all[i] != r2.all[i] {
			return "subscribers-differ", fmt.Sprintf("position %d: %s vs %s", i, r1.all[i], r2.all[i]), ""
		}
	}
	return "", "", ""
}

func TestC09CancelledSet(t *testing.T) {
	var rd csetDesc
	if ok, err := rec.ReplayInput(&rd); ok {
		if err != nil {
			t.Fatal(err)
		}
		if rd.N == 0 {
			return
		}
		if s, dd, _ := runCancelledSet(rd); s != "" {
			fmt.Printf("REPRODUCED %s: %s\n", s, dd)
			t.Fatalf("%s", s)
		}
		return
	}
	rapid.Check(t, func(rt *rapid.T) {
		d := csetDesc{N: rapid.SampledFrom([]int{2, 3, 5, 8, 11, 12, 16, 24}).Draw(rt, "n"), Second: rapid.Bool().Draw(rt, "second"), BuildCtx: rapid.IntRange(0, 3).Draw(rt, "buildCtx") > 0}
		d.Answered = rapid.IntRange(0, min(3, d.N-1)).Draw(rt, "answered")
		hash := rec.Hash(d)
		rec.Begin("TestC09CancelledSet", hash, d)
		s, dd, inc := runCancelledSet(d)
		if inc != "" {
			rec.End(hash, "inconclusive")
			rec.Inconclusive("TestC09CancelledSet", inc)
			rt.Fatalf("inconclusive: %s", inc)
		}
		rec.End(hash, s)
		rec.Case("TestC09CancelledSet", hash, d.N-d.Answered >= 8, []string{fmt.Sprintf("aliveAtCancel>=8:%v", d.N-d.Answered >= 8), fmt.Sprintf("buildCtx=%v", d.BuildCtx)}, d)
		if s != "" {
			rt.Fatalf("%s", rec.Fail(rec.Failure{Property: prop, Test: "TestC09CancelledSet", Symptom: s, Detail: dd, Descriptor: d}))
		}
	})
}
