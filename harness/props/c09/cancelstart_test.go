package c09

// TestC09CancelledStart: the context handed to one StartWith call is cancelled
// (the instance's own context stays alive) - before or after that start event's
// tokens got anywhere - and the instance is then driven on through its OTHER
// start events. Internal subscribers of the instance's tracers (the completion
// monitor, relays) that go away at such a moment must not disturb the stream:
// every later request still arrives, the two recording subscribers still see
// the same sequence, no call blocks.
//
//   process: 2..3 start events with DISJOINT chains of 1..3 tasks each
//   history: StartWith(ctxA, s_i) ; [answers in chain i] ; cancel ctxA ;
//            StartWith(ctxB, s_j) ; answers in chain j ... (lock-step with the
//            token game restricted to the chains whose context is alive)

import (
	"context"
	"fmt"
	"sort"
	"sync"
	"testing"

	"github.com/olive-io/bpmn/schema"
	bpmn "github.com/olive-io/bpmn/v2"
	"github.com/olive-io/bpmn/v2/pkg/tracing"
	"pgregory.net/rapid"

	"verif/harness/drive"
	"verif/harness/gen"
	"verif/harness/rec"
)

type csDesc struct {
	Chains     []int `json:"chains"`     // tasks per start event's chain
	First      int   `json:"first"`      // index of the start event whose context is cancelled
	AnswersPre int   `json:"answersPre"` // answers given in that chain before the cancellation
	Order      []int `json:"order"`      // order in which the other start events are triggered
	// Gateways: bit i set = the chain of start event i begins with a gateway the
	// token passes (inclusive for even i, exclusive for odd i): gateways keep
	// internal subscribers of the instance's tracer (flow trackers)
	Gateways int `json:"gateways,omitempty"`
}

func runCancelledStart(d csDesc) (sym, det, inconcl string, traces []string) {
	b := gen.NewB()
	var starts []string
	chainTasks := make([][]string, len(d.Chains))
	for i, n := range d.Chains {
		st := b.Add(gen.KStart)
		starts = append(starts, st.ID)
		cur := st
		if d.Gateways&(1<<i) != 0 {
			gw := b.Add(gen.KInc)
			if i%2 == 1 {
				gw.Kind = gen.KXor
			}
			b.Connect(cur, gw)
			cur = gw
		}
		for k := 0; k < n; k++ {
			t := b.Add(gen.KTask)
			chainTasks[i] = append(chainTasks[i], t.ID)
			b.Connect(cur, t)
			cur = t
		}
		en := b.Add(gen.KEnd)
		b.Connect(cur, en)
	}
	prog := &gen.Program{G: b.G, DefaultLang: "expr"}
	in, err := drive.New(prog.XML(), drive.Options{})
	if err != nil {
		return "construct", err.Error(), "", nil
	}
	defer in.Close()
	// second recording subscriber (buffered)
	second := in.P.Tracer().SubscribeChannel(make(chan tracing.ITrace))
	var omu sync.Mutex
	var other []string
	go func() {
		for t := range second {
			if t == nil {
				continue
			}
			omu.Lock()
			other = append(other, drive.Describe(tracing.Unwrap(t)))
			omu.Unlock()
		}
	}()
	fail := func(s, dd string) (string, string, string, []string) {
		return s, dd, "", drive.DescribeAll(in.Traces())
	}
	find := func(id string) *schema.StartEvent {
		ses := *in.P.Element().StartEvents()
		for k := range ses {
			if x, ok := ses[k].Id(); ok && *x == id {
				return &(*in.P.Element().StartEvents())[k]
			}
		}
		return nil
	}
	pend := map[string][]bpmn.TaskTrace{}
	take := func() []string {
		var ids []string
		for _, tt := range in.NewTasks() {
			id, _ := tt.GetActivity().Element().Id()
			pend[*id] = append(pend[*id], tt)
			ids = append(ids, *id)
		}
		sort.Strings(ids)
		return ids
	}
	startWith := func(ctx context.Context, i int) (string, string) {
		done := make(chan error, 1)
		go func() { done <- in.P.StartWith(ctx, find(starts[i])) }()
		if _, err := in.Quiesce(); err != nil {
			return "inconclusive", err.Error()
		}
		select {
		case e := <-done:
			if e != nil {
				return "start-error", e.Error()
			}
		default:
			return "start-blocked", fmt.Sprintf("StartWith(%s) has not returned although everything is parked", starts[i])
		}
		got := take()
		want := []string{chainTasks[i][0]}
		if fmt.Sprint(got) != fmt.Sprint(want) {
			return "missing-request", fmt.Sprintf("after StartWith(%s): requests %v, want %v", starts[i], got, want)
		}
		return "", ""
	}
	answer := func(i, k int) (string, string) {
		id := chainTasks[i][k]
		if len(pend[id]) == 0 {
			return "missing-request", "internal: nothing pending for " + id
		}
		tt := pend[id][0]
		pend[id] = pend[id][1:]
		done := make(chan struct{})
		go func() { tt.Do(); close(done) }()
		if _, err := in.Quiesce(); err != nil {
			return "inconclusive", err.Error()
		}
		select {
		case <-done:
		default:
			return "do-blocked", "Do(" + id + ") has not returned although everything is parked"
		}
		got := take()
		var want []string
		if k+1 < len(chainTasks[i]) {
			want = []string{chainTasks[i][k+1]}
		}
		if fmt.Sprint(got) != fmt.Sprint(want) {
			return "missing-request", fmt.Sprintf("after answering %s: requests %v, want %v", id, got, want)
		}
		return "", ""
	}
	ret := func(s, dd string) (string, string, string, []string) {
		if s == "inconclusive" {
			return "", "", dd, nil
		}
		return fail(s, dd)
	}
	ctxA, cancelA := context.WithCancel(in.RunContext())
	defer cancelA()
	if s, dd := startWith(ctxA, d.First); s != "" {
		return ret(s, dd)
	}
	for k := 0; k < d.AnswersPre && k < len(chainTasks[d.First])-1; k++ {
		if s, dd := answer(d.First, k); s != "" {
			return ret(s, dd)
		}
	}
	cancelA()
	if _, err := in.Quiesce(); err != nil {
		return "", "", err.Error(), nil
	}
	take() // whatever the cancelled chain still produced is not judged
	for _, j := range d.Order {
		ctxB, cancelB := context.WithCancel(in.RunContext())
		defer cancelB()
		if s, dd := startWith(ctxB, j); s != "" {
			return ret(s, dd)
		}
		for k := range chainTasks[j] {
			if s, dd := answer(j, k); s != "" {
				return ret(s, dd)
			}
		}
	}
	// both subscribers saw the same sequence (the instance is quiescent: every
	// trace sent has been delivered to both)
	mine := drive.DescribeAll(in.Traces())
	omu.Lock()
	defer omu.Unlock()
	if len(mine) != len(other) {
		return fail("subscribers-differ", fmt.Sprintf("recording subscriber saw %d traces, second subscriber %d", len(mine), len(other)))
	}
	for i := range mine {
		if mine[i] != other[i] {
			return fail("subscribers-differ", fmt.Sprintf("trace %d: recording subscriber saw %s, second subscriber %s", i, mine[i], other[i]))
		}
	}
	return "", "", "", nil
}

func TestC09CancelledStart(t *testing.T) {
	var rd csDesc
	if ok, err := rec.ReplayInput(&rd); ok {
		if err != nil {
			t.Fatal(err)
		}
		if len(rd.Chains) == 0 {
			return
		}
		if s, dd, _, _ := runCancelledStart(rd); s != "" {
			fmt.Printf("REPRODUCED %s: %s\n", s, dd)
			t.Fatalf("%s", s)
		}
		return
	}
	rapid.Check(t, func(rt *rapid.T) {
		n := rapid.IntRange(2, 3).Draw(rt, "starts")
		d := csDesc{First: rapid.IntRange(0, n-1).Draw(rt, "first"), AnswersPre: rapid.IntRange(0, 2).Draw(rt, "answersPre"), Gateways: rapid.IntRange(0, 1<<n-1).Draw(rt, "gateways")}
		for i := 0; i < n; i++ {
			d.Chains = append(d.Chains, rapid.IntRange(1, 4).Draw(rt, "chain"))
		}
		for _, j := range rapid.Permutation(seqInts(n)).Draw(rt, "order") {
			if j != d.First {
				d.Order = append(d.Order, j)
			}
		}
		hash := rec.Hash(d)
		rec.Begin("TestC09CancelledStart", hash, d)
		s, dd, inc, tr := runCancelledStart(d)
		if inc != "" {
			rec.End(hash, "inconclusive")
			rec.Inconclusive("TestC09CancelledStart", inc)
			rt.Fatalf("inconclusive: %s", inc)
		}
		rec.End(hash, s)
		later := 0
		for _, j := range d.Order {
			later += d.Chains[j]
		}
		rec.Case("TestC09CancelledStart", hash, later >= 3, []string{fmt.Sprintf("starts=%d", n), fmt.Sprintf("tasksAfterCancel=%d", later)}, d)
		if s != "" {
			rt.Fatalf("%s", rec.Fail(rec.Failure{Property: prop, Test: "TestC09CancelledStart", Symptom: s, Detail: dd, Descriptor: d, History: map[string]any{"traces": tr}}))
		}
	})
}

func seqInts(n int) []int {
	out := make([]int, n)
	for i := range out {
		out[i] = i
	}
	return out
}
