package c17

import (
	"context"
	"fmt"
	"github.com/olive-io/bpmn/v2/pkg/event"
	"sort"
	"sync"
	"sync/atomic"
	"testing"

	bpmn "github.com/olive-io/bpmn/v2"
	"github.com/olive-io/bpmn/v2/pkg/data"
	"github.com/olive-io/bpmn/v2/pkg/tracing"
	"pgregory.net/rapid"

	"verif/harness/drive"
	"verif/harness/gen"
	"verif/harness/model"
	"verif/harness/perturb"
	"verif/harness/rec"
)

const prop = "C17"

// descriptor: a program whose tasks declare no results (so all answers
// commute and the sequential outcome is unique), an optional catch-event tail,
// and the amount of concurrent use of the public API.
type descriptor struct {
	Prog     *gen.Block     `json:"prog"`
	Vars     map[string]any `json:"vars"`
	Catch    bool           `json:"catch"`   // start -> prog -> catch(signal) -> task -> end
	Readers  int            `json:"readers"` // goroutines reading the locator
	Subs     int            `json:"subs"`    // goroutines subscribing/unsubscribing
	Waiters  int            `json:"waiters"` // goroutines in WaitUntilComplete
	Noise    int            `json:"noise"`   // goroutines delivering non-matching events
	Perturb  uint64         `json:"perturb"`
	DeclSeed int            `json:"declSeed"`
	// StaleJoin > 0: the document's <incoming> list of the StaleJoin-th
	// parallel join (with >= 2 incoming flows) names flows that do not lead to
	// it (as many as really do): the engine then counts every arriving token
	// for the incoming flow that holds fewest - and all answers of a step are
	// given at the same moment
	StaleJoin int `json:"staleJoin,omitempty"`
	// SharedLoc: the instance is given a data locator of the caller's
	// (bpmn.WithLocator); while it runs, further instances are created on the
	// same locator (and dropped again) from another goroutine
	SharedLoc bool `json:"sharedLoc,omitempty"`
	// SharedBus: the instance registers with an event source of the caller's
	// (bpmn.WithEventEgress, an event.FanOut) that other instances of the same
	// definitions are being created on meanwhile, while events are published
	// through it: an event reaches instances that are still being wired
	SharedBus bool `json:"sharedBus,omitempty"`
}

func stripResults(b *gen.Block) {
	if b == nil {
		return
	}
	if (b.K == "task" || b.K == "ctask") && b.LoopVar == "" {
		// results that no condition reads: answers still commute, but the
		// variable store is written while other goroutines read it
		b.Results = []string{"w0", "w1"}
	}
	for _, k := range b.Kids {
		stripResults(k)
	}
}

func graphOf(d descriptor) *gen.Graph {
	lw := gen.Lower(d.Prog)
	g := lw.G
	// every task declares the data output the concurrent answers carry
	// (DoWithObjects): parallel branches then store into one data-object
	// container at the same moment
	g.AllNodes(func(n *gen.Node, _ *gen.Graph) {
		if n.Kind == gen.KTask {
			n.DataOutputs = []string{"o1"}
		}
	})
	if d.StaleJoin > 0 {
		k := 0
		g.AllNodes(func(n *gen.Node, sg *gen.Graph) {
			if n.Kind == gen.KPar && len(n.In) >= 2 {
				k++
				if k == d.StaleJoin {
					// (the listed flows must exist: flows of the same scope that lead elsewhere)
					var other []string
					for _, f := range sg.Flows {
						if f.Dst != n.ID && len(other) < len(n.In) {
							other = append(other, f.ID)
						}
					}
					if len(other) == len(n.In) {
						n.InDoc = other
					}
				}
			}
		})
	}
	if !d.Catch {
		return g
	}
	// splice catch -> task before every root-level end event reached by the main path:
	// simplest: add a second start-independent tail is not possible; instead wrap: replace the last end
	var lastEnd *gen.Node
	for _, n := range g.Nodes {
		if n.Kind == gen.KEnd {
			lastEnd = n
		}
	}
	if lastEnd == nil || len(lastEnd.In) != 1 {
		return g
	}
	b := &gen.B{G: g}
	_ = b
	// turn the end event into a catch event followed by a task and a new end
	lastEnd.Kind = gen.KCatch
	lastEnd.Defs = []gen.EventDef{{Kind: "signal", Ref: "go"}}
	t := &gen.Node{ID: "tail_task", Kind: gen.KTask, TaskKind: "task"}
	e := &gen.Node{ID: "tail_end", Kind: gen.KEnd}
	g.Nodes = append(g.Nodes, t, e)
	f1 := &gen.Flow{ID: "tail_f1", Src: lastEnd.ID, Dst: t.ID}
	f2 := &gen.Flow{ID: "tail_f2", Src: t.ID, Dst: e.ID}
	g.Flows = append(g.Flows, f1, f2)
	lastEnd.Out = []string{f1.ID}
	t.In, t.Out = []string{f1.ID}, []string{f2.ID}
	e.In = []string{f2.ID}
	return g
}

type result struct {
	Symptom, Detail string
	Inconcl         string
	Traces          []string
	MaxBurst        int
	Overlap         int
	LiveTokens      int
	CohortRisk      []string // model.CohortRisk: the run is inside the pattern of known finding C05-F1
}

func run(d descriptor) *result {
	r := &result{}
	g := graphOf(d)
	prog := &gen.Program{G: g, DefaultLang: "expr", DeclSeed: d.DeclSeed}
	if d.Perturb != 0 {
		perturb.Install(d.Perturb, 30, nil)
		defer perturb.Remove()
	}
	var loc data.IFlowDataLocator
	o := drive.Options{Vars: d.Vars}
	if d.SharedLoc {
		loc = data.NewFlowDataLocator()
		o.Extra = []bpmn.Option{bpmn.WithLocator(loc)}
	}
	var fan *event.FanOut
	if d.SharedBus {
		fan = event.NewFanOut()
		o.Extra = append(o.Extra, bpmn.WithEventEgress(fan))
	}
	in, err := drive.New(prog.XML(), o)
	if err != nil {
		r.Symptom, r.Detail = "construct", err.Error()
		return r
	}
	defer in.Close()
	m := model.New(g, d.Vars)
	defer func() { r.CohortRisk = m.CohortRisk() }()
	var active, maxActive int32
	enter := func() {
		n := atomic.AddInt32(&active, 1)
		for {
			o := atomic.LoadInt32(&maxActive)
			if n <= o || atomic.CompareAndSwapInt32(&maxActive, o, n) {
				return
			}
		}
	}
	leave := func() { atomic.AddInt32(&active, -1) }

	// concurrent phase: noise + the given stimuli, all from separate goroutines
	concurrent := func(stimuli []func()) {
		stop := make(chan struct{})
		var bg sync.WaitGroup
		loop := func(f func()) {
			bg.Add(1)
			go func() {
				defer bg.Done()
				for {
					select {
					case <-stop:
						return
					default:
					}
					enter()
					f()
					leave()
				}
			}()
		}
		for i := 0; i < d.Readers; i++ {
			loop(func() {
				loc := in.P.Locator()
				_ = loc.CloneVariables()
				_, _ = loc.GetVariable("b0")
				_ = loc.CloneItems(data.LocatorObject)
			})
		}
		for i := 0; i < d.Subs; i++ {
			loop(func() {
				ch := in.P.Tracer().SubscribeChannel(make(chan tracing.ITrace, 4))
				for k := 0; k < 3; k++ {
					select {
					case <-ch:
					default:
					}
				}
				in.P.Tracer().Unsubscribe(ch)
			})
		}
		for i := 0; i < d.Noise; i++ {
			loop(func() { in.P.ConsumeEvent(drive.Signal("zz-nobody")) })
		}
		if fan != nil {
			loop(func() { fan.ConsumeEvent(drive.Signal("zz-nobody")) })
			loop(func() {
				c2, cancel2 := context.WithCancel(context.Background())
				_, _ = bpmn.NewEngine().NewProcess(in.Defs, bpmn.WithContext(c2), bpmn.WithEventEgress(fan))
				cancel2()
			})
		}
		if loc != nil {
			loop(func() {
				c2, cancel2 := context.WithCancel(context.Background())
				_, _ = bpmn.NewEngine().NewProcess(in.Defs, bpmn.WithContext(c2), bpmn.WithLocator(loc))
				cancel2()
			})
		}
		wctx, wcancel := context.WithCancel(context.Background())
		for i := 0; i < d.Waiters; i++ {
			bg.Add(1)
			go func() { defer bg.Done(); enter(); in.P.WaitUntilComplete(wctx); leave() }()
		}
		var wg sync.WaitGroup
		for _, s := range stimuli {
			wg.Add(1)
			go func(s func()) { defer wg.Done(); enter(); s(); leave() }(s)
		}
		wg.Wait()
		close(stop)
		wcancel()
		bg.Wait()
	}

	concurrent([]func(){func() { in.StartAll() }})
	m.Start()
	pend := map[string][]bpmn.TaskTrace{}
	for step := 0; step < 80; step++ {
		if _, err := in.Quiesce(); err != nil {
			r.Inconcl = err.Error()
			return r
		}
		for _, tt := range in.NewTasks() {
			id, _ := tt.GetActivity().Element().Id()
			pend[*id] = append(pend[*id], tt)
		}
		var have []string
		for id, q := range pend {
			for range q {
				have = append(have, id)
			}
		}
		sort.Strings(have)
		want := m.PendingIDs()
		if fmt.Sprint(have) != fmt.Sprint(want) {
			if d.SharedLoc {
				// (instances created on the same locator re-declare its containers: what
				// the run then does is the caller's business - only races and crashes count)
				return r
			}
			r.Symptom, r.Detail = "outcome", fmt.Sprintf("step %d: pending requests %v; the sequential token semantics allow only %v", step, have, want)
			r.Traces = drive.DescribeAll(in.Traces())
			return r
		}
		armed := m.Armed()
		if len(want) == 0 && len(armed) == 0 {
			break
		}
		if len(want) > r.MaxBurst {
			r.MaxBurst = len(want)
		}
		var stimuli []func()
		for id, q := range pend {
			for _, tt := range q {
				tt := tt
				stimuli = append(stimuli, func() {
					tt.Do(bpmn.DoWithResults(map[string]any{"w0": int64(len(stimuli)), "w1": "x"}), bpmn.DoWithObjects(map[string]any{"o1": int64(1)}))
				})
			}
			delete(pend, id)
		}
		// the model answers exactly the requests that were pending at the start of the step
		for _, id := range want {
			if pi := m.FindPending(id); pi >= 0 {
				m.Answer(pi, model.Answer{Kind: model.AnsOK})
			}
		}
		if len(want) == 0 {
			// nothing to answer: wake the listening catch event
			stimuli = append(stimuli, func() { in.P.ConsumeEvent(drive.Signal("go")) })
			m.Event(model.Ev{Kind: "signal", Ref: "go"})
		}
		concurrent(stimuli)
	}
	r.Overlap = int(atomic.LoadInt32(&maxActive))
	if _, err := in.Quiesce(); err != nil {
		r.Inconcl = err.Error()
		return r
	}
	if m.Done() {
		res := make(chan bool, 1)
		c2, cancel2 := context.WithCancel(context.Background())
		go func() { res <- in.P.WaitUntilComplete(c2) }()
		if _, err := in.Quiesce(); err != nil {
			cancel2()
			r.Inconcl = err.Error()
			return r
		}
		ok := false
		select {
		case ok = <-res:
		default:
		}
		cancel2()
		if !ok {
			if d.SharedLoc {
				// (instances created on the same locator re-declare its containers: what
				// the run then does is the caller's business - only races and crashes count)
				return r
			}
			r.Symptom, r.Detail = "outcome", "sequential semantics: the instance is complete; engine: WaitUntilComplete still blocks at quiescence"
			r.Traces = drive.DescribeAll(in.Traces())
			return r
		}
	}
	_ = m.Vars
	sum := drive.Summarize(in.Traces())
	wantFlows := append([]string(nil), m.AllFlows...)
	sort.Strings(wantFlows)
	if fmt.Sprint(sum.Flows) != fmt.Sprint(wantFlows) {
		if d.SharedLoc {
			// (instances created on the same locator re-declare its containers: what
			// the run then does is the caller's business - only races and crashes count)
			return r
		}
		r.Symptom, r.Detail = "outcome", fmt.Sprintf("sequence flows taken %v, sequential semantics %v", sum.Flows, wantFlows)
		r.Traces = drive.DescribeAll(in.Traces())
	}
	return r
}

func TestC17Concurrent(t *testing.T) {
	var rd descriptor
	if ok, err := rec.ReplayInput(&rd); ok {
		if err != nil {
			t.Fatal(err)
		}
		for k, v := range rd.Vars {
			if f, isF := v.(float64); isF {
				rd.Vars[k] = int64(f)
			}
		}
		fails := 0
		for i := 0; i < 10; i++ {
			r := run(rd)
			if r.Symptom != "" {
				fails++
				if fails == 1 {
					fmt.Printf("REPRODUCED %s: %s\n", r.Symptom, r.Detail)
				}
			}
		}
		if fails > 0 {
			t.Fatalf("reproduced in %d of 10 runs", fails)
		}
		return
	}
	o := gen.GenOpts{MaxDepth: 3, MaxNodes: 12, AllKinds: true, XPath: true, NoIncNest: rec.Exclude("C05-F1")}
	rapid.Check(t, func(rt *rapid.T) {
		blk := gen.GenProgram(rt, o)
		// a third of the programs end in a burst: N tokens leave a parallel
		// fork, pass one task each, are merged WITHOUT synchronisation and run
		// the same task and exclusive gateway - all answers of a step are given
		// at once, so N tokens use one sequence flow, one task and one
		// gateway at the same moment
		wide := rapid.SampledFrom([]int{0, 0, 0, 0, 4, 8, 12, 16}).Draw(rt, "wide")
		if wide > 0 {
			task := func() *gen.Block { return &gen.Block{K: "task", Def: -1} }
			mm := &gen.Block{K: "mmerge", Def: -1}
			for i := 0; i < wide; i++ {
				mm.Kids = append(mm.Kids, task())
			}
			x := &gen.Block{K: "xor", Def: 1, Conds: []*gen.Cond{{Op: "var", Var: rapid.SampledFrom(gen.BoolVars).Draw(rt, "wideVar")}, nil},
				Kids: []*gen.Block{{K: "seq", Def: -1, Kids: []*gen.Block{task()}}, nil}}
			mm.Kids = append(mm.Kids, &gen.Block{K: "seq", Def: -1, Kids: []*gen.Block{task(), x}})
			blk = &gen.Block{K: "seq", Def: -1, Kids: []*gen.Block{blk, mm}}
		}
		stripResults(blk)
		d := descriptor{Prog: blk, Vars: map[string]any{}, Catch: rapid.Bool().Draw(rt, "catch"),
			Readers: rapid.IntRange(1, 4).Draw(rt, "readers"), Subs: rapid.IntRange(0, 3).Draw(rt, "subs"),
			Waiters: rapid.IntRange(0, 3).Draw(rt, "waiters"), Noise: rapid.IntRange(0, 3).Draw(rt, "noise"),
			Perturb: uint64(rapid.IntRange(0, 300).Draw(rt, "perturb")), DeclSeed: rapid.IntRange(0, 50).Draw(rt, "declSeed"),
			StaleJoin: rapid.SampledFrom([]int{0, 0, 0, 1, 1, 2}).Draw(rt, "staleJoin"), SharedLoc: rapid.IntRange(0, 3).Draw(rt, "sharedLoc") == 0}
		d.SharedBus = !d.SharedLoc && rapid.IntRange(0, 2).Draw(rt, "sharedBus") == 0
		for _, v := range gen.IntVars {
			d.Vars[v] = int64(rapid.IntRange(0, 3).Draw(rt, v))
		}
		for _, v := range gen.BoolVars {
			d.Vars[v] = rapid.Bool().Draw(rt, v)
		}
		for i := 1; i <= 4; i++ {
			d.Vars[fmt.Sprintf("lp%d", i)] = false
		}
		hash := rec.Hash(d)
		rec.Begin("TestC17Concurrent", hash, d)
		r := run(d)
		if r.Inconcl != "" {
			rec.End(hash, "inconclusive")
			rec.Inconclusive("TestC17Concurrent", r.Inconcl)
			rt.Fatalf("inconclusive: %s", r.Inconcl)
		}
		rec.End(hash, r.Symptom)
		cls := []string{fmt.Sprintf("overlap>=3:%v", r.Overlap >= 3), fmt.Sprintf("burst>=2:%v", r.MaxBurst >= 2), fmt.Sprintf("burst>=8:%v", r.MaxBurst >= 8)}
		rec.Case("TestC17Concurrent", hash, r.Overlap >= 3 && r.MaxBurst >= 2, cls, map[string]any{"case": d, "maxOverlap": r.Overlap, "maxBurst": r.MaxBurst})
		if r.Symptom == "" {
			return
		}
		if rec.Unrestricted() && rec.Known("C05-F1") && len(r.CohortRisk) > 0 {
			rec.KnownHit("TestC17Concurrent", "C05-F1", hash)
			return
		}
		rt.Fatalf("%s", rec.Fail(rec.Failure{Property: prop, Test: "TestC17Concurrent", Symptom: r.Symptom, Detail: r.Detail, Descriptor: d,
			History: map[string]any{"traces": r.Traces}}))
	})
}
