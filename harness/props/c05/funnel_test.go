package c05

// TestC05Funnel: 2..4 tokens reach ONE inclusive gateway one after another
// (2..4 start events -> task each -> exclusive merge -> inclusive gateway). Every task
// writes the variable the gateway's conditions read, so each activation of the
// gateway sees different truth values: some activate several branches, some
// only the default, some nothing at all (error trace, token parked). An
// activation must not depend on what the previous activations of the same
// gateway did.

import (
	"fmt"
	"testing"

	"pgregory.net/rapid"

	"verif/harness/drive"
	"verif/harness/gen"
	"verif/harness/model"
	"verif/harness/rec"
)

type funnelDesc struct {
	Tokens   int     `json:"tokens"`
	Values   []int64 `json:"values"` // value of x written by task i
	Ks       []int64 `json:"ks"`     // branch i is taken iff x > Ks[i]
	Default  bool    `json:"default"`
	Lang     string  `json:"lang"`
	Schedule []int   `json:"schedule"`
	Perturb  uint64  `json:"perturb"`
}

func buildFunnel(d funnelDesc) (*gen.Graph, map[string][]model.Answer) {
	b := gen.NewB()
	ans := map[string][]model.Answer{}
	mrg := b.Add(gen.KXor)
	for i := 0; i < d.Tokens; i++ {
		// one start event per token: the tokens do not descend from a common
		// fork (an inclusive gateway below a fork is finding C05-F1's pattern)
		st := b.Add(gen.KStart)
		t := b.Add(gen.KTask)
		t.Results = []string{"x"}
		ans[t.ID] = []model.Answer{{Kind: model.AnsOK, Results: map[string]any{"x": d.Values[i]}}}
		b.Connect(st, t)
		b.Connect(t, mrg)
	}
	ig := b.Add(gen.KInc)
	b.Connect(mrg, ig)
	for _, k := range d.Ks {
		t := b.Add(gen.KTask)
		fl := b.Connect(ig, t)
		fl.Formal, fl.Cond = true, &gen.Cond{Op: "gt", Var: "x", K: k}
		en := b.Add(gen.KEnd)
		b.Connect(t, en)
	}
	if d.Default {
		t := b.Add(gen.KTask)
		fl := b.Connect(ig, t)
		ig.Default = fl.ID
		en := b.Add(gen.KEnd)
		b.Connect(t, en)
	}
	return b.G, ans
}

func TestC05Funnel(t *testing.T) {
	var rd funnelDesc
	if ok, err := rec.ReplayInput(&rd); ok {
		if err != nil {
			t.Fatal(err)
		}
		if rd.Tokens == 0 {
			return
		}
		g, ans := buildFunnel(rd)
		c := &drive.Case{Graph: g, Lang: rd.Lang, Vars: map[string]any{"x": int64(0)}, Answers: ans, Schedule: rd.Schedule, Perturb: rd.Perturb}
		out := drive.RunLockstep(c, nil, nil)
		if out.Symptom != "" {
			fmt.Printf("REPRODUCED %s: %s\n", out.Symptom, out.Detail)
			t.Fatalf("%s", out.Symptom)
		}
		return
	}
	rapid.Check(t, func(rt *rapid.T) {
		d := funnelDesc{Tokens: rapid.IntRange(2, 4).Draw(rt, "tokens"), Default: rapid.IntRange(0, 2).Draw(rt, "default") == 0,
			Lang: rapid.SampledFrom([]string{"expr", "expr", "xpath"}).Draw(rt, "lang"), Perturb: uint64(rapid.IntRange(0, 200).Draw(rt, "perturb"))}
		for i := 0; i < d.Tokens; i++ {
			d.Values = append(d.Values, int64(rapid.IntRange(0, 3).Draw(rt, "value")))
		}
		for i := rapid.IntRange(1, 3).Draw(rt, "branches"); i > 0; i-- {
			d.Ks = append(d.Ks, int64(rapid.IntRange(0, 2).Draw(rt, "k")))
		}
		g, ans := buildFunnel(d)
		c := &drive.Case{Graph: g, Lang: d.Lang, Vars: map[string]any{"x": int64(0)}, Answers: ans, Perturb: d.Perturb}
		pick := func(n int) int {
			v := rapid.IntRange(0, n-1).Draw(rt, "pick")
			c.Schedule = append(c.Schedule, v)
			return v
		}
		hash := rec.Hash(d)
		rec.Begin("TestC05Funnel", hash, d)
		out := drive.RunLockstep(c, pick, nil)
		d.Schedule = c.Schedule
		if out.Inconcl != "" {
			rec.End(hash, "inconclusive")
			rec.Inconclusive("TestC05Funnel", out.Inconcl)
			rt.Fatalf("inconclusive: %s", out.Inconcl)
		}
		rec.End(hash, out.Symptom)
		// classes: how the activations differ
		kinds := map[string]bool{}
		for _, v := range d.Values {
			n := 0
			for _, k := range d.Ks {
				if v > k {
					n++
				}
			}
			switch {
			case n == 0 && d.Default:
				kinds["defaultOnly"] = true
			case n == 0:
				kinds["noFlow"] = true
			case n == 1:
				kinds["one"] = true
			default:
				kinds["several"] = true
			}
		}
		var cls []string
		for k := range map[string]bool{"defaultOnly": true, "noFlow": true, "one": true, "several": true} {
			if kinds[k] {
				cls = append(cls, "activation:"+k)
			}
		}
		if kinds["noFlow"] && len(kinds) > 1 {
			cls = append(cls, "noFlowAmongOthers")
		}
		rec.Case("TestC05Funnel", hash, len(kinds) >= 2, cls, map[string]any{"case": d, "steps": out.Steps})
		if out.Symptom != "" {
			rt.Fatalf("%s", rec.Fail(rec.Failure{Property: prop, Test: "TestC05Funnel", Symptom: out.Symptom, Detail: out.Detail, Descriptor: d,
				History: map[string]any{"steps": out.Steps, "traces": out.Traces, "xml": out.Program.XML()}, Goroutines: out.Gs}))
		}
	})
}
