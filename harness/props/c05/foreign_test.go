package c05

// TestC05Foreign: an inclusive join that also receives tokens which do NOT
// come from its fork (a parallel sibling of the fork, or a second start event,
// each over an incoming flow of its own):
//
//	start -> P -> G1(inclusive) -> a1..an -> G2(inclusive join) -> after -> end
//	         P -> t1..tf -----------------^            (or: start_i -> t_i -> G2)
//
// The statement says when the join may release the token of the fork
// activation: not before every activated branch has delivered, not after every
// token of the fork has arrived. What happens to the foreign tokens (merged
// into that release, as BPMN says, or released on their own) is not fixed by
// the statement, so the check is a set of invariants rather than the model:
//
//   - the first token at the join is one of the fork's (otherwise the first
//     release belongs to no fork activation and the statement does not bind it);
//   - no `after` request while an activated branch is still unanswered;
//   - at least one `after` request once all activated branches are answered;
//   - in the end between 1 and 1+f requests, no error trace, the instance
//     completes.

import (
	"context"
	"fmt"
	"sort"
	"testing"

	bpmn "github.com/olive-io/bpmn/v2"
	"pgregory.net/rapid"

	"verif/harness/drive"
	"verif/harness/gen"
	"verif/harness/rec"
)

type foreignDesc struct {
	Branches int    `json:"branches"` // branches of the fork (2..4)
	Mask     int    `json:"mask"`     // activated branches (bit i), at least one
	Foreign  int    `json:"foreign"`  // foreign tokens (1..3)
	Starts   bool   `json:"starts"`   // foreign tokens come from start events of their own instead of a parallel fork
	ForkLast bool   `json:"forkLast"` // the parallel fork lists the flow to G1 last
	Order    []int  `json:"order"`    // answer order: indices into activated branches ++ foreign tasks; Order[0] is a branch
	Perturb  uint64 `json:"perturb"`
}

func buildForeign(d foreignDesc) (g *gen.Graph, branchTasks, foreignTasks []string, after string) {
	b := gen.NewB()
	st := b.Add(gen.KStart)
	g1 := b.Add(gen.KInc)
	g2 := b.Add(gen.KInc)
	var par *gen.Node
	if !d.Starts {
		par = b.Add(gen.KPar)
		b.Connect(st, par)
		if !d.ForkLast {
			b.Connect(par, g1)
		}
	} else {
		b.Connect(st, g1)
	}
	for i := 0; i < d.Branches; i++ {
		t := b.Add(gen.KTask)
		fl := b.Connect(g1, t)
		fl.Formal, fl.Cond = true, gen.Lit(d.Mask&(1<<i) != 0)
		b.Connect(t, g2)
		branchTasks = append(branchTasks, t.ID)
	}
	for i := 0; i < d.Foreign; i++ {
		t := b.Add(gen.KTask)
		if d.Starts {
			s := b.Add(gen.KStart)
			b.Connect(s, t)
		} else {
			b.Connect(par, t)
		}
		b.Connect(t, g2)
		foreignTasks = append(foreignTasks, t.ID)
	}
	if par != nil && d.ForkLast {
		b.Connect(par, g1)
	}
	a := b.Add(gen.KTask)
	b.Connect(g2, a)
	en := b.Add(gen.KEnd)
	b.Connect(a, en)
	return b.G, branchTasks, foreignTasks, a.ID
}

type foreignRes struct {
	Symptom, Detail, Inconcl string
	History                  []string
	Traces                   []string
	After                    int
}

func runForeign(d foreignDesc) *foreignRes {
	r := &foreignRes{}
	g, branches, foreign, after := buildForeign(d)
	prog := &gen.Program{G: g, DefaultLang: "expr"}
	in, err := drive.New(prog.XML(), drive.Options{})
	if err != nil {
		r.Symptom, r.Detail = "construct", err.Error()
		return r
	}
	defer in.Close()
	fail := func(sym, det string) *foreignRes {
		r.Symptom, r.Detail = sym, det
		r.Traces = drive.DescribeAll(in.Traces())
		return r
	}
	var activated []string
	for i, id := range branches {
		if d.Mask&(1<<i) != 0 {
			activated = append(activated, id)
		}
	}
	stimuli := append(append([]string(nil), activated...), foreign...)
	pend := map[string]bpmn.TaskTrace{}
	afterPending := []bpmn.TaskTrace{}
	collect := func() string {
		for _, tt := range in.NewTasks() {
			id, _ := tt.GetActivity().Element().Id()
			if *id == after {
				r.After++
				afterPending = append(afterPending, tt)
				continue
			}
			if _, dup := pend[*id]; dup {
				return fmt.Sprintf("task %s requested twice", *id)
			}
			pend[*id] = tt
		}
		return ""
	}
	if err := in.StartAll(); err != nil {
		return fail("start-error", err.Error())
	}
	if _, err := in.Quiesce(); err != nil {
		r.Inconcl = err.Error()
		return r
	}
	if msg := collect(); msg != "" {
		return fail("requests", msg)
	}
	var want []string
	want = append(want, stimuli...)
	sort.Strings(want)
	var got []string
	for id := range pend {
		got = append(got, id)
	}
	sort.Strings(got)
	if fmt.Sprint(want) != fmt.Sprint(got) || r.After != 0 {
		return fail("requests", fmt.Sprintf("after the start: requests %v (+%d for the task behind the join), expected %v", got, r.After, want))
	}
	unanswered := map[string]bool{}
	for _, id := range activated {
		unanswered[id] = true
	}
	for step, oi := range d.Order {
		id := stimuli[oi]
		tt := pend[id]
		delete(pend, id)
		tt.Do()
		delete(unanswered, id)
		if _, err := in.Quiesce(); err != nil {
			r.Inconcl = err.Error()
			return r
		}
		if msg := collect(); msg != "" {
			return fail("requests", msg)
		}
		r.History = append(r.History, fmt.Sprintf("answer %s -> %d request(s) behind the join so far", id, r.After))
		if len(unanswered) > 0 && r.After > 0 {
			return fail("released-early", fmt.Sprintf("step %d: the join released %d token(s) although the activated branch(es) %v have not delivered their token", step, r.After, keys(unanswered)))
		}
		if len(unanswered) == 0 && r.After == 0 {
			return fail("released-late", fmt.Sprintf("step %d: every activated branch of the fork has delivered its token, the join has released nothing", step))
		}
	}
	// let the released tokens finish
	for len(afterPending) > 0 {
		tt := afterPending[0]
		afterPending = afterPending[1:]
		tt.Do()
		if _, err := in.Quiesce(); err != nil {
			r.Inconcl = err.Error()
			return r
		}
		if msg := collect(); msg != "" {
			return fail("requests", msg)
		}
	}
	if r.After < 1 || r.After > 1+d.Foreign {
		return fail("release-count", fmt.Sprintf("the join released %d tokens for one fork activation and %d foreign tokens", r.After, d.Foreign))
	}
	for _, tr := range in.Traces() {
		if e, ok := tr.(bpmn.ErrorTrace); ok {
			return fail("errors", fmt.Sprintf("error trace %v", e.Error))
		}
	}
	ctx, cancel := context.WithCancel(context.Background())
	res := make(chan bool, 1)
	go func() { res <- in.P.WaitUntilComplete(ctx) }()
	_, qerr := in.Quiesce()
	done := false
	select {
	case done = <-res:
	default:
	}
	cancel()
	if qerr != nil {
		r.Inconcl = qerr.Error()
		return r
	}
	if !done {
		return fail("not-complete", fmt.Sprintf("every task has been answered (%d releases of the join), the instance does not complete: a token is held at the join", r.After))
	}
	return r
}

func keys(m map[string]bool) []string {
	var out []string
	for k := range m {
		out = append(out, k)
	}
	sort.Strings(out)
	return out
}

func TestC05Foreign(t *testing.T) {
	var rd foreignDesc
	if ok, err := rec.ReplayInput(&rd); ok {
		if err != nil {
			t.Fatal(err)
		}
		if rd.Branches == 0 {
			return
		}
		if r := runForeign(rd); r.Symptom != "" {
			fmt.Printf("REPRODUCED %s: %s\n", r.Symptom, r.Detail)
			t.Fatalf("%s", r.Symptom)
		}
		return
	}
	rapid.Check(t, func(rt *rapid.T) {
		d := foreignDesc{Branches: rapid.IntRange(2, 4).Draw(rt, "branches"), Foreign: rapid.IntRange(1, 3).Draw(rt, "foreign"),
			Starts: rapid.Bool().Draw(rt, "starts"), ForkLast: rapid.Bool().Draw(rt, "forkLast"), Perturb: uint64(rapid.IntRange(0, 100).Draw(rt, "perturb"))}
		if !d.Starts && d.ForkLast {
			// with three or more flows out of the parallel fork a fork-entering
			// flow that is not the first listed is filed together with a
			// sibling: pattern of known finding C05-F1, not this test's subject
			d.Foreign = 1
		}
		d.Mask = rapid.IntRange(1, 1<<d.Branches-1).Draw(rt, "mask")
		nact := 0
		for i := 0; i < d.Branches; i++ {
			if d.Mask&(1<<i) != 0 {
				nact++
			}
		}
		// order: a branch first, then any permutation of the rest
		first := rapid.IntRange(0, nact-1).Draw(rt, "first")
		var rest []int
		for i := 0; i < nact+d.Foreign; i++ {
			if i != first {
				rest = append(rest, i)
			}
		}
		d.Order = append([]int{first}, rapid.Permutation(rest).Draw(rt, "rest")...)
		hash := rec.Hash(d)
		rec.Begin("TestC05Foreign", hash, d)
		r := runForeign(d)
		if r.Inconcl != "" {
			rec.End(hash, "inconclusive")
			rec.Inconclusive("TestC05Foreign", r.Inconcl)
			rt.Fatalf("inconclusive: %s", r.Inconcl)
		}
		rec.End(hash, r.Symptom)
		// non-trivial: a foreign token reaches the join while an activated branch is still out
		foreignBeforeLastBranch := false
		seenForeign := false
		for _, oi := range d.Order {
			if oi >= nact {
				seenForeign = true
			} else if seenForeign {
				foreignBeforeLastBranch = true
			}
		}
		cls := []string{fmt.Sprintf("activated=%d foreign=%d", nact, d.Foreign), fmt.Sprintf("releases=%d", r.After)}
		if d.Starts {
			cls = append(cls, "fromStartEvents")
		} else {
			cls = append(cls, "fromParallelSibling")
		}
		rec.Case("TestC05Foreign", hash, foreignBeforeLastBranch, cls, map[string]any{"case": d, "history": r.History})
		if r.Symptom != "" {
			rt.Fatalf("%s", rec.Fail(rec.Failure{Property: prop, Test: "TestC05Foreign", Symptom: r.Symptom, Detail: r.Detail, Descriptor: d,
				History: map[string]any{"history": r.History, "traces": r.Traces}}))
		}
	})
}
