package c05

import (
	"fmt"
	"testing"

	"pgregory.net/rapid"

	"verif/harness/drive"
	"verif/harness/gen"
	"verif/harness/model"
	"verif/harness/rec"
)

const prop = "C05"

// descriptor of an inclusive fork/join case.
type descriptor struct {
	NB       int    `json:"nb"`       // conditional branches
	Mask     int    `json:"mask"`     // truth assignment of the branch conditions
	Def      int    `json:"def"`      // index of the default branch, -1 none
	Body     []int  `json:"body"`     // per branch: 0 task, 1 two tasks, 2 task then xor(early end | continue), 3 empty (flow straight to the join)
	EarlyEnd []bool `json:"earlyEnd"` // per branch of body kind 2: the token takes the end path
	Order    []int  `json:"order"`    // listing order permutation of the fork's outgoing flows
	Repeat   int    `json:"repeat"`   // the block repeated sequentially 1..2 times
	Lang     string `json:"lang"`     // expr|xpath
	Schedule []int  `json:"schedule"` // answer order
	DeclSeed int    `json:"declSeed"`
	// Loop: the inclusive block sits in a loop that is taken Loop more times:
	// the SAME fork and join gateways are activated again (their bookkeeping of
	// the previous activation must not leak into the next)
	Loop int `json:"loop,omitempty"`
	// Raw: bit i set = the condition of branch i cannot be evaluated to a boolean
	// (unknown variable / non-boolean / foreign syntax): it is not true, and the
	// conditions listed after it are still evaluated
	Raw int `json:"raw,omitempty"`
	// FlowLang: per branch an explicit language attribute ("" = the definitions
	// default, "expr", "xpath"): the activating token probes conditions written
	// in different expression languages at one gateway
	FlowLang []string `json:"flowLang,omitempty"`
	// PropMask: bit i set = the condition of branch i reads an olive property
	// declared on the process (getProp(name) == 1; the document declares 1 or 0
	// according to Mask) instead of a variable; such a flow is written in expr
	PropMask int `json:"propMask,omitempty"`
}

func task() *gen.Block { return &gen.Block{K: "task", Def: -1} }

func buildAST(d descriptor, vars map[string]any) *gen.Block {
	top := &gen.Block{K: "seq", Def: -1}
	top.Kids = append(top.Kids, task())
	for rep := 0; rep < d.Repeat; rep++ {
		inc := &gen.Block{K: "inc", Def: d.Def}
		if len(d.FlowLang) == d.NB {
			inc.Langs = append([]string(nil), d.FlowLang...)
		}
		for i := 0; i < d.NB; i++ {
			v := fmt.Sprintf("c%d_%d", rep, i)
			vars[v] = d.Mask&(1<<i) != 0
			if d.Raw&(1<<i) != 0 {
				inc.Conds = append(inc.Conds, gen.Raw([]string{"undefinedVariable9 > 1", "1 + 1", "${x}"}[i%3]))
			} else if d.PropMask&(1<<i) != 0 {
				pv := int64(0)
				if d.Mask&(1<<i) != 0 {
					pv = 1
				}
				inc.Conds = append(inc.Conds, &gen.Cond{Op: "prop", Var: "pp_" + v, K: 1, PV: pv})
				if len(inc.Langs) != d.NB {
					inc.Langs = make([]string, d.NB)
				}
				inc.Langs[i] = "expr"
			} else {
				inc.Conds = append(inc.Conds, gen.BoolVar(v))
			}
			body := 0
			if i < len(d.Body) {
				body = d.Body[i]
			}
			switch body {
			case 0:
				inc.Kids = append(inc.Kids, &gen.Block{K: "seq", Def: -1, Kids: []*gen.Block{task()}})
			case 1:
				inc.Kids = append(inc.Kids, &gen.Block{K: "seq", Def: -1, Kids: []*gen.Block{task(), task()}})
			case 2:
				ev := fmt.Sprintf("e%d_%d", rep, i)
				early := i < len(d.EarlyEnd) && d.EarlyEnd[i]
				vars[ev] = early
				x := &gen.Block{K: "xor", Def: 1, Conds: []*gen.Cond{gen.BoolVar(ev), nil},
					Kids: []*gen.Block{{K: "seq", Def: -1, Kids: []*gen.Block{{K: "end", Def: -1}}}, {K: "seq", Def: -1, Kids: []*gen.Block{task()}}}}
				inc.Kids = append(inc.Kids, &gen.Block{K: "seq", Def: -1, Kids: []*gen.Block{task(), x}})
			default:
				inc.Kids = append(inc.Kids, nil)
			}
		}
		if len(d.Order) == d.NB {
			inc.Order = d.Order
		}
		if d.Loop > 0 {
			lv := fmt.Sprintf("lp%d", rep+1)
			vars[lv] = false
			lt := &gen.Block{K: "task", Def: -1, Results: []string{lv}, LoopVar: lv}
			body := &gen.Block{K: "seq", Def: -1, Kids: []*gen.Block{inc, lt}}
			top.Kids = append(top.Kids, &gen.Block{K: "loop", Def: -1, Kids: []*gen.Block{body}, Conds: []*gen.Cond{gen.BoolVar(lv)}, LoopVar: lv}, task())
			continue
		}
		top.Kids = append(top.Kids, inc, task())
	}
	return top
}

// loopAnswers plans the answers of the loop tasks: Loop times "again", then "leave".
func loopAnswers(d descriptor, ast *gen.Block) map[string][]model.Answer {
	out := map[string][]model.Answer{}
	if d.Loop <= 0 {
		return out
	}
	for id, blk := range gen.Lower(ast).TaskOf {
		if blk.LoopVar == "" {
			continue
		}
		var as []model.Answer
		for i := 0; i < d.Loop; i++ {
			as = append(as, model.Answer{Kind: model.AnsOK, Results: map[string]any{blk.LoopVar: true}})
		}
		out[id] = append(as, model.Answer{Kind: model.AnsOK, Results: map[string]any{blk.LoopVar: false}})
	}
	return out
}

func activated(d descriptor) int {
	n := 0
	for i := 0; i < d.NB; i++ {
		if i != d.Def && d.Mask&(1<<i) != 0 {
			n++
		}
	}
	if n == 0 && d.Def >= 0 {
		n = 1
	}
	return n
}

func nontrivial(d descriptor, out *drive.Outcome) bool {
	act := activated(d)
	early := false
	for i := 0; i < d.NB; i++ {
		if i < len(d.Body) && d.Body[i] == 2 && i < len(d.EarlyEnd) && d.EarlyEnd[i] {
			isAct := (i != d.Def && d.Mask&(1<<i) != 0) || (i == d.Def && act == 1 && d.Mask&^(1<<uint(maxInt(d.Def, 0))) == 0)
			if isAct {
				early = true
			}
		}
	}
	unactivated := act < d.NB
	return (act >= 2 && out.MaxPend >= 2) || early || (unactivated && act >= 1)
}

func maxInt(a, b int) int {
	if a > b {
		return a
	}
	return b
}

func run(t interface{ Fatalf(string, ...any) }, test string, d *descriptor, pick func(int) int) *drive.Outcome {
	vars := map[string]any{}
	ast := buildAST(*d, vars)
	c := &drive.Case{Prog: ast, Lang: d.Lang, Vars: vars, Answers: loopAnswers(*d, ast), Schedule: d.Schedule, DeclSeed: d.DeclSeed}
	hash := rec.Hash(d)
	rec.Begin(test, hash, d)
	out := drive.RunLockstep(c, pick, &drive.Hooks{AllowOtherErrors: d.Raw != 0})
	if out.Inconcl != "" {
		rec.End(hash, "inconclusive")
		rec.Inconclusive(test, out.Inconcl)
		t.Fatalf("inconclusive: %s", out.Inconcl)
	}
	rec.End(hash, out.Symptom)
	if out.Symptom != "" {
		msg := rec.Fail(rec.Failure{Property: prop, Test: test, Symptom: out.Symptom, Detail: out.Detail, Descriptor: d,
			History: map[string]any{"steps": out.Steps, "traces": out.Traces, "xml": out.Program.XML()}, Goroutines: out.Gs})
		t.Fatalf("%s", msg)
	}
	return out
}

func replayIfAsked(t *testing.T) bool {
	var rd descriptor
	ok, err := rec.ReplayInput(&rd)
	if !ok {
		return false
	}
	if err != nil {
		t.Fatal(err)
	}
	vars := map[string]any{}
	ast := buildAST(rd, vars)
	c := &drive.Case{Prog: ast, Lang: rd.Lang, Vars: vars, Answers: loopAnswers(rd, ast), Schedule: rd.Schedule, DeclSeed: rd.DeclSeed}
	out := drive.RunLockstep(c, nil, &drive.Hooks{AllowOtherErrors: rd.Raw != 0})
	if out.Symptom != "" {
		fmt.Printf("REPRODUCED %s: %s\n", out.Symptom, out.Detail)
		t.Fatalf("%s", out.Symptom)
	}
	return true
}

// TestC05Table: 1..3 (thorough 4) branches x all truth assignments x default
// absent/at every branch x three body variants x three deterministic orders.
func TestC05Table(t *testing.T) {
	if replayIfAsked(t) {
		return
	}
	maxNB := 3
	if rec.Tier() == "thorough" {
		maxNB = 4
	}
	total, nt := 0, 0
	classes := map[string]int{}
	var samples []any
	for nb := 1; nb <= maxNB; nb++ {
		for mask := 0; mask < 1<<nb; mask++ {
			for def := -1; def < nb; def++ {
				for variant := 0; variant < 4; variant++ {
					for sched := 0; sched < 3; sched++ {
						d := descriptor{NB: nb, Mask: mask, Def: def, Repeat: 1, Lang: "expr"}
						for i := 0; i < nb; i++ {
							switch variant {
							case 0:
								d.Body = append(d.Body, 0)
							case 1:
								d.Body = append(d.Body, 1)
							case 2:
								d.Body = append(d.Body, 2)
								d.EarlyEnd = append(d.EarlyEnd, i%2 == 0)
							default:
								d.Body = append(d.Body, []int{2, 0, 3, 1}[i%4])
								d.EarlyEnd = append(d.EarlyEnd, i == 0)
							}
						}
						if variant == 3 {
							d.Repeat = 2
						}
						pickN := 0
						pick := func(n int) int {
							var v int
							switch sched {
							case 0:
								v = 0
							case 1:
								v = n - 1
							default:
								v = pickN % n
							}
							pickN++
							d.Schedule = append(d.Schedule, v)
							return v
						}
						out := run(t, "TestC05Table", &d, pick)
						total++
						isNT := nontrivial(d, out)
						if isNT {
							nt++
							if len(samples) < 6 && total%53 == 0 {
								samples = append(samples, map[string]any{"case": d, "steps": out.Steps})
							}
						}
						classes[fmt.Sprintf("nb=%d", nb)]++
						classes[fmt.Sprintf("variant=%d", variant)]++
						if out.Stuck {
							classes["no-effective-flow"]++
						}
						if out.MaxPend >= 2 {
							classes["pending>=2"]++
						}
					}
				}
			}
		}
	}
	rec.Count("TestC05Table", total, nt, classes, samples, true)
}

// TestC05Random: random bodies, listing orders, orders of completion, both
// languages, repeated blocks.
func TestC05Random(t *testing.T) {
	if replayIfAsked(t) {
		return
	}
	rapid.Check(t, func(rt *rapid.T) {
		nb := rapid.IntRange(1, 4).Draw(rt, "nb")
		d := descriptor{NB: nb, Mask: rapid.IntRange(0, 1<<nb-1).Draw(rt, "mask"), Def: rapid.IntRange(-1, nb-1).Draw(rt, "def"),
			Repeat: rapid.IntRange(1, 2).Draw(rt, "repeat"), Lang: rapid.SampledFrom([]string{"expr", "xpath"}).Draw(rt, "lang"),
			DeclSeed: rapid.IntRange(0, 300).Draw(rt, "declSeed"), Loop: rapid.SampledFrom([]int{0, 0, 1, 2}).Draw(rt, "loop")}
		for i := 0; i < nb; i++ {
			d.Body = append(d.Body, rapid.IntRange(0, 3).Draw(rt, "body"))
			d.EarlyEnd = append(d.EarlyEnd, rapid.Bool().Draw(rt, "early"))
		}
		d.Order = rapid.Permutation(seq(nb)).Draw(rt, "order")
		if nb >= 2 && rapid.IntRange(0, 2).Draw(rt, "mixedLanguages") == 0 {
			for i := 0; i < nb; i++ {
				d.FlowLang = append(d.FlowLang, rapid.SampledFrom([]string{"", "expr", "xpath"}).Draw(rt, "flowLang"))
			}
		}
		if rapid.IntRange(0, 3).Draw(rt, "unevaluable") == 0 {
			d.Raw = rapid.IntRange(1, 1<<nb-1).Draw(rt, "raw")
			if d.Def >= 0 {
				d.Raw &^= 1 << d.Def
			}
			d.Mask &^= d.Raw // an unevaluable condition is not true
		}
		if rapid.IntRange(0, 3).Draw(rt, "propertyConditions") == 0 {
			d.PropMask = rapid.IntRange(1, 1<<nb-1).Draw(rt, "propMask") &^ d.Raw
		}
		pick := func(n int) int {
			v := rapid.IntRange(0, n-1).Draw(rt, "pick")
			d.Schedule = append(d.Schedule, v)
			return v
		}
		out := run(rt, "TestC05Random", &d, pick)
		cls := []string{fmt.Sprintf("nb=%d", nb), "lang=" + d.Lang, fmt.Sprintf("repeat=%d", d.Repeat), fmt.Sprintf("activated=%d", activated(d))}
		if d.PropMask != 0 {
			cls = append(cls, "propertyConditions")
		}
		if d.Loop > 0 {
			cls = append(cls, "gatewaysReentered")
		}
		if d.Raw != 0 {
			cls = append(cls, "unevaluableCondition")
		}
		if out.Stuck {
			cls = append(cls, "no-effective-flow")
		}
		if out.MaxPend >= 2 {
			cls = append(cls, "pending>=2")
		}
		rec.Case("TestC05Random", rec.Hash(d), nontrivial(d, out), cls, map[string]any{"case": d, "steps": out.Steps})
	})
}

func seq(n int) []int {
	out := make([]int, n)
	for i := range out {
		out[i] = i
	}
	return out
}

// TestC05Nested keeps the pattern of finding C05-F1 in the domain: inclusive
// blocks under parallel/inclusive branches and forks inside inclusive
// branches. While C05-F1 is listed as known a failure here is attributed to it
// only if the symptom class matches; anything else is a violation.
func TestC05Nested(t *testing.T) {
	var rc drive.Case
	if ok, err := rec.ReplayInput(&rc); ok {
		if err != nil {
			t.Fatal(err)
		}
		rc.Normalize()
		out := drive.RunLockstep(&rc, nil, nil)
		if out.Symptom != "" {
			fmt.Printf("REPRODUCED %s: %s\n", out.Symptom, out.Detail)
			t.Fatalf("%s", out.Symptom)
		}
		return
	}
	rapid.Check(t, func(rt *rapid.T) {
		o := gen.GenOpts{MaxDepth: 3, MaxNodes: 14, NoSub: true, NoLoop: true, NoMMerge: true, NoCTask: true}
		blk := gen.GenProgram(rt, o)
		f := blk.Features()
		if !f.IncNested {
			// steer: wrap into par( blk , inc(task) ) so that the pattern is always present
			blk = &gen.Block{K: "seq", Def: -1, Kids: []*gen.Block{{K: "par", Def: -1, Kids: []*gen.Block{
				{K: "seq", Def: -1, Kids: []*gen.Block{blk}},
				{K: "seq", Def: -1, Kids: []*gen.Block{{K: "inc", Def: 0, Conds: []*gen.Cond{gen.False()}, Kids: []*gen.Block{{K: "seq", Def: -1, Kids: []*gen.Block{task()}}}}}},
			}}}}
		}
		c := &drive.Case{Prog: blk, Lang: "expr", Vars: map[string]any{}, Answers: map[string][]model.Answer{}}
		for _, v := range gen.IntVars {
			c.Vars[v] = int64(rapid.IntRange(0, 3).Draw(rt, v))
		}
		for _, v := range gen.BoolVars {
			c.Vars[v] = rapid.Bool().Draw(rt, v)
		}
		pick := func(n int) int {
			v := rapid.IntRange(0, n-1).Draw(rt, "pick")
			c.Schedule = append(c.Schedule, v)
			return v
		}
		hash := rec.Hash(c)
		rec.Begin("TestC05Nested", hash, c)
		out := drive.RunLockstep(c, pick, nil)
		if out.Inconcl != "" {
			rec.End(hash, "inconclusive")
			rec.Inconclusive("TestC05Nested", out.Inconcl)
			rt.Fatalf("inconclusive: %s", out.Inconcl)
		}
		rec.End(hash, out.Symptom)
		cls := []string{"nested", "checked-strictly"}
		if len(out.CohortRisk) > 0 {
			cls[1] = "inside-C05-F1-pattern"
		}
		rec.Case("TestC05Nested", hash, true, cls, map[string]any{"case": c, "steps": out.Steps, "c05f1": out.CohortRisk})
		if out.Symptom == "" {
			return
		}
		if rec.Known("C05-F1") && len(out.CohortRisk) > 0 {
			switch out.Symptom {
			case "missing-request", "not-complete", "extra-request", "flows", "ends", "errors", "complete-early":
				rec.KnownHit("TestC05Nested", "C05-F1", hash)
				return
			}
		}
		rt.Fatalf("%s", rec.Fail(rec.Failure{Property: prop, Test: "TestC05Nested", Symptom: out.Symptom, Detail: out.Detail, Descriptor: c,
			History: map[string]any{"steps": out.Steps, "traces": out.Traces, "xml": out.Program.XML()}, Goroutines: out.Gs}))
	})
}
