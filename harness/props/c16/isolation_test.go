package c16

// TestC16Isolation: variables of different instances are isolated from each
// other - also in what their CONDITIONS see. Several instances of one
// document (an exclusive gateway whose flows test v0..v3) run in one program,
// one after another or alive at the same time, each with its own subset of the
// variables. An instance must be routed by its own variables only: a variable
// it does not have cannot make one of its conditions true, whatever other
// instances hold.

import (
	"fmt"
	"testing"

	"pgregory.net/rapid"

	"verif/harness/drive"
	"verif/harness/gen"
	"verif/harness/rec"
)

type isoInst struct {
	Vars map[string]bool `json:"vars"` // the instance's own variables (subset of v0..v3)
}

type isoDesc struct {
	Conds     []string  `json:"conds"` // variable tested by flow i (listing order); the default flow comes last
	Lang      string    `json:"lang"`
	Insts     []isoInst `json:"insts"`
	Alive     bool      `json:"alive"`     // all instances are created and started before the first is looked at
	SameModel bool      `json:"sameModel"` // all instances are created from ONE parsed model
}

func runIsolation(d isoDesc) (sym, det, inconcl string) {
	b := gen.NewB()
	st := b.Add(gen.KStart)
	g := b.Add(gen.KXor)
	b.Connect(st, g)
	var branch []string
	for _, v := range d.Conds {
		t := b.Add(gen.KTask)
		f := b.Connect(g, t)
		f.Formal, f.Cond = true, gen.BoolVar(v)
		en := b.Add(gen.KEnd)
		b.Connect(t, en)
		branch = append(branch, t.ID)
	}
	dt := b.Add(gen.KTask)
	df := b.Connect(g, dt)
	g.Default = df.ID
	den := b.Add(gen.KEnd)
	b.Connect(dt, den)
	prog := &gen.Program{G: b.G, DefaultLang: d.Lang}
	x := prog.XML()
	var shared *drive.Inst
	var insts []*drive.Inst
	defer func() {
		for _, in := range insts {
			in.Close()
		}
	}()
	mk := func(i int) (*drive.Inst, error) {
		vars := map[string]any{}
		for k, v := range d.Insts[i].Vars {
			vars[k] = v
		}
		if d.SameModel && shared != nil {
			return drive.NewFromDefs(shared.Defs, shared.Tr, drive.Options{Vars: vars})
		}
		var o drive.Options
		o.Vars = vars
		if shared != nil {
			o.Tracker = shared.Tr
		}
		in, err := drive.New(x, o)
		if err == nil && shared == nil {
			shared = in
		}
		return in, err
	}
	want := func(i int) string {
		for k, v := range d.Conds {
			if val, has := d.Insts[i].Vars[v]; has && val {
				return branch[k]
			}
		}
		return dt.ID
	}
	look := func(i int, in *drive.Inst) (string, string) {
		if _, err := in.Quiesce(); err != nil {
			return "", err.Error()
		}
		ts := in.NewTasks()
		if len(ts) != 1 {
			return fmt.Sprintf("instance %d (own variables %v): %d task requests, want exactly one", i, d.Insts[i].Vars, len(ts)), ""
		}
		id, _ := ts[0].GetActivity().Element().Id()
		if *id != want(i) {
			return fmt.Sprintf("instance %d with own variables %v was routed to %s, want %s (conditions test %v in this order, then the default; the other instances hold %v)", i, d.Insts[i].Vars, *id, want(i), d.Conds, d.Insts), ""
		}
		ts[0].Do()
		return "", ""
	}
	for i := range d.Insts {
		in, err := mk(i)
		if err != nil {
			return "construct", err.Error(), ""
		}
		insts = append(insts, in)
		if err := in.StartAll(); err != nil {
			return "start-error", err.Error(), ""
		}
		if !d.Alive {
			if s, inc := look(i, in); s != "" || inc != "" {
				return "isolation", s, inc
			}
		}
	}
	if d.Alive {
		for i, in := range insts {
			if s, inc := look(i, in); s != "" || inc != "" {
				return "isolation", s, inc
			}
		}
	}
	return "", "", ""
}

func TestC16Isolation(t *testing.T) {
	var rd isoDesc
	if ok, err := rec.ReplayInput(&rd); ok {
		if err != nil {
			t.Fatal(err)
		}
		if len(rd.Insts) == 0 {
			return
		}
		if s, dd, _ := runIsolation(rd); s != "" {
			fmt.Printf("REPRODUCED %s: %s\n", s, dd)
			t.Fatalf("%s", s)
		}
		return
	}
	pool := []string{"v0", "v1", "v2", "v3"}
	rapid.Check(t, func(rt *rapid.T) {
		d := isoDesc{Lang: rapid.SampledFrom([]string{"expr", "expr", "xpath"}).Draw(rt, "lang"), Alive: rapid.Bool().Draw(rt, "alive"), SameModel: rapid.Bool().Draw(rt, "sameModel")}
		for i := rapid.IntRange(1, 3).Draw(rt, "conds"); i > 0; i-- {
			d.Conds = append(d.Conds, rapid.SampledFrom(pool).Draw(rt, "condVar"))
		}
		foreign := false
		for i := rapid.IntRange(2, 5).Draw(rt, "instances"); i > 0; i-- {
			in := isoInst{Vars: map[string]bool{}}
			for _, v := range pool {
				switch rapid.IntRange(0, 3).Draw(rt, "has") {
				case 0:
					in.Vars[v] = true
				case 1:
					in.Vars[v] = false
				}
			}
			d.Insts = append(d.Insts, in)
		}
		// non-trivial: some instance lacks a tested variable that an EARLIER instance holds as true
		for i := range d.Insts {
			for _, v := range d.Conds {
				if _, has := d.Insts[i].Vars[v]; has {
					continue
				}
				for j := 0; j < i; j++ {
					if d.Insts[j].Vars[v] {
						foreign = true
					}
				}
			}
		}
		hash := rec.Hash(d)
		rec.Begin("TestC16Isolation", hash, d)
		s, dd, inc := runIsolation(d)
		if inc != "" {
			rec.End(hash, "inconclusive")
			rec.Inconclusive("TestC16Isolation", inc)
			rt.Fatalf("inconclusive: %s", inc)
		}
		rec.End(hash, s)
		cls := []string{"lang=" + d.Lang}
		if foreign {
			cls = append(cls, "testedVariableHeldOnlyByAnEarlierInstance")
		}
		rec.Case("TestC16Isolation", hash, foreign, cls, d)
		if s != "" {
			rt.Fatalf("%s", rec.Fail(rec.Failure{Property: prop, Test: "TestC16Isolation", Symptom: s, Detail: dd, Descriptor: d}))
		}
	})
}
