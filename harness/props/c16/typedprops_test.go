package c16

// TestC16TypedProps: typed item declarations. A task declares olive
// properties with a type and no value; each is resolved from the same-named
// instance variable when the task is requested. Whatever that variable holds -
// a value of the declared type, text that can be read as one, or something
// that cannot be represented in it, or nothing at all - the item the task is
// handed carries the DECLARED item type, and nothing panics.

import (
	"fmt"
	"sort"
	"testing"

	"pgregory.net/rapid"

	"verif/harness/drive"
	"verif/harness/gen"
	"verif/harness/rec"
)

type typedDesc struct {
	Types []string `json:"types"` // declared type of property p<i>
	Vals  []int    `json:"vals"`  // index into typedPool for variable p<i> (-1: no such variable)
}

var typedPool = []any{"42", "true", "[1,2,3]", "0.25", "hello", "not a number", "", int64(7), int64(0), true, false, 0.5, 1e21,
	map[string]any{"k": "v"}, []any{int64(1), "a"}, `{"k":1}`}

func runTyped(d typedDesc) (sym, det, inconcl string) {
	b := gen.NewB()
	st := b.Add(gen.KStart)
	t := b.Add(gen.KTask)
	en := b.Add(gen.KEnd)
	b.Connect(st, t)
	b.Connect(t, en)
	vars := map[string]any{}
	for i, ty := range d.Types {
		name := fmt.Sprintf("p%d", i)
		t.Props = append(t.Props, name+":"+ty)
		if d.Vals[i] >= 0 {
			vars[name] = typedPool[d.Vals[i]]
		}
	}
	prog := &gen.Program{G: b.G, DefaultLang: "expr"}
	in, err := drive.New(prog.XML(), drive.Options{Vars: vars})
	if err != nil {
		return "construct", err.Error(), ""
	}
	defer in.Close()
	if err := in.StartAll(); err != nil {
		return "start-error", err.Error(), ""
	}
	if _, err := in.Quiesce(); err != nil {
		return "", "", err.Error()
	}
	ts := in.NewTasks()
	if len(ts) != 1 {
		return "requests", fmt.Sprintf("%d task requests, want 1 (variables %v)", len(ts), vars), ""
	}
	props := ts[0].GetProperties()
	var names []string
	for i := range d.Types {
		names = append(names, fmt.Sprintf("p%d", i))
	}
	sort.Strings(names)
	for i, ty := range d.Types {
		name := fmt.Sprintf("p%d", i)
		it, ok := props[name]
		if !ok || it == nil {
			return "typed-property", fmt.Sprintf("property %s (declared %s) is missing from the request", name, ty), ""
		}
		if got := string(it.Type()); got != ty {
			return "typed-property", fmt.Sprintf("property %s is declared %s; with the variable %#v the task is handed an item of type %q (value %#v)", name, ty, vars[name], got, it.Value()), ""
		}
	}
	return "", "", ""
}

func TestC16TypedProps(t *testing.T) {
	var rd typedDesc
	if ok, err := rec.ReplayInput(&rd); ok {
		if err != nil {
			t.Fatal(err)
		}
		if len(rd.Types) == 0 {
			return
		}
		if s, dd, _ := runTyped(rd); s != "" {
			fmt.Printf("REPRODUCED %s: %s\n", s, dd)
			t.Fatalf("%s", s)
		}
		return
	}
	types := []string{"integer", "boolean", "float", "string", "array", "object"}
	rapid.Check(t, func(rt *rapid.T) {
		var d typedDesc
		for i := rapid.IntRange(1, 5).Draw(rt, "props"); i > 0; i-- {
			d.Types = append(d.Types, rapid.SampledFrom(types).Draw(rt, "type"))
			d.Vals = append(d.Vals, rapid.IntRange(-1, len(typedPool)-1).Draw(rt, "val"))
		}
		hash := rec.Hash(d)
		rec.Begin("TestC16TypedProps", hash, d)
		s, dd, inc := runTyped(d)
		if inc != "" {
			rec.End(hash, "inconclusive")
			rec.Inconclusive("TestC16TypedProps", inc)
			rt.Fatalf("inconclusive: %s", inc)
		}
		rec.End(hash, s)
		rec.Case("TestC16TypedProps", hash, true, []string{fmt.Sprintf("props=%d", len(d.Types))}, d)
		if s != "" {
			rt.Fatalf("%s", rec.Fail(rec.Failure{Property: prop, Test: "TestC16TypedProps", Symptom: s, Detail: dd, Descriptor: d}))
		}
	})
}
