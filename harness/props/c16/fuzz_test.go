package c16

import (
	"encoding/json"
	"testing"

	"github.com/olive-io/bpmn/schema"

	"verif/harness/rec"
)

// FuzzC16ValueFrom: native fuzzing of the value layer over (declared type,
// JSON-decoded value): nothing may panic, and with an inferred type the value
// must read back in canonical form.
func FuzzC16ValueFrom(f *testing.F) {
	for _, s := range []string{`1`, `-0`, `1e300`, `"x"`, `true`, `null`, `[1,"a",null,{"k":[2.5]}]`, `{"a":{"b":[]}}`, `18446744073709551615`, `""`, `[[[[[]]]]]`} {
		for _, ty := range []string{"", "string", "integer", "boolean", "float", "array", "object", "??"} {
			f.Add(ty, s)
		}
	}
	f.Fuzz(func(t *testing.T, declared string, doc string) {
		var v any
		if err := json.Unmarshal([]byte(doc), &v); err != nil {
			return
		}
		if p := guard(func() {
			val := &schema.Value{ItemType: schema.ItemType(declared)}
			val.ValueFrom(v)
			_ = val.Value()
		}); p != "" {
			t.Fatalf("%s", rec.Fail(rec.Failure{Property: prop, Test: "FuzzC16ValueFrom", Symptom: "panic", Detail: "Value{ItemType:" + declared + "}.ValueFrom(" + doc + ") panicked: " + p, Descriptor: map[string]any{"declared": declared, "doc": doc}}))
		}
		want, wantType := canon(v)
		var got any
		var gotType schema.ItemType
		if p := guard(func() {
			val := schema.NewValue(v)
			got, gotType = val.Value(), val.Type()
		}); p != "" {
			t.Fatalf("%s", rec.Fail(rec.Failure{Property: prop, Test: "FuzzC16ValueFrom", Symptom: "panic", Detail: "NewValue(" + doc + ") panicked: " + p, Descriptor: map[string]any{"doc": doc}}))
		}
		if want == nil {
			return
		}
		if gotType != wantType || !same(got, want) {
			t.Fatalf("%s", rec.Fail(rec.Failure{Property: prop, Test: "FuzzC16ValueFrom", Symptom: "value", Detail: "NewValue(" + doc + ") read back as " + describe(got) + " type " + string(gotType) + ", want " + describe(want), Descriptor: map[string]any{"doc": doc}}))
		}
	})
}
