package c16

// TestC16SetIsolation: the instances a PROCESS SET runs are instances like any
// other - their variables are isolated from each other. 2..3 executable
// processes of one definitions document use the same variable names:
//
//	start_i -> w_i (stores x, some also n) -> r_i (inputs x, n) -> x == v_i ? ok_i : bad_i
//
// The tasks are answered in any interleaving. What r_i is handed (its task
// inputs are resolved from the instance's variables when it is requested) and
// where the gateway sends the token must depend on what the instance's OWN
// task stored (and on the initial values given to the set), never on what
// another instance stored meanwhile.

import (
	"context"
	"fmt"
	"sort"
	"strings"
	"sync"
	"testing"

	bpmn "github.com/olive-io/bpmn/v2"
	"github.com/olive-io/bpmn/v2/pkg/tracing"
	"github.com/olive-io/bpmn/schema"
	"pgregory.net/rapid"

	"verif/harness/gen"
	"verif/harness/quiesce"
	"verif/harness/rec"
)

type setProc struct {
	X      int64 `json:"x"`      // value w_i stores in x
	WriteN bool  `json:"writeN"` // w_i also declares and stores n
	N      int64 `json:"n"`
}

type setDesc struct {
	Procs []setProc `json:"procs"`
	Init  bool      `json:"init"`  // the set is given initial values x=100, n=200
	Order []int     `json:"order"` // which process's next pending task is answered (len = 3*len(Procs))
}

func runSetIsolation(d setDesc) (sym, det, inconcl string) {
	b0 := gen.NewB()
	type pnodes struct{ w, r, ok, bad string }
	var ps []pnodes
	var sb strings.Builder
	sb.WriteString(`<?xml version="1.0" encoding="UTF-8"?>` + "\n")
	sb.WriteString(`<bpmn:definitions xmlns:bpmn="http://www.omg.org/spec/BPMN/20100524/MODEL" xmlns:olive="http://olive.io/spec/BPMN/MODEL" xmlns:xsi="http://www.w3.org/2001/XMLSchema-instance" id="Defs_1" targetNamespace="http://bpmn.io/schema/bpmn" expressionLanguage="https://github.com/expr-lang/expr">` + "\n")
	prog := &gen.Program{DefaultLang: "expr"}
	for i, p := range d.Procs {
		b := b0.Sub()
		st := b.Add(gen.KStart)
		w := b.Add(gen.KTask)
		w.Results = []string{"x"}
		if p.WriteN {
			w.Results = append(w.Results, "n")
		}
		r := b.Add(gen.KTask)
		r.Props = []string{"x:integer", "n:integer"}
		g := b.Add(gen.KXor)
		ok := b.Add(gen.KTask)
		bad := b.Add(gen.KTask)
		e1, e2 := b.Add(gen.KEnd), b.Add(gen.KEnd)
		b.Connect(st, w)
		b.Connect(w, r)
		b.Connect(r, g)
		f := b.Connect(g, ok)
		f.Formal, f.Cond = true, &gen.Cond{Op: "eq", Var: "x", K: p.X}
		df := b.Connect(g, bad)
		g.Default = df.ID
		b.Connect(ok, e1)
		b.Connect(bad, e2)
		ps = append(ps, pnodes{w.ID, r.ID, ok.ID, bad.ID})
		fmt.Fprintf(&sb, `<bpmn:process id="Proc_%d" isExecutable="true">`+"\n", i)
		sb.WriteString(gen.GraphXML(b.G, prog))
		sb.WriteString("</bpmn:process>\n")
	}
	sb.WriteString("</bpmn:definitions>\n")
	defs, err := schema.Parse([]byte(sb.String()))
	if err != nil {
		return "generator", err.Error(), ""
	}
	tr := quiesce.Begin()
	ctx, cancel := context.WithCancel(context.Background())
	defer cancel()
	opts := []bpmn.Option{bpmn.WithContext(ctx)}
	initX, initN := any(nil), any(nil)
	if d.Init {
		initX, initN = int64(100), int64(200)
		opts = append(opts, bpmn.WithVariables(map[string]any{"x": initX, "n": initN}))
	}
	set, err := bpmn.NewEngine().NewProcessSet(defs, opts...)
	if err != nil {
		return "construct", err.Error(), ""
	}
	sub := set.Tracer().SubscribeChannel(make(chan tracing.ITrace, 64))
	var mu sync.Mutex
	pend := map[string]bpmn.TaskTrace{}
	var seen []string
	go func() {
		for t := range sub {
			if tt, ok := tracing.Unwrap(t).(bpmn.TaskTrace); ok {
				id, _ := tt.GetActivity().Element().Id()
				mu.Lock()
				pend[*id] = tt
				seen = append(seen, *id)
				mu.Unlock()
			}
		}
	}()
	if err := set.StartAll(ctx); err != nil {
		return "start-error", err.Error(), ""
	}
	if _, err := tr.Wait(0); err != nil {
		return "", "", err.Error()
	}
	// per process: 0 = w pending, 1 = r pending, 2 = ok/bad pending, 3 = done
	stage := make([]int, len(d.Procs))
	n := make([]any, len(d.Procs))
	for i := range n {
		n[i] = initN
	}
	take := func(id string) bpmn.TaskTrace {
		mu.Lock()
		defer mu.Unlock()
		tt := pend[id]
		delete(pend, id)
		return tt
	}
	for step, pi := range d.Order {
		p := d.Procs[pi]
		switch stage[pi] {
		case 0:
			tt := take(ps[pi].w)
			if tt == nil {
				return "requests", fmt.Sprintf("step %d: process %d: its first task has not been requested", step, pi), ""
			}
			res := map[string]any{"x": p.X}
			if p.WriteN {
				res["n"] = p.N
				n[pi] = p.N
			}
			tt.Do(bpmn.DoWithResults(res))
		case 1:
			tt := take(ps[pi].r)
			if tt == nil {
				return "requests", fmt.Sprintf("step %d: process %d: its second task has not been requested", step, pi), ""
			}
			props := tt.GetProperties()
			gotX, gotN := "<none>", "<none>"
			if it, ok := props["x"]; ok && it != nil {
				gotX = fmt.Sprint(it.Value())
			}
			if it, ok := props["n"]; ok && it != nil {
				gotN = fmt.Sprint(it.Value())
			}
			wantN := fmt.Sprint(n[pi])
			if n[pi] == nil {
				wantN = gotN // no value of its own: whatever "no value" looks like, but see below
				if gotN != "<none>" && gotN != "" && gotN != "<nil>" && gotN != "0" {
					return "isolation", fmt.Sprintf("step %d: process %d never had a variable n, its task is handed n=%s (another instance of the set stored it; instances: %+v)", step, pi, gotN, d.Procs), ""
				}
			}
			if gotX != fmt.Sprint(p.X) || gotN != wantN {
				return "isolation", fmt.Sprintf("step %d: process %d stored x=%d (n: %v) itself, its next task is handed x=%s n=%s (instances of the set: %+v, answer order %v)", step, pi, p.X, n[pi], gotX, gotN, d.Procs, d.Order), ""
			}
			tt.Do()
		case 2:
			tt := take(ps[pi].ok)
			if tt == nil {
				if take(ps[pi].bad) != nil {
					return "isolation", fmt.Sprintf("step %d: process %d stored x=%d, its gateway (x == %d, else default) took the default flow (instances of the set: %+v, answer order %v)", step, pi, p.X, p.X, d.Procs, d.Order), ""
				}
				return "requests", fmt.Sprintf("step %d: process %d: no task requested behind its gateway", step, pi), ""
			}
			tt.Do()
		}
		stage[pi]++
		if _, err := tr.Wait(0); err != nil {
			return "", "", err.Error()
		}
	}
	mu.Lock()
	left := len(pend)
	var ids []string
	ids = append(ids, seen...)
	mu.Unlock()
	sort.Strings(ids)
	if left != 0 || len(ids) != 3*len(d.Procs) {
		return "requests", fmt.Sprintf("task requests of the whole run: %v (3 per process expected, %d unanswered)", ids, left), ""
	}
	return "", "", ""
}

func TestC16SetIsolation(t *testing.T) {
	var rd setDesc
	if ok, err := rec.ReplayInput(&rd); ok {
		if err != nil {
			t.Fatal(err)
		}
		if len(rd.Procs) == 0 {
			return
		}
		if s, dd, _ := runSetIsolation(rd); s != "" {
			fmt.Printf("REPRODUCED %s: %s\n", s, dd)
			t.Fatalf("%s", s)
		}
		return
	}
	rapid.Check(t, func(rt *rapid.T) {
		d := setDesc{Init: rapid.Bool().Draw(rt, "init")}
		np := rapid.IntRange(2, 3).Draw(rt, "procs")
		for i := 0; i < np; i++ {
			d.Procs = append(d.Procs, setProc{X: int64(10*(i+1) + rapid.IntRange(0, 3).Draw(rt, "x")), WriteN: rapid.Bool().Draw(rt, "writeN"), N: int64(1000 + i)})
		}
		var slots []int
		for i := 0; i < np; i++ {
			slots = append(slots, i, i, i)
		}
		d.Order = rapid.Permutation(slots).Draw(rt, "order")
		hash := rec.Hash(d)
		rec.Begin("TestC16SetIsolation", hash, d)
		s, dd, inc := runSetIsolation(d)
		if inc != "" {
			rec.End(hash, "inconclusive")
			rec.Inconclusive("TestC16SetIsolation", inc)
			rt.Fatalf("inconclusive: %s", inc)
		}
		rec.End(hash, s)
		// non-trivial: another process stores between a process's store and its read
		between := false
		pos := map[int][]int{}
		for k, pi := range d.Order {
			pos[pi] = append(pos[pi], k)
		}
		for pi, p := range pos {
			for pj, q := range pos {
				if pi != pj && q[0] > p[0] && q[0] < p[1] {
					between = true
				}
			}
		}
		cls := []string{fmt.Sprintf("procs=%d init=%v", np, d.Init)}
		if between {
			cls = append(cls, "foreignStoreBetweenOwnStoreAndRead")
		}
		rec.Case("TestC16SetIsolation", hash, between, cls, d)
		if s != "" {
			rt.Fatalf("%s", rec.Fail(rec.Failure{Property: prop, Test: "TestC16SetIsolation", Symptom: s, Detail: dd, Descriptor: d}))
		}
	})
}
