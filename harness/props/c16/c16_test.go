package c16

import (
	"encoding/json"
	"fmt"
	"math"
	"reflect"
	"strings"
	"testing"

	"github.com/olive-io/bpmn/schema"
	bpmn "github.com/olive-io/bpmn/v2"
	"github.com/olive-io/bpmn/v2/pkg/data"
	"pgregory.net/rapid"

	"verif/harness/drive"
	"verif/harness/gen"
	"verif/harness/rec"
)

const prop = "C16"

// spec is a serialisable description of a Go value (so that cases replay).
type spec struct {
	K    string   `json:"k"` // nil int int8 int16 int32 int64 uint uint8 uint16 uint32 uint64 float32 float64 string bool slice array map struct ptr bytes
	I    int64    `json:"i,omitempty"`
	F    float64  `json:"f,omitempty"`
	S    string   `json:"s,omitempty"`
	B    bool     `json:"b,omitempty"`
	Kids []*spec  `json:"kids,omitempty"`
	Keys []string `json:"keys,omitempty"`
	Nil  bool     `json:"nil,omitempty"` // ptr: nil pointer; slice/map: nil slice/map
}

type tagged struct {
	A int64          `json:"a"`
	B string         `json:"b,omitempty"`
	C []any          `json:"c"`
	D map[string]any `json:"d,omitempty"`
	E *int           `json:"e"`
	f int            // unexported: not part of the JSON form
}

// named and composite types beyond the plain ones: everything here has an
// unambiguous JSON form (encoding/json), which is what the canonical form is
// derived from.
type (
	myInt   int32
	myUint8 uint8
	myStr   string
	myBool  bool
	myFloat float64
	blob    []byte
	uuid4   [4]byte
	inner   struct {
		N int     `json:"n"`
		L []myStr `json:"l,omitempty"`
	}
	outer struct {
		In   inner            `json:"in"`
		P    *inner           `json:"p"`
		Arr  [2]int8          `json:"arr"`
		M    map[string]myInt `json:"m,omitempty"`
		Skip string           `json:"-"`
		Any  any              `json:"any"`
	}
)

func pad4(s string) (a [4]byte) {
	copy(a[:], s)
	return a
}

// build materialises the Go value.
func (s *spec) build() any {
	switch s.K {
	case "bytearray":
		return pad4(s.S)
	case "emptybytearray":
		return [0]byte{}
	case "namedbytearray":
		return uuid4(pad4(s.S))
	case "ptrbytearray":
		a := pad4(s.S)
		return &a
	case "namedbytes":
		return blob(s.S)
	case "strslice":
		out := []string{}
		for _, k := range s.Kids {
			out = append(out, k.S)
		}
		return out
	case "floatslice":
		out := []float64{}
		for _, k := range s.Kids {
			out = append(out, float64(k.I)/4)
		}
		return out
	case "boolarray":
		return [2]bool{s.B, !s.B}
	case "typedmap":
		out := map[string]int64{}
		for i, k := range s.Kids {
			out[s.Keys[i]] = k.I
		}
		return out
	case "myInt":
		return myInt(s.I)
	case "myUint8":
		return myUint8(s.I)
	case "myStr":
		return myStr(s.S)
	case "myBool":
		return myBool(s.B)
	case "myFloat":
		return myFloat(s.F)
	case "outer", "ptrouter":
		o := outer{In: inner{N: int(s.I)}, Arr: [2]int8{int8(s.I), -1}, Skip: "never serialised"}
		for _, k := range s.Kids {
			o.In.L = append(o.In.L, myStr(k.S))
		}
		if !s.Nil {
			o.P = &inner{N: 7, L: []myStr{"p"}}
		}
		if s.B {
			o.M = map[string]myInt{"k": myInt(s.I)}
			o.Any = []any{s.S, s.F}
		}
		if s.K == "ptrouter" {
			return &o
		}
		return o
	case "nil":
		return nil
	case "int":
		return int(s.I)
	case "int8":
		return int8(s.I)
	case "int16":
		return int16(s.I)
	case "int32":
		return int32(s.I)
	case "int64":
		return s.I
	case "uint":
		return uint(s.I)
	case "uint8":
		return uint8(s.I)
	case "uint16":
		return uint16(s.I)
	case "uint32":
		return uint32(s.I)
	case "uint64":
		return uint64(s.I)
	case "float32":
		return float32(s.F)
	case "float64":
		return s.F
	case "string":
		return s.S
	case "bool":
		return s.B
	case "bytes":
		return []byte(s.S)
	case "slice":
		if s.Nil {
			return []any(nil)
		}
		out := make([]any, len(s.Kids))
		for i, k := range s.Kids {
			out[i] = k.build()
		}
		return out
	case "intslice":
		out := make([]int, len(s.Kids))
		for i, k := range s.Kids {
			out[i] = int(k.I)
		}
		return out
	case "array":
		var out [3]int16
		for i := range out {
			if i < len(s.Kids) {
				out[i] = int16(s.Kids[i].I)
			}
		}
		return out
	case "map":
		if s.Nil {
			return map[string]any(nil)
		}
		out := map[string]any{}
		for i, k := range s.Kids {
			out[s.Keys[i]] = k.build()
		}
		return out
	case "struct":
		t := tagged{A: s.I, B: s.S, f: 7}
		for _, k := range s.Kids {
			t.C = append(t.C, k.build())
		}
		if s.B {
			t.D = map[string]any{"x": s.F}
		}
		if !s.Nil {
			e := int(s.I)
			t.E = &e
		}
		return t
	case "ptr":
		if s.Nil {
			return (*int64)(nil)
		}
		inner := s.Kids[0].build()
		if inner == nil {
			return (*int64)(nil)
		}
		rv := reflect.New(reflect.TypeOf(inner))
		rv.Elem().Set(reflect.ValueOf(inner))
		return rv.Interface()
	}
	return nil
}

// canon is the independent reference canonicaliser: what reading the value
// back must yield, and the item type it must carry.
func canon(v any) (any, schema.ItemType) {
	if v == nil {
		return nil, ""
	}
	rv := reflect.ValueOf(v)
	for rv.Kind() == reflect.Pointer {
		if rv.IsNil() {
			return nil, ""
		}
		rv = rv.Elem()
	}
	switch rv.Kind() {
	case reflect.Int, reflect.Int8, reflect.Int16, reflect.Int32, reflect.Int64:
		return rv.Int(), schema.ItemTypeInteger
	case reflect.Uint, reflect.Uint8, reflect.Uint16, reflect.Uint32, reflect.Uint64:
		return int64(rv.Uint()), schema.ItemTypeInteger
	case reflect.Float32, reflect.Float64:
		return rv.Float(), schema.ItemTypeFloat
	case reflect.String:
		return rv.String(), schema.ItemTypeString
	case reflect.Bool:
		return rv.Bool(), schema.ItemTypeBoolean
	case reflect.Slice, reflect.Array:
		if rv.Type().Elem().Kind() == reflect.Uint8 {
			// a top-level byte slice is a slice of small integers (encoding/json
			// would turn it into a base64 string, which is not an array)
			arr := make([]any, rv.Len())
			for i := range arr {
				arr[i] = float64(rv.Index(i).Uint())
			}
			return arr, schema.ItemTypeArray
		}
		b, _ := json.Marshal(rv.Interface())
		var arr []any
		_ = json.Unmarshal(b, &arr)
		return arr, schema.ItemTypeArray
	case reflect.Map, reflect.Struct:
		b, _ := json.Marshal(rv.Interface())
		obj := map[string]any{}
		_ = json.Unmarshal(b, &obj)
		return obj, schema.ItemTypeObject
	}
	return nil, ""
}

func same(a, b any) bool {
	// nil slice vs empty slice, nil map vs empty map are the same canonical value
	if ra, ok := a.([]any); ok {
		rb, ok2 := b.([]any)
		if !ok2 {
			return false
		}
		if len(ra) != len(rb) {
			return false
		}
		for i := range ra {
			if !same(ra[i], rb[i]) {
				return false
			}
		}
		return true
	}
	if ma, ok := a.(map[string]any); ok {
		mb, ok2 := b.(map[string]any)
		if !ok2 || len(ma) != len(mb) {
			return false
		}
		for k, va := range ma {
			vb, present := mb[k]
			if !present || !same(va, vb) {
				return false
			}
		}
		return true
	}
	return reflect.DeepEqual(a, b)
}

// scramble edits a value that was READ from the engine in place (what a task
// handler does to its input): maps get a key more and lose their others'
// contents, slices have their elements replaced - recursively. A later read
// of the same stored value must not show any of it.
func scramble(v any) {
	switch x := v.(type) {
	case map[string]any:
		if x == nil {
			return
		}
		for k, e := range x {
			scramble(e)
			x[k] = "scrambled"
		}
		x["zz_scrambled"] = true
	case []any:
		for i, e := range x {
			scramble(e)
			x[i] = "scrambled"
		}
	}
}

func describe(v any) string {
	return fmt.Sprintf("%T(%#v)", v, v)
}

// guard runs f and converts a panic into a message.
func guard(f func()) (panicked string) {
	defer func() {
		if r := recover(); r != nil {
			panicked = fmt.Sprint(r)
		}
	}()
	f()
	return ""
}

// ---- generators -------------------------------------------------------------

var boundaryInts = []int64{0, 1, -1, 127, -128, 255, 32767, -32768, 65535, math.MaxInt32, math.MinInt32, math.MaxUint32, 1 << 53, math.MaxInt64, math.MinInt64}
var boundaryFloats = []float64{0, math.Copysign(0, -1), 1, -1, 0.1, 1e-9, 1e-300, 1e300, 5e-324, math.MaxFloat64, math.SmallestNonzeroFloat32, 123456789.123456789, 1e21, 1e-7}

func clampFor(kind string, v int64) int64 {
	switch kind {
	case "int8":
		return int64(int8(v))
	case "int16":
		return int64(int16(v))
	case "int32":
		return int64(int32(v))
	case "uint8":
		return int64(uint8(v))
	case "uint16":
		return int64(uint16(v))
	case "uint32":
		return int64(uint32(v))
	case "uint", "uint64":
		if v < 0 {
			if v == math.MinInt64 {
				return math.MaxInt64
			}
			return -v
		}
	}
	return v
}

func genScalar(rt *rapid.T, nested bool) *spec {
	kinds := []string{"int", "int8", "int16", "int32", "int64", "uint", "uint8", "uint16", "uint32", "uint64", "float32", "float64", "string", "bool", "nil"}
	k := rapid.SampledFrom(kinds).Draw(rt, "scalarKind")
	s := &spec{K: k}
	switch {
	case strings.HasPrefix(k, "int") || strings.HasPrefix(k, "uint"):
		v := rapid.OneOf(rapid.SampledFrom(boundaryInts), rapid.Int64()).Draw(rt, "i")
		if nested && (v > 1<<53 || v < -(1<<53)) {
			v = v >> 12 // inside containers numbers are JSON numbers (float64)
		}
		s.I = clampFor(k, v)
	case k == "float32":
		f := rapid.OneOf(rapid.SampledFrom(boundaryFloats), rapid.Float64()).Draw(rt, "f")
		f32 := float32(f)
		if math.IsInf(float64(f32), 0) || math.IsNaN(float64(f32)) {
			f32 = 1.5
		}
		s.F = float64(f32)
	case k == "float64":
		f := rapid.OneOf(rapid.SampledFrom(boundaryFloats), rapid.Float64()).Draw(rt, "f")
		if math.IsInf(f, 0) || math.IsNaN(f) {
			f = 2.5
		}
		s.F = f
	case k == "string":
		s.S = rapid.OneOf(rapid.SampledFrom([]string{"", " ", "true", "12", "1.5", "[1]", "{}", "null", "\u0000", "a\nb\t\"q\"", "<&>", "héllo wörld", "日本語", "😀"}), rapid.String()).Draw(rt, "s")
	case k == "bool":
		s.B = rapid.Bool().Draw(rt, "b")
	}
	return s
}

func genValue(rt *rapid.T, depth int, nested bool) *spec {
	if depth <= 0 {
		return genScalar(rt, nested)
	}
	switch rapid.IntRange(0, 12).Draw(rt, "shape") {
	case 10:
		// byte arrays and named byte types (by value and behind a pointer)
		k := rapid.SampledFrom([]string{"bytearray", "emptybytearray", "namedbytearray", "ptrbytearray", "namedbytes"}).Draw(rt, "byteKind")
		if k == "namedbytes" && rec.Exclude("C16-F4") {
			k = "bytearray"
		}
		return &spec{K: k, S: rapid.SampledFrom([]string{"", "ab", "\x00\x01\xff\x7f", "wxyz"}).Draw(rt, "bytes")}
	case 11:
		// typed containers and named scalars
		k := rapid.SampledFrom([]string{"strslice", "floatslice", "boolarray", "typedmap", "myInt", "myUint8", "myStr", "myBool", "myFloat"}).Draw(rt, "typedKind")
		s := &spec{K: k, B: rapid.Bool().Draw(rt, "b"), S: rapid.SampledFrom([]string{"", "x", "ü", "12"}).Draw(rt, "s"), F: float64(rapid.IntRange(-8, 8).Draw(rt, "f")) / 4}
		s.I = clampFor(map[string]string{"myInt": "int32", "myUint8": "uint8"}[k], int64(rapid.IntRange(-70000, 70000).Draw(rt, "i")))
		for i := rapid.IntRange(0, 3).Draw(rt, "len"); i > 0; i-- {
			s.Keys = append(s.Keys, fmt.Sprintf("k%d", i))
			s.Kids = append(s.Kids, &spec{K: "int", I: int64(rapid.IntRange(-9, 9).Draw(rt, "e")), S: rapid.SampledFrom([]string{"", "a", "ä b"}).Draw(rt, "es")})
		}
		return s
	case 12:
		s := &spec{K: rapid.SampledFrom([]string{"outer", "ptrouter"}).Draw(rt, "outerKind"), I: int64(rapid.IntRange(-100, 100).Draw(rt, "n")), B: rapid.Bool().Draw(rt, "hasM"),
			Nil: rapid.Bool().Draw(rt, "nilP"), S: rapid.SampledFrom([]string{"", "q"}).Draw(rt, "s"), F: 0.5}
		for i := rapid.IntRange(0, 2).Draw(rt, "len"); i > 0; i-- {
			s.Kids = append(s.Kids, &spec{K: "string", S: rapid.SampledFrom([]string{"", "l", "ö"}).Draw(rt, "ls")})
		}
		return s
	case 0, 1, 2, 3:
		return genScalar(rt, nested)
	case 4:
		s := &spec{K: "slice", Nil: rapid.IntRange(0, 5).Draw(rt, "nilSlice") == 0}
		n := rapid.IntRange(0, 3).Draw(rt, "len")
		for i := 0; i < n && !s.Nil; i++ {
			s.Kids = append(s.Kids, genValue(rt, depth-1, true))
		}
		return s
	case 5:
		s := &spec{K: "map", Nil: rapid.IntRange(0, 5).Draw(rt, "nilMap") == 0}
		n := rapid.IntRange(0, 3).Draw(rt, "len")
		for i := 0; i < n && !s.Nil; i++ {
			s.Keys = append(s.Keys, rapid.SampledFrom([]string{"a", "b", "k 1", "ü", ""}).Draw(rt, "key")+fmt.Sprint(i))
			s.Kids = append(s.Kids, genValue(rt, depth-1, true))
		}
		return s
	case 6:
		s := &spec{K: "struct", I: int64(rapid.IntRange(-1000, 1000).Draw(rt, "a")), S: rapid.SampledFrom([]string{"", "x", "ü"}).Draw(rt, "b"),
			B: rapid.Bool().Draw(rt, "hasD"), F: 1.25, Nil: rapid.Bool().Draw(rt, "nilE")}
		n := rapid.IntRange(0, 2).Draw(rt, "len")
		for i := 0; i < n; i++ {
			s.Kids = append(s.Kids, genValue(rt, depth-1, true))
		}
		return s
	case 7:
		s := &spec{K: "ptr", Nil: rapid.IntRange(0, 3).Draw(rt, "nilPtr") == 0}
		if !s.Nil {
			k := genValue(rt, depth-1, nested)
			for k.K == "ptr" {
				// pointers to pointers are not in the statement's domain (single level)
				if k.Nil || len(k.Kids) == 0 {
					k = &spec{K: "int", I: 1}
					break
				}
				k = k.Kids[0]
			}
			switch k.K {
			case "ptrouter":
				k.K = "outer"
			case "ptrbytearray":
				k.K = "bytearray"
			}
			s.Kids = []*spec{k}
		}
		return s
	case 8:
		s := &spec{K: rapid.SampledFrom([]string{"array", "intslice"}).Draw(rt, "arr")}
		for i := 0; i < 3; i++ {
			s.Kids = append(s.Kids, &spec{K: "int", I: int64(rapid.IntRange(-300, 300).Draw(rt, "e"))})
		}
		return s
	default:
		if rec.Exclude("C16-F4") {
			return genScalar(rt, nested)
		}
		return &spec{K: "bytes", S: rapid.SampledFrom([]string{"", "ab", "\x00\x01\xff"}).Draw(rt, "bytes")}
	}
}

// ---- value layer ----------------------------------------------------------------

type vcase struct {
	V        *spec  `json:"v"`
	Declared string `json:"declared"` // "" = inferred (NewValue); else a declared item type incl. unknown ones
}

func nontrivialV(c vcase, v any) bool {
	_, ct := canon(v)
	plain := c.V.K == "string" || c.V.K == "int"
	return !plain || (c.Declared != "" && schema.ItemType(c.Declared) != ct)
}

func runValue(c vcase) (sym, det string) {
	v := c.V.build()
	want, wantType := canon(v)
	if c.Declared == "" {
		var got any
		var gotType schema.ItemType
		if p := guard(func() {
			val := schema.NewValue(v)
			got, gotType = val.Value(), val.Type()
		}); p != "" {
			return "panic", fmt.Sprintf("schema.NewValue(%s) panicked: %s", describe(v), p)
		}
		if want == nil {
			// nil (or nil pointer): a zero item
			if gotType != "" || (got != nil && got != "") {
				return "nil", fmt.Sprintf("NewValue(%s) = type %q value %s, want the zero item", describe(v), gotType, describe(got))
			}
			return "", ""
		}
		if gotType != wantType {
			return "type", fmt.Sprintf("NewValue(%s).Type() = %q, want %q", describe(v), gotType, wantType)
		}
		if !same(got, want) {
			return "value", fmt.Sprintf("NewValue(%s).Value() = %s, want %s", describe(v), describe(got), describe(want))
		}
		// the reader edits what it was given; the item still reads as stored
		val := schema.NewValue(v)
		scramble(val.Value())
		if again := val.Value(); !same(again, want) {
			return "aliased", fmt.Sprintf("NewValue(%s): after the first reader edited the value it had read, the item reads %s, want %s", describe(v), describe(again), describe(want))
		}
		return "", ""
	}
	// typed declaration: never panics; when the dynamic type fits the declared
	// type the value must survive, otherwise the item keeps its (empty) value
	decl := schema.ItemType(c.Declared)
	var got any
	if p := guard(func() {
		val := &schema.Value{ItemType: decl}
		val.ValueFrom(v)
		got = val.Value()
	}); p != "" {
		return "panic", fmt.Sprintf("Value{ItemType:%q}.ValueFrom(%s) panicked: %s", decl, describe(v), p)
	}
	// (the statement only demands that typed declarations never panic; value
	// survival is claimed for the inferred path used by variables, results and
	// data objects)
	_, _ = got, want
	return "", ""
}

var declaredTypes = []string{"", "", "", "string", "integer", "boolean", "float", "array", "object", "unknown"}

func TestC16Value(t *testing.T) {
	var rd vcase
	if ok, err := rec.ReplayInput(&rd); ok {
		if err != nil {
			t.Fatal(err)
		}
		if sym, det := runValue(rd); sym != "" {
			fmt.Printf("REPRODUCED %s: %s\n", sym, det)
			t.Fatalf("%s", sym)
		}
		return
	}
	rapid.Check(t, func(rt *rapid.T) {
		c := vcase{V: genValue(rt, 4, false), Declared: rapid.SampledFrom(declaredTypes).Draw(rt, "declared")}
		hash := rec.Hash(c)
		sym, det := runValue(c)
		cls := []string{"kind=" + c.V.K}
		if c.Declared != "" {
			cls = append(cls, "declared="+c.Declared)
		}
		rec.Case("TestC16Value", hash, nontrivialV(c, c.V.build()), cls, c)
		if sym == "" {
			return
		}
		if k := knownValue(c, sym); k != "" && rec.Unrestricted() {
			rec.KnownHit("TestC16Value", k, hash)
			return
		}
		rt.Fatalf("%s", rec.Fail(rec.Failure{Property: prop, Test: "TestC16Value", Symptom: sym, Detail: det, Descriptor: c}))
	})
}

func knownValue(c vcase, sym string) string { return "" }

// ---- engine doors -----------------------------------------------------------------

type ecase struct {
	V        *spec  `json:"v"`
	Door     string `json:"door"`     // variables | results | objects | property
	Declared string `json:"declared"` // results/property: declared type of the field ("" = none)
	Ref      string `json:"ref"`      // property: reference string
	Other    *spec  `json:"other"`    // value stored in a second, concurrently alive instance
	// door "declared": data objects declared in the model with an
	// olive:dataObjectBody (JSON object text; "" = declared without a body)
	Bodies []string `json:"bodies,omitempty"`
	// SharedOpts: both instances are created from ONE []bpmn.Option value
	// (the way a process set creates its processes, or a caller that keeps its
	// options around): they start with equal variables but must not share them
	SharedOpts bool `json:"sharedOpts,omitempty"`
}

func procXML(c ecase) (string, string) {
	b := gen.NewB()
	st := b.Add(gen.KStart)
	tk := b.Add(gen.KTask)
	tk.TaskKind = "serviceTask"
	tk.Results = []string{"r"}
	if c.Declared != "" && c.Door == "results" {
		tk.ResultTypes = []string{c.Declared}
	}
	tk.DataOutputs = []string{"out"}
	t2 := b.Add(gen.KTask)
	en := b.Add(gen.KEnd)
	b.Connect(st, tk)
	b.Connect(tk, t2)
	b.Connect(t2, en)
	p := &gen.Program{G: b.G, DefaultLang: "expr"}
	x := p.XML()
	if c.Door == "property" {
		// second task reads a property / header through a reference
		ty := ""
		if c.Declared != "" {
			ty = fmt.Sprintf(` type="%s"`, c.Declared)
		}
		ext := fmt.Sprintf(`<bpmn:extensionElements><olive:properties><olive:property name="p" ref="%s"%s/><olive:property name="q"%s/></olive:properties><olive:taskHeaders><olive:header name="h" ref="%s"/></olive:taskHeaders></bpmn:extensionElements>`, xmlEsc(c.Ref), ty, ty, xmlEsc(c.Ref))
		x = strings.Replace(x, fmt.Sprintf(`<bpmn:task id="%s">`, t2.ID), fmt.Sprintf(`<bpmn:task id="%s">`, t2.ID)+ext, 1)
	}
	if c.Door == "declared" {
		var sb strings.Builder
		for i, body := range c.Bodies {
			if body == "" {
				fmt.Fprintf(&sb, `<bpmn:dataObject id="decl_%d" name="do%d"/>`, i, i)
				continue
			}
			fmt.Fprintf(&sb, `<bpmn:dataObject id="decl_%d" name="do%d"><bpmn:extensionElements><olive:dataObjectBody><![CDATA[%s]]></olive:dataObjectBody></bpmn:extensionElements></bpmn:dataObject>`, i, i, body)
		}
		at := strings.Index(x, "<bpmn:startEvent")
		x = x[:at] + sb.String() + "\n" + x[at:]
	}
	return x, tk.ID
}

func xmlEsc(s string) string {
	return strings.NewReplacer("&", "&amp;", "<", "&lt;", ">", "&gt;", `"`, "&quot;").Replace(s)
}

func runEngine(c ecase) (sym, det, inconcl string) {
	v := c.V.build()
	want, wantType := canon(v)
	x, _ := procXML(c)
	var in, in2 *drive.Inst
	var err error
	vars := map[string]any{"base": map[string]any{"present": map[string]any{"leaf": "L"}, "n": 3},
		"arr": []any{"a0", "a1", "a2"}, "empty": []any{}, "nest": map[string]any{"l": []any{[]any{"x", "y"}, []any{"z"}}}}
	if c.Door == "variables" {
		vars["v"] = v
	}
	shared := []bpmn.Option{bpmn.WithVariables(vars)}
	o1 := drive.Options{Vars: vars}
	if c.SharedOpts {
		o1 = drive.Options{Extra: shared}
	}
	if c.Door == "withobjects" {
		// the data object is supplied through the option twice: defaults first,
		// the value that counts after them - the later option replaces the earlier
		o1.Extra = append(append([]bpmn.Option(nil), o1.Extra...), bpmn.WithDataObjects(map[string]any{"wo": "an earlier default", "wo2": int64(1)}), bpmn.WithDataObjects(map[string]any{"wo": v}))
	}
	if p := guard(func() { in, err = drive.New(x, o1) }); p != "" {
		return "panic", fmt.Sprintf("creating the instance with variable %s panicked: %s", describe(v), p), ""
	}
	if err != nil {
		return "construct", err.Error(), ""
	}
	defer in.Close()
	// a second instance, alive at the same time, with its own variables
	ov := c.Other.build()
	o2 := drive.Options{Vars: map[string]any{"other": ov, "v": "instance-2"}, Tracker: in.Tr}
	if c.SharedOpts {
		o2 = drive.Options{Extra: shared, Tracker: in.Tr}
	}
	if p := guard(func() {
		in2, err = drive.New(x, o2)
	}); p != "" {
		return "panic", fmt.Sprintf("creating the second instance panicked: %s", p), ""
	}
	if err != nil {
		return "construct", err.Error(), ""
	}
	defer in2.Close()
	if err := in.StartAll(); err != nil {
		return "start", err.Error(), ""
	}
	if err := in2.StartAll(); err != nil {
		return "start", err.Error(), ""
	}
	if _, err := in.Quiesce(); err != nil {
		return "", "", err.Error()
	}
	tts := in.NewTasks()
	if len(tts) != 1 {
		return "requests", fmt.Sprintf("%d requests after start", len(tts)), ""
	}
	switch c.Door {
	case "results":
		tts[0].Do(bpmn.DoWithResults(map[string]any{"r": v}))
	case "objects":
		tts[0].Do(bpmn.DoWithObjects(map[string]any{"out": v}))
	default:
		tts[0].Do()
	}
	if _, err := in.Quiesce(); err != nil {
		return "", "", err.Error()
	}
	// a panic in an engine goroutine kills the worker; reaching this point means none happened
	readVar := func(name string) (any, schema.ItemType, bool) {
		it, ok := in.P.Locator().CloneVariables()[name]
		if !ok {
			return nil, "", false
		}
		return it.Value(), it.Type(), true
	}
	checkStored := func(what string, got any, gotType schema.ItemType, present bool) (string, string) {
		if want == nil {
			if present && gotType != "" && got != nil && got != "" {
				return "nil", fmt.Sprintf("%s: nil stored as type %q value %s", what, gotType, describe(got))
			}
			return "", ""
		}
		if !present {
			return "lost", fmt.Sprintf("%s: %s was not stored", what, describe(v))
		}
		if gotType != wantType && !(c.Declared != "" && c.Door == "results") {
			return "type", fmt.Sprintf("%s: %s read back with item type %q, want %q", what, describe(v), gotType, wantType)
		}
		if !same(got, want) {
			return "value", fmt.Sprintf("%s: %s read back as %s, want %s", what, describe(v), describe(got), describe(want))
		}
		return "", ""
	}
	switch c.Door {
	case "declared":
		// every declared data object holds exactly its own body
		items := in.P.Locator().CloneItems(data.LocatorObject)
		for i, body := range c.Bodies {
			name := fmt.Sprintf("decl_%d", i) // CloneItems is keyed by the data object's id
			wantBody := map[string]any{}
			if body != "" {
				if err := json.Unmarshal([]byte(body), &wantBody); err != nil {
					return "descriptor", err.Error(), ""
				}
			}
			wb, _ := canon(wantBody)
			it, ok := items[name]
			if !ok || it == nil {
				return "lost", fmt.Sprintf("declared data object %s is not in the locator", name), ""
			}
			gb, _ := canon(it.Value())
			if !same(gb, wb) {
				return "value", fmt.Sprintf("declared data object %s (body %q) reads %s, want %s (all bodies: %q)", name, body, describe(it.Value()), describe(wantBody), c.Bodies), ""
			}
		}
	case "variables":
		g, ty, ok := readVar("v")
		if s, d := checkStored("WithVariables -> CloneVariables", g, ty, ok); s != "" {
			return s, d, ""
		}
		scramble(g)
		if gv, found := in.P.Locator().GetVariable("v"); found {
			scramble(gv)
		}
		g, ty, ok = readVar("v")
		if s, d := checkStored("WithVariables -> CloneVariables, after two readers edited the values they had read", g, ty, ok); s != "" {
			return "aliased:" + s, d, ""
		}
	case "results":
		g, ty, ok := readVar("r")
		if s, d := checkStored("DoWithResults -> CloneVariables", g, ty, ok); s != "" {
			return s, d, ""
		}
		scramble(g)
		if gv, found := in.P.Locator().GetVariable("r"); found {
			scramble(gv)
		}
		g, ty, ok = readVar("r")
		if s, d := checkStored("DoWithResults -> CloneVariables, after two readers edited the values they had read", g, ty, ok); s != "" {
			return "aliased:" + s, d, ""
		}
	case "withobjects":
		items := in.P.Locator().CloneItems(data.LocatorObject)
		it, ok := items["wo"]
		var g any
		var ty schema.ItemType
		if ok && it != nil {
			g, ty = it.Value(), it.Type()
		}
		if s, d := checkStored("WithDataObjects (after an earlier WithDataObjects option for the same id) -> CloneItems", g, ty, ok && it != nil); s != "" {
			return s, d, ""
		}
	case "objects":
		items := in.P.Locator().CloneItems(data.LocatorObject)
		it, ok := items["out"]
		var g any
		var ty schema.ItemType
		if ok && it != nil {
			g, ty = it.Value(), it.Type()
		}
		if s, d := checkStored("DoWithObjects -> CloneItems", g, ty, ok && it != nil); s != "" {
			return s, d, ""
		}
		scramble(g)
		if it2, ok2 := in.P.Locator().CloneItems(data.LocatorObject)["out"]; ok2 && it2 != nil {
			if s, d := checkStored("DoWithObjects -> CloneItems, after the first reader edited the value it had read", it2.Value(), it2.Type(), true); s != "" {
				return "aliased:" + s, d, ""
			}
		}
	case "property":
		// the second task has been requested with properties/headers resolved through the reference
		t2 := in.NewTasks()
		if len(t2) != 1 {
			return "requests", fmt.Sprintf("%d requests for the second task", len(t2)), ""
		}
		props := t2[0].GetProperties()
		if p := guard(func() {
			for _, it := range props {
				if it != nil {
					_ = it.Value()
				}
			}
			_ = t2[0].GetHeaders()
		}); p != "" {
			return "panic", "reading properties panicked: " + p, ""
		}
		if want, ok := map[string]string{"$base.present.leaf": "L", "$arr.0": "a0", "$arr.2": "a2", "$nest.l.0.1": "y"}[c.Ref]; ok && c.Declared == "" {
			if it := props["p"]; it == nil || it.Value() != want {
				return "ref", fmt.Sprintf("property with ref %q resolved to %v, want %q", c.Ref, props["p"], want), ""
			}
		}
		if absent := map[string]bool{"$arr.3": true, "$arr.4": true, "$empty.0": true, "$nest.l.2": true, "$nest.l.1.1": true, "$base.absent": true}[c.Ref]; absent && c.Declared == "" {
			if it := props["p"]; it != nil && it.Value() != nil && it.Value() != "" {
				return "ref", fmt.Sprintf("property with ref %q (nothing there) resolved to %#v", c.Ref, it.Value()), ""
			}
		}
	}
	// isolation: nothing of instance 1 is visible in instance 2 and vice versa
	v2 := in2.P.Locator().CloneVariables()
	if _, leak := v2["r"]; leak {
		return "isolation", "result variable of instance 1 is visible in instance 2", ""
	}
	if c.SharedOpts {
		// a write in instance 2 stays in instance 2
		in2.P.Locator().SetVariable("only2", int64(2))
		if _, leak := in.P.Locator().CloneVariables()["only2"]; leak {
			return "isolation", "a variable set in instance 2 is visible in instance 1 (both were created from the same option values)", ""
		}
		if items := in2.P.Locator().CloneItems(data.LocatorObject); c.Door == "objects" {
			if it, ok := items["out"]; ok && it != nil && it.Value() != nil {
				if m, isMap := it.Value().(map[string]any); !isMap || len(m) > 0 {
					return "isolation", fmt.Sprintf("data object written in instance 1 is visible in instance 2: %v", it.Value()), ""
				}
			}
		}
		return "", "", ""
	}
	if it, ok := v2["v"]; !ok || it.Value() != "instance-2" {
		return "isolation", fmt.Sprintf("instance 2's own variable v reads %v", it), ""
	}
	if _, leak := in.P.Locator().CloneVariables()["other"]; leak {
		return "isolation", "variable of instance 2 is visible in instance 1", ""
	}
	return "", "", ""
}

func TestC16Engine(t *testing.T) {
	var rd ecase
	if ok, err := rec.ReplayInput(&rd); ok {
		if err != nil {
			t.Fatal(err)
		}
		if sym, det, _ := runEngine(rd); sym != "" {
			fmt.Printf("REPRODUCED %s: %s\n", sym, det)
			t.Fatalf("%s", sym)
		}
		return
	}
	refs := []string{"$base.present.leaf", "$base.absent", "$base.present.absent.deep", "$missing.x", "$base", "base.present", "$", "", "$.x", "$base.n", "$base..", "$v.a",
		// array positions: first, last, one past the end, far out, negative, not a number, on an empty array, nested
		"$arr.0", "$arr.2", "$arr.3", "$arr.4", "$arr.99999999999999999999", "$arr.-1", "$arr.x", "$arr.#", "$empty.0", "$empty.1", "$nest.l.0.1", "$nest.l.1.1", "$nest.l.2", "$nest.l.2.0", "$arr", "$arr.0.0"}
	rapid.Check(t, func(rt *rapid.T) {
		c := ecase{V: genValue(rt, 3, false), Door: rapid.SampledFrom([]string{"variables", "results", "objects", "property", "declared", "withobjects"}).Draw(rt, "door"),
			Other: genValue(rt, 2, false), SharedOpts: rapid.IntRange(0, 3).Draw(rt, "sharedOpts") == 0}
		if c.Door == "declared" {
			n := rapid.IntRange(1, 3).Draw(rt, "nDeclared")
			for i := 0; i < n; i++ {
				body := map[string]any{}
				for _, k := range []string{"a", "b", "c"} {
					switch rapid.IntRange(0, 4).Draw(rt, "field") {
					case 1:
						body[k] = rapid.IntRange(-1000, 1000).Draw(rt, "n")
					case 2:
						body[k] = rapid.StringMatching(`[a-zé]{0,4}`).Draw(rt, "s")
					case 3:
						body[k] = map[string]any{"in": rapid.Bool().Draw(rt, "b"), "l": []any{1, "x"}}
					}
				}
				if len(body) == 0 && rapid.Bool().Draw(rt, "noBody") {
					c.Bodies = append(c.Bodies, "")
					continue
				}
				js, _ := json.Marshal(body)
				c.Bodies = append(c.Bodies, string(js))
			}
		}
		if c.Door == "results" || c.Door == "property" {
			c.Declared = rapid.SampledFrom(declaredTypes).Draw(rt, "declared")
		}
		if c.Door == "property" {
			c.Ref = rapid.SampledFrom(refs).Draw(rt, "ref")
		}
		hash := rec.Hash(c)
		rec.Begin("TestC16Engine", hash, c)
		sym, det, inc := runEngine(c)
		if inc != "" {
			rec.End(hash, "inconclusive")
			rec.Inconclusive("TestC16Engine", inc)
			rt.Fatalf("inconclusive: %s", inc)
		}
		rec.End(hash, sym)
		nt := !(c.V.K == "string" || c.V.K == "int") || c.Declared != "" || (c.Door == "property" && c.Ref != "$base.present.leaf")
		rec.Case("TestC16Engine", hash, nt, []string{"door=" + c.Door, "kind=" + c.V.K}, c)
		if sym != "" {
			rt.Fatalf("%s", rec.Fail(rec.Failure{Property: prop, Test: "TestC16Engine", Symptom: sym, Detail: det, Descriptor: c}))
		}
	})
}
