package c14

// TestC14Loop: a parallel-multiple catch event in a loop
// (merge -> catch -> task -> exclusive split -> back to the merge | end).
// The node listens again and again; in between (token at the task) it does not
// listen. The property pins the number of firings only partially - never more
// than the least-matched definition, exactly k when every definition has been
// matched exactly k times - so this test does not run in lock-step with a
// model: it delivers one event at a time, observes at the fixpoint whether
// the node fired (its task is requested), and checks the invariants over the
// history of events delivered WHILE THE NODE WAS LISTENING (events delivered
// while it did not listen must have no effect at all, C11 / C14 last clause).

import (
	"fmt"
	"testing"

	bpmn "github.com/olive-io/bpmn/v2"
	"pgregory.net/rapid"

	"verif/harness/drive"
	"verif/harness/gen"
	"verif/harness/rec"
)

type lstep struct {
	Sym   int  `json:"sym"`   // 0..n-1 matching definition i; n: non-matching; -1: answer the task
	Again bool `json:"again"` // for an answer: send the token back to the catch event
}

type ldesc struct {
	Defs  []def   `json:"defs"`
	Steps []lstep `json:"steps"`
	// InSub: the whole loop sits inside 1..2 nested embedded sub-processes (an
	// event must reach the node there exactly once)
	InSub int `json:"inSub,omitempty"`
	// DeclSeed permutes the order in which the document declares its elements
	// (the catch event may be declared - and wired - first or last)
	DeclSeed int `json:"declSeed,omitempty"`
}

func buildLoop(d ldesc) *gen.Graph {
	return buildProc(pdesc{Defs: d.Defs, Parallel: true, Loop: true, InSub: d.InSub})
}

type lres struct {
	Symptom, Detail string
	Inconcl         string
	History         []string
	Traces          []string
	XML             string
	Fires           int
	Periods         int
	Carry           bool // a firing happened in a period that started with surplus matches from an earlier period
}

func runLoop(d ldesc) *lres {
	r := &lres{}
	prog := &gen.Program{G: buildLoop(d), DefaultLang: "expr", DeclSeed: d.DeclSeed}
	r.XML = prog.XML()
	in, err := drive.New(r.XML, drive.Options{Vars: map[string]any{"again": false}})
	if err != nil {
		r.Symptom, r.Detail = "construct", err.Error()
		return r
	}
	defer in.Close()
	fail := func(sym, det string) *lres {
		r.Symptom, r.Detail = sym, det
		r.Traces = drive.DescribeAll(in.Traces())
		return r
	}
	if err := in.StartAll(); err != nil {
		return fail("start-error", err.Error())
	}
	if _, err := in.Quiesce(); err != nil {
		r.Inconcl = err.Error()
		return r
	}
	if ts := in.NewTasks(); len(ts) != 0 {
		return fail("requests", "a task was requested before any event was delivered")
	}
	n := len(d.Defs)
	c := make([]int, n)
	listening, ended := true, false
	r.Periods = 1
	var pending bpmn.TaskTrace
	surplusAtPeriodStart := false
	minmax := func() (int, int) {
		mn, mx := c[0], c[0]
		for _, v := range c {
			if v < mn {
				mn = v
			}
			if v > mx {
				mx = v
			}
		}
		return mn, mx
	}
	for i, st := range d.Steps {
		if st.Sym < 0 {
			if pending == nil {
				continue
			}
			pending.Do(bpmn.DoWithResults(map[string]any{"again": st.Again}))
			pending = nil
			if _, err := in.Quiesce(); err != nil {
				r.Inconcl = err.Error()
				return r
			}
			if ts := in.NewTasks(); len(ts) != 0 {
				return fail("requests", fmt.Sprintf("step %d: the task was requested again without any event (counts %v, fired %d)", i, c, r.Fires))
			}
			if st.Again {
				listening = true
				r.Periods++
				mn, mx := minmax()
				surplusAtPeriodStart = mx > mn || mn > r.Fires
				r.History = append(r.History, "answer: again -> the node listens")
			} else {
				ended = true
				r.History = append(r.History, "answer: leave the loop")
			}
			continue
		}
		var desc string
		if st.Sym >= n {
			in.P.ConsumeEvent(nonMatching(d.Defs, st.Sym-n))
			desc = "non-matching event"
		} else {
			in.P.ConsumeEvent(d.Defs[st.Sym].event())
			desc = fmt.Sprintf("event %d", st.Sym)
		}
		if _, err := in.Quiesce(); err != nil {
			r.Inconcl = err.Error()
			return r
		}
		ts := in.NewTasks()
		fired := len(ts)
		r.History = append(r.History, fmt.Sprintf("%s (listening=%v) -> fired %d", desc, listening && !ended, fired))
		if fired > 1 {
			return fail("fired-twice", fmt.Sprintf("step %d: one event made the node continue %d times", i, fired))
		}
		if st.Sym >= n || !listening || ended {
			if fired != 0 {
				return fail("fired-without-cause", fmt.Sprintf("step %d: %s delivered while listening=%v made the node fire (counts %v fired %d)", i, desc, listening && !ended, c, r.Fires))
			}
			continue
		}
		c[st.Sym]++
		if fired == 1 {
			r.Fires++
			pending = ts[0]
			listening = false
			if surplusAtPeriodStart {
				r.Carry = true
			}
		}
		mn, mx := minmax()
		if r.Fires > mn {
			return fail("fired-too-often", fmt.Sprintf("step %d: fired %d times but the least-matched definition has been matched %d times while listening (counts %v)", i, r.Fires, mn, c))
		}
		if mn == mx && r.Fires != mn {
			return fail("fired-too-rarely", fmt.Sprintf("step %d: every definition has been matched exactly %d times while the node listened, but it has fired %d times", i, mn, r.Fires))
		}
	}
	return r
}

func TestC14Loop(t *testing.T) {
	var rd ldesc
	if ok, err := rec.ReplayInput(&rd); ok {
		if err != nil {
			t.Fatal(err)
		}
		if len(rd.Steps) == 0 {
			return
		}
		r := runLoop(rd)
		if r.Symptom != "" {
			fmt.Printf("REPRODUCED %s: %s\n", r.Symptom, r.Detail)
			t.Fatalf("%s", r.Symptom)
		}
		return
	}
	rapid.Check(t, func(rt *rapid.T) {
		n := rapid.IntRange(2, 3).Draw(rt, "n")
		d := ldesc{Defs: kindsFor(n, rapid.IntRange(0, 2).Draw(rt, "variant")), InSub: rapid.SampledFrom([]int{0, 0, 1, 2}).Draw(rt, "inSub"), DeclSeed: rapid.IntRange(0, 200).Draw(rt, "declSeed")}
		for i := rapid.IntRange(2, 14).Draw(rt, "steps"); i > 0; i-- {
			switch k := rapid.IntRange(0, 9).Draw(rt, "step"); {
			case k <= 5:
				d.Steps = append(d.Steps, lstep{Sym: rapid.IntRange(0, n-1).Draw(rt, "sym")})
			case k == 6:
				d.Steps = append(d.Steps, lstep{Sym: n + rapid.IntRange(0, 3).Draw(rt, "variant")})
			default:
				d.Steps = append(d.Steps, lstep{Sym: -1, Again: rapid.IntRange(0, 4).Draw(rt, "again") > 0})
			}
		}
		hash := rec.Hash(d)
		rec.Begin("TestC14Loop", hash, d)
		r := runLoop(d)
		if r.Inconcl != "" {
			rec.End(hash, "inconclusive")
			rec.Inconclusive("TestC14Loop", r.Inconcl)
			rt.Fatalf("inconclusive: %s", r.Inconcl)
		}
		rec.End(hash, r.Symptom)
		cls := []string{fmt.Sprintf("n=%d", n), fmt.Sprintf("fires=%d", r.Fires)}
		if r.Periods >= 2 {
			cls = append(cls, "listenedAgain")
		}
		if r.Carry {
			cls = append(cls, "firedWithMatchesCarriedOver")
		}
		if d.InSub > 0 {
			cls = append(cls, "insideSubProcess")
		}
		rec.Case("TestC14Loop", hash, r.Periods >= 2 && r.Fires >= 2, cls, map[string]any{"case": d, "history": r.History})
		if r.Symptom != "" {
			rt.Fatalf("%s", rec.Fail(rec.Failure{Property: prop, Test: "TestC14Loop", Symptom: r.Symptom, Detail: r.Detail, Descriptor: d,
				History: map[string]any{"steps": r.History, "traces": r.Traces, "xml": r.XML}}))
		}
	})
}
