package c14

// TestC14Withdrawn: the multiple / parallel-multiple catch event is one
// alternative of an event-based gateway in a loop; it LOSES the first W
// rounds (the other alternative's signal arrives; no event that matches one
// of its own definitions is delivered meanwhile) and the token comes back to
// the gateway each time. From then on events for its own definitions are
// delivered: a parallel-multiple node continues exactly once when every
// definition has been matched once, a plain multiple node on the first match
// - the rounds it sat out as a withdrawn alternative have no say in that.
//
//	start -> merge -> event-based gateway -> c (n definitions) -> task A -> merge
//	                                       -> o (signal "other") -> task O -> merge

import (
	"fmt"
	"sort"
	"testing"

	"pgregory.net/rapid"

	"verif/harness/drive"
	"verif/harness/gen"
	"verif/harness/rec"
)

type withdrawnDesc struct {
	Defs     []def `json:"defs"`
	Parallel bool  `json:"parallel"`
	Lost     int   `json:"lost"`   // rounds the node sits out as the losing alternative (1..3)
	Rounds   int   `json:"rounds"` // rounds it wins afterwards (1..3)
	Order    []int `json:"order"`  // order in which the definitions' events are delivered in a winning round
	DeclSeed int   `json:"declSeed"`
}

func runWithdrawn(d withdrawnDesc) (sym, det, inconcl string) {
	b := gen.NewB()
	st := b.Add(gen.KStart)
	mrg := b.Add(gen.KXor)
	eg := b.Add(gen.KEbg)
	c := b.Add(gen.KCatch)
	c.ParallelMul = d.Parallel
	for _, df := range d.Defs {
		switch df.Kind {
		case "signal":
			c.Defs = append(c.Defs, gen.EventDef{Kind: "signal", Ref: df.Ref})
		case "message":
			c.Defs = append(c.Defs, gen.EventDef{Kind: "message", Ref: df.Ref})
		default:
			c.Defs = append(c.Defs, gen.EventDef{Kind: "message", Ref: df.Ref, Op: "op_" + df.Ref})
		}
	}
	o := b.Add(gen.KCatch)
	o.Defs = []gen.EventDef{{Kind: "signal", Ref: "other"}}
	ta := b.Add(gen.KTask)
	to := b.Add(gen.KTask)
	b.Connect(st, mrg)
	b.Connect(mrg, eg)
	b.Connect(eg, c)
	b.Connect(eg, o)
	b.Connect(c, ta)
	b.Connect(o, to)
	b.Connect(ta, mrg)
	b.Connect(to, mrg)
	prog := &gen.Program{G: b.G, DefaultLang: "expr", DeclSeed: d.DeclSeed}
	in, err := drive.New(prog.XML(), drive.Options{})
	if err != nil {
		return "construct", err.Error(), ""
	}
	defer in.Close()
	if err := in.StartAll(); err != nil {
		return "start-error", err.Error(), ""
	}
	// deliver ev, wait, compare the requests with want, answer them
	step := func(what string, deliver func(), want []string) (string, string, string) {
		deliver()
		if _, err := in.Quiesce(); err != nil {
			return "", "", err.Error()
		}
		var got []string
		ts := in.NewTasks()
		for _, tt := range ts {
			id, _ := tt.GetActivity().Element().Id()
			got = append(got, *id)
		}
		sort.Strings(got)
		if fmt.Sprint(got) != fmt.Sprint(want) {
			return "requests", fmt.Sprintf("%s: tasks requested %v, want %v", what, got, want), ""
		}
		for _, tt := range ts {
			tt.Do()
		}
		if _, err := in.Quiesce(); err != nil {
			return "", "", err.Error()
		}
		return "", "", ""
	}
	if s, dd, inc := step("after the start", func() {}, nil); s != "" || inc != "" {
		return s, dd, inc
	}
	for i := 0; i < d.Lost; i++ {
		if s, dd, inc := step(fmt.Sprintf("round %d, the other alternative's signal", i), func() { in.P.ConsumeEvent(drive.Signal("other")) }, []string{to.ID}); s != "" || inc != "" {
			return s, dd, inc
		}
	}
	for r := 0; r < d.Rounds; r++ {
		for k, di := range d.Order {
			want := []string(nil)
			if !d.Parallel && k == 0 || d.Parallel && k == len(d.Order)-1 {
				want = []string{ta.ID}
			}
			if !d.Parallel && k > 0 {
				break // a plain multiple node has continued on the first match; the token waits at task A's successor round
			}
			what := fmt.Sprintf("after %d lost rounds, winning round %d, event %d of %d (definition %d, parallel=%v)", d.Lost, r, k+1, len(d.Order), di, d.Parallel)
			if s, dd, inc := step(what, func() { in.P.ConsumeEvent(d.Defs[di].event()) }, want); s != "" || inc != "" {
				return s, dd, inc
			}
		}
	}
	return "", "", ""
}

func TestC14Withdrawn(t *testing.T) {
	var rd withdrawnDesc
	if ok, err := rec.ReplayInput(&rd); ok {
		if err != nil {
			t.Fatal(err)
		}
		if len(rd.Defs) == 0 {
			return
		}
		if s, dd, _ := runWithdrawn(rd); s != "" {
			fmt.Printf("REPRODUCED %s: %s\n", s, dd)
			t.Fatalf("%s", s)
		}
		return
	}
	rapid.Check(t, func(rt *rapid.T) {
		n := rapid.IntRange(1, 3).Draw(rt, "n")
		d := withdrawnDesc{Defs: kindsFor(n, rapid.IntRange(0, 2).Draw(rt, "variant")), Parallel: rapid.Bool().Draw(rt, "parallel"),
			Lost: rapid.IntRange(1, 3).Draw(rt, "lost"), Rounds: rapid.IntRange(1, 3).Draw(rt, "rounds"), DeclSeed: rapid.IntRange(0, 200).Draw(rt, "declSeed")}
		d.Order = rapid.Permutation(seqN(n)).Draw(rt, "order")
		if rapid.IntRange(0, 2).Draw(rt, "qualifiedRefs") == 0 {
			d.Defs = qualified(d.Defs)
		}
		hash := rec.Hash(d)
		rec.Begin("TestC14Withdrawn", hash, d)
		s, dd, inc := runWithdrawn(d)
		if inc != "" {
			rec.End(hash, "inconclusive")
			rec.Inconclusive("TestC14Withdrawn", inc)
			rt.Fatalf("inconclusive: %s", inc)
		}
		rec.End(hash, s)
		rec.Case("TestC14Withdrawn", hash, n >= 2, []string{fmt.Sprintf("parallel=%v", d.Parallel), fmt.Sprintf("defs=%d", n)}, d)
		if s != "" {
			rt.Fatalf("%s", rec.Fail(rec.Failure{Property: prop, Test: "TestC14Withdrawn", Symptom: s, Detail: dd, Descriptor: d}))
		}
	})
}

func seqN(n int) []int {
	out := make([]int, n)
	for i := range out {
		out[i] = i
	}
	return out
}
