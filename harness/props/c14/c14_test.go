package c14

import (
	"fmt"
	"strings"
	"testing"

	"github.com/olive-io/bpmn/schema"
	"github.com/olive-io/bpmn/v2/pkg/event"
	"github.com/olive-io/bpmn/v2/pkg/logic"
	"pgregory.net/rapid"

	"verif/harness/drive"
	"verif/harness/gen"
	"verif/harness/model"
	"verif/harness/rec"
)

const prop = "C14"

type tb interface{ Fatalf(string, ...any) }

// A definition is a signal or a message definition (with or without operationRef).
type def struct {
	Kind string // "signal" | "message" | "messageop"
	Ref  string
}

func (d def) xml(i int) string {
	switch d.Kind {
	case "signal":
		return fmt.Sprintf(`<bpmn:signalEventDefinition id="d%d" signalRef="%s"/>`, i, d.Ref)
	case "message":
		return fmt.Sprintf(`<bpmn:messageEventDefinition id="d%d" messageRef="%s"/>`, i, d.Ref)
	default:
		return fmt.Sprintf(`<bpmn:messageEventDefinition id="d%d" messageRef="%s"><bpmn:operationRef>op_%s</bpmn:operationRef></bpmn:messageEventDefinition>`, i, d.Ref, d.Ref)
	}
}

func (d def) event() event.IEvent {
	// (pooled: the same object for the same definition every time)
	switch d.Kind {
	case "signal":
		return drive.Signal(d.Ref)
	case "message":
		return drive.Message(d.Ref, "")
	default:
		return drive.Message(d.Ref, "op_"+d.Ref)
	}
}

// nonMatching events: wrong ref, right ref wrong kind, message with/without op mismatch.
func nonMatching(defs []def, variant int) event.IEvent {
	if variant%5 == 4 {
		// a signal whose reference shares only the local part with definition 0's
		if i := strings.Index(defs[0].Ref, ":"); i >= 0 {
			return drive.Signal("zz" + defs[0].Ref[i:])
		}
		return drive.Signal("zz_" + defs[0].Ref)
	}
	switch variant % 4 {
	case 0:
		return drive.Signal("zz_none")
	case 1:
		return drive.Message("zz_none", "")
	case 2:
		// same ref as def 0 but the other kind
		d := defs[0]
		if d.Kind == "signal" {
			return drive.Message(d.Ref, "")
		}
		return drive.Signal(d.Ref)
	default:
		// operationRef mismatch against def 0 if it is a message
		d := defs[0]
		switch d.Kind {
		case "message":
			return drive.Message(d.Ref, "op_x")
		case "messageop":
			return drive.Message(d.Ref, "")
		}
		return event.MakeNoneEvent()
	}
}

type satisfier interface {
	Satisfy(ev event.IEvent) (bool, int)
}

var elemCache = map[string]schema.Element{}

func build(t tb, defs []def, parallel bool, throw bool) satisfier {
	key := fmt.Sprintf("%v|%v|%v", defs, parallel, throw)
	if el, ok := elemCache[key]; ok {
		return mk(el, throw)
	}
	var sb strings.Builder
	sb.WriteString(`<?xml version="1.0" encoding="UTF-8"?><bpmn:definitions xmlns:bpmn="http://www.omg.org/spec/BPMN/20100524/MODEL" id="D"><bpmn:process id="P" isExecutable="true">`)
	if throw {
		sb.WriteString(`<bpmn:intermediateThrowEvent id="ev">`)
	} else {
		fmt.Fprintf(&sb, `<bpmn:intermediateCatchEvent id="ev" parallelMultiple="%v">`, parallel)
	}
	for i, d := range defs {
		sb.WriteString(d.xml(i))
	}
	if throw {
		sb.WriteString(`</bpmn:intermediateThrowEvent>`)
	} else {
		sb.WriteString(`</bpmn:intermediateCatchEvent>`)
	}
	sb.WriteString(`</bpmn:process></bpmn:definitions>`)
	defsModel, err := schema.Parse([]byte(sb.String()))
	if err != nil {
		t.Fatalf("parse: %v\n%s", err, sb.String())
	}
	el, ok := defsModel.FindBy(schema.ExactId("ev"))
	if !ok {
		t.Fatalf("element not found")
	}
	elemCache[key] = el
	return mk(el, throw)
}

func mk(el schema.Element, throw bool) satisfier {
	if throw {
		te := el.(*schema.IntermediateThrowEvent)
		return logic.NewThrowEventSatisfier(&te.ThrowEvent, event.WrappingDefinitionInstanceBuilder)
	}
	ce := el.(*schema.IntermediateCatchEvent)
	return logic.NewCatchEventSatisfier(&ce.CatchEvent, event.WrappingDefinitionInstanceBuilder)
}

// cfg describes a satisfier configuration.
type cfg struct {
	Defs     []def `json:"defs"`
	Parallel bool  `json:"parallel"`
	Throw    bool  `json:"throw"`
}

// history symbols: 0..n-1 = event matching definition i; n+v = non-matching variant v.
type descriptor struct {
	Cfg     cfg   `json:"cfg"`
	History []int `json:"history"`
}

// accounting = parallel-multiple semantics apply (fires only when all matched).
func (c cfg) accounting() bool {
	if len(c.Defs) == 1 {
		return false
	}
	if c.Throw {
		return true
	}
	return c.Parallel
}

// check runs one history against a fresh satisfier and the counting model.
// It returns "" or a description of the violation.
func check(t tb, d descriptor) (violation string, nontrivial bool) {
	n := len(d.Cfg.Defs)
	s := build(t, d.Cfg.Defs, d.Cfg.Parallel, d.Cfg.Throw)
	// shadow satisfier fed only the matching events: a non-matching event
	// must change nothing, so both must answer identically on matching events.
	shadow := build(t, d.Cfg.Defs, d.Cfg.Parallel, d.Cfg.Throw)
	c := make([]int, n)
	fires := 0
	acct := d.Cfg.accounting()
	for pos, sym := range d.History {
		if sym >= n {
			ok, chain := s.Satisfy(nonMatching(d.Cfg.Defs, sym-n))
			if ok || chain != logic.EventDidNotMatch {
				return fmt.Sprintf("pos %d: non-matching event returned (%v,%d)", pos, ok, chain), false
			}
			continue
		}
		ev := d.Cfg.Defs[sym].event()
		ok, chain := s.Satisfy(ev)
		ok2, chain2 := shadow.Satisfy(d.Cfg.Defs[sym].event())
		if ok != ok2 || chain != chain2 {
			return fmt.Sprintf("pos %d: with non-matching events interleaved Satisfy=(%v,%d), without=(%v,%d)", pos, ok, chain, ok2, chain2), false
		}
		if chain == logic.EventDidNotMatch {
			return fmt.Sprintf("pos %d: matching event %d reported EventDidNotMatch", pos, sym), false
		}
		c[sym]++
		if ok {
			fires++
		}
		if !acct {
			if !ok {
				return fmt.Sprintf("pos %d: plain multiple/single catch did not fire on matching event %d", pos, sym), false
			}
			continue
		}
		mn, mx := c[0], c[0]
		for _, v := range c {
			if v < mn {
				mn = v
			}
			if v > mx {
				mx = v
			}
		}
		if mx >= 2 && mn == 0 {
			nontrivial = true
		}
		if fires > mn {
			return fmt.Sprintf("pos %d: fired %d times but least-matched definition matched %d times (counts %v)", pos, fires, mn, c), nontrivial
		}
		if mn == mx && fires != mn {
			return fmt.Sprintf("pos %d: every definition matched exactly %d times but fired %d times", pos, mn, fires), nontrivial
		}
	}
	if !acct && n >= 2 {
		nontrivial = true
	}
	return "", nontrivial
}

func fail(t tb, test string, d descriptor, v string) {
	msg := rec.Fail(rec.Failure{Property: prop, Test: test, Symptom: "accounting", Detail: v, Descriptor: d})
	t.Fatalf("%s", msg)
}

// qualified rewrites the references as prefixed QNames that share their local
// part (ns0:ready, ns1:ready, ...), all of them signals: different references
// all the same.
func qualified(defs []def) []def {
	out := make([]def, len(defs))
	for i, d := range defs {
		_ = d
		out[i] = def{Kind: "signal", Ref: fmt.Sprintf("ns%d:ready", i)}
	}
	return out
}

func kindsFor(n int, variant int) []def {
	kinds := []string{"signal", "message", "messageop"}
	defs := make([]def, n)
	for i := range defs {
		defs[i] = def{Kind: kinds[(i+variant)%3], Ref: fmt.Sprintf("r%d", i)}
	}
	return defs
}

// TestC14Exhaustive enumerates every history up to length L over n definitions
// plus one non-matching symbol, for every satisfier configuration.
func TestC14Exhaustive(t *testing.T) {
	if ok, _ := rec.ReplayInput(&descriptor{}); ok {
		t.Skip("replay mode")
	}
	L := 6
	if rec.Tier() == "thorough" {
		L = 9
	}
	total, nt := 0, 0
	classes := map[string]int{}
	var samples []any
	for n := 1; n <= 4; n++ {
		for _, mode := range []struct{ parallel, throw bool }{{true, false}, {false, false}, {false, true}} {
			Ln := L
			if n == 4 && L == 9 {
				Ln = 8 // 5^9 x 3 configurations is the only table above budget; 4 definitions go to length 8
			}
			c := cfg{Defs: kindsFor(n, n), Parallel: mode.parallel, Throw: mode.throw}
			hist := make([]int, Ln)
			alphabet := n + 1
			var rec_ func(pos int)
			count := 0
			rec_ = func(pos int) {
				if pos == Ln {
					d := descriptor{Cfg: c, History: hist}
					v, isNT := check(t, d)
					if v != "" {
						hh := append([]int(nil), hist...)
						fail(t, "TestC14Exhaustive", descriptor{Cfg: c, History: hh}, v)
					}
					count++
					if isNT {
						nt++
						if len(samples) < 8 && count%977 == 0 {
							samples = append(samples, descriptor{Cfg: c, History: append([]int(nil), hist...)})
						}
					}
					return
				}
				for s := 0; s < alphabet; s++ {
					hist[pos] = s
					rec_(pos + 1)
				}
			}
			rec_(0)
			total += count
			classes[fmt.Sprintf("n=%d parallel=%v throw=%v len=%d", n, mode.parallel, mode.throw, Ln)] = count
		}
	}
	if len(samples) == 0 {
		samples = append(samples, "none sampled")
	}
	// full-length histories are distinct by construction; every prefix is checked inside check()
	rec.Count("TestC14Exhaustive", total, nt, classes, samples, true)
}

// TestC14Random draws longer histories and mixed definition kinds.
func TestC14Random(t *testing.T) {
	var rd descriptor
	if ok, err := rec.ReplayInput(&rd); ok {
		if err != nil {
			t.Fatal(err)
		}
		if v, _ := check(t, rd); v != "" {
			fmt.Printf("REPRODUCED %s\n", v)
			t.Fatalf("%s", v)
		}
		return
	}
	rapid.Check(t, func(rt *rapid.T) {
		n := rapid.IntRange(1, 4).Draw(rt, "n")
		variant := rapid.IntRange(0, 2).Draw(rt, "variant")
		mode := rapid.IntRange(0, 2).Draw(rt, "mode")
		c := cfg{Defs: kindsFor(n, variant), Parallel: mode == 0, Throw: mode == 2}
		h := rapid.SliceOfN(rapid.IntRange(0, n+3), 7, 40).Draw(rt, "history")
		d := descriptor{Cfg: c, History: h}
		hash := rec.Hash(d)
		v, nt := check(rt, d)
		cls := []string{fmt.Sprintf("n=%d", n), fmt.Sprintf("mode=%d", mode)}
		rec.Case("TestC14Random", hash, nt, cls, d)
		if v != "" {
			rt.Fatalf("%s", rec.Fail(rec.Failure{Property: prop, Test: "TestC14Random", Symptom: "accounting", Detail: v, Descriptor: d}))
		}
	})
}

// ---------------------------------------------------------------------------
// process level: start -> (parallel-)multiple intermediate catch event -> task -> end

type pdesc struct {
	Defs     []def        `json:"defs"`
	Parallel bool         `json:"parallel"`
	PreTask  bool         `json:"preTask"`
	Script   []drive.Stim `json:"script"`
	// Loop (TestC14Loop): the task behind the catch event decides (result
	// "again") whether the token returns to the catch event
	Loop bool `json:"loop,omitempty"`
	// InSub: everything behind the start event sits inside nested sub-processes
	InSub int `json:"inSub,omitempty"`
}

func buildProc(d pdesc) *gen.Graph {
	root := gen.NewB()
	b := root
	st := b.Add(gen.KStart)
	for lvl := 0; lvl < d.InSub; lvl++ {
		sp := b.Add(gen.KSub)
		en := b.Add(gen.KEnd)
		b.Connect(st, sp)
		b.Connect(sp, en)
		ib := b.Sub()
		sp.Inner = ib.G
		b = ib
		st = b.Add(gen.KStart)
	}
	cur := st
	if d.PreTask {
		t := b.Add(gen.KTask)
		b.Connect(cur, t)
		cur = t
	}
	var mrg *gen.Node
	if d.Loop {
		mrg = b.Add(gen.KXor)
		b.Connect(cur, mrg)
		cur = mrg
	}
	c := b.Add(gen.KCatch)
	c.ParallelMul = d.Parallel
	for _, df := range d.Defs {
		switch df.Kind {
		case "signal":
			c.Defs = append(c.Defs, gen.EventDef{Kind: "signal", Ref: df.Ref})
		case "message":
			c.Defs = append(c.Defs, gen.EventDef{Kind: "message", Ref: df.Ref})
		default:
			c.Defs = append(c.Defs, gen.EventDef{Kind: "message", Ref: df.Ref, Op: "op_" + df.Ref})
		}
	}
	b.Connect(cur, c)
	t := b.Add(gen.KTask)
	b.Connect(c, t)
	en := b.Add(gen.KEnd)
	if d.Loop {
		t.Results = []string{"again"}
		x := b.Add(gen.KXor)
		b.Connect(t, x)
		back := b.Connect(x, mrg)
		back.Formal, back.Cond = true, gen.BoolVar("again")
		out := b.Connect(x, en)
		x.Default = out.ID
		return root.G
	}
	b.Connect(t, en)
	return root.G
}

func evFor(df def) *model.Ev {
	switch df.Kind {
	case "signal":
		return &model.Ev{Kind: "signal", Ref: df.Ref}
	case "message":
		return &model.Ev{Kind: "message", Ref: df.Ref}
	}
	return &model.Ev{Kind: "message", Ref: df.Ref, Op: "op_" + df.Ref}
}

func TestC14Process(t *testing.T) {
	var rd pdesc
	if ok, err := rec.ReplayInput(&rd); ok {
		if err != nil {
			t.Fatal(err)
		}
		if rd.Defs == nil {
			return // a replay file of the satisfier-level tests
		}
		out := drive.RunScript(&drive.ScriptCase{Graph: buildProc(rd), Lang: "expr", Script: rd.Script, Drain: true})
		if out.Symptom != "" {
			fmt.Printf("REPRODUCED %s: %s\n", out.Symptom, out.Detail)
			t.Fatalf("%s", out.Symptom)
		}
		return
	}
	rapid.Check(t, func(rt *rapid.T) {
		n := rapid.IntRange(1, 4).Draw(rt, "n")
		d := pdesc{Defs: kindsFor(n, rapid.IntRange(0, 2).Draw(rt, "variant")), Parallel: rapid.Bool().Draw(rt, "parallel"), PreTask: rapid.Bool().Draw(rt, "pre")}
		if d.PreTask && rapid.Bool().Draw(rt, "earlyEvent") {
			d.Script = append(d.Script, drive.Stim{Kind: "event", Ev: evFor(d.Defs[0])})
		}
		if d.PreTask {
			d.Script = append(d.Script, drive.Stim{Kind: "answer"})
		}
		ne := rapid.IntRange(0, 9).Draw(rt, "events")
		var evs []drive.Stim
		for i := 0; i < ne; i++ {
			k := rapid.IntRange(0, n).Draw(rt, "sym")
			if k == n {
				evs = append(evs, drive.Stim{Kind: "event", Ev: &model.Ev{Kind: "signal", Ref: "zz"}})
			} else {
				evs = append(evs, drive.Stim{Kind: "event", Ev: evFor(d.Defs[k])})
			}
		}
		if ne >= 3 && rapid.IntRange(0, 2).Draw(rt, "backToBack") == 0 {
			// the whole history delivered back to back from one goroutine (more
			// events in flight than the catch event's inbox holds): the order is
			// known, so the outcome is the same as one by one
			d.Script = append(d.Script, drive.Stim{Kind: "rapid", Burst: evs})
		} else {
			d.Script = append(d.Script, evs...)
		}
		hash := rec.Hash(d)
		rec.Begin("TestC14Process", hash, d)
		out := drive.RunScript(&drive.ScriptCase{Graph: buildProc(d), Lang: "expr", Script: d.Script, Drain: true})
		if out.Inconcl != "" {
			rec.End(hash, "inconclusive")
			rec.Inconclusive("TestC14Process", out.Inconcl)
			rt.Fatalf("inconclusive: %s", out.Inconcl)
		}
		rec.End(hash, out.Symptom)
		rec.Case("TestC14Process", hash, n >= 2 && ne >= 2, []string{fmt.Sprintf("n=%d parallel=%v", n, d.Parallel)}, map[string]any{"case": d, "steps": out.Steps})
		if out.Symptom != "" {
			rt.Fatalf("%s", rec.Fail(rec.Failure{Property: prop, Test: "TestC14Process", Symptom: out.Symptom, Detail: out.Detail, Descriptor: d,
				History: map[string]any{"steps": out.Steps, "traces": out.Traces, "xml": out.XML}}))
		}
	})
}
