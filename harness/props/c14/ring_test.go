package c14

// TestC14Ring: a parallel-multiple catch event in a ring WITHOUT any activity:
//
//	start -> merge -> catch(parallel multiple: 2..3 definitions) -> back to merge
//
// The token returns to the catch event by itself after every firing, so the
// node listens whenever an event is handed to the (quiescent) instance. The
// catch event is the only - and so the last registered - consumer of events
// besides the start event. Per event: the node fires at most once; never more
// often than its least-matched definition has been matched; exactly k times
// once every definition has been matched exactly k times; an event that
// matches no definition changes nothing.

import (
	"fmt"
	"testing"

	"github.com/olive-io/bpmn/schema"
	bpmn "github.com/olive-io/bpmn/v2"
	"pgregory.net/rapid"

	"verif/harness/drive"
	"verif/harness/gen"
	"verif/harness/rec"
)

type ringDesc struct {
	Defs     []def `json:"defs"`
	Steps    []int `json:"steps"` // 0..n-1: event matching definition i; >= n: non-matching variant
	DeclSeed int   `json:"declSeed"`
}

func runRing(d ringDesc) (sym, det, inconcl string) {
	b := gen.NewB()
	st := b.Add(gen.KStart)
	mrg := b.Add(gen.KXor)
	c := b.Add(gen.KCatch)
	c.ParallelMul = true
	for _, df := range d.Defs {
		switch df.Kind {
		case "signal":
			c.Defs = append(c.Defs, gen.EventDef{Kind: "signal", Ref: df.Ref})
		case "message":
			c.Defs = append(c.Defs, gen.EventDef{Kind: "message", Ref: df.Ref})
		default:
			c.Defs = append(c.Defs, gen.EventDef{Kind: "message", Ref: df.Ref, Op: "op_" + df.Ref})
		}
	}
	b.Connect(st, mrg)
	b.Connect(mrg, c)
	b.Connect(c, mrg)
	prog := &gen.Program{G: b.G, DefaultLang: "expr", DeclSeed: d.DeclSeed}
	in, err := drive.New(prog.XML(), drive.Options{})
	if err != nil {
		return "construct", err.Error(), ""
	}
	defer in.Close()
	if err := in.StartAll(); err != nil {
		return "start-error", err.Error(), ""
	}
	if _, err := in.Quiesce(); err != nil {
		return "", "", err.Error()
	}
	fires := func() int {
		n := 0
		for _, t := range in.Traces() {
			if ft, ok := t.(bpmn.FlowTrace); ok {
				if ce, isCatch := ft.Source.(*schema.CatchEvent); isCatch {
					if id, _ := ce.Id(); id != nil && *id == c.ID {
						n++
					}
				}
			}
		}
		return n
	}
	n := len(d.Defs)
	counts := make([]int, n)
	fired := 0
	for i, s := range d.Steps {
		var desc string
		if s >= n {
			in.P.ConsumeEvent(nonMatching(d.Defs, s-n))
			desc = "non-matching event"
		} else {
			in.P.ConsumeEvent(d.Defs[s].event())
			counts[s]++
			desc = fmt.Sprintf("event for definition %d", s)
		}
		if _, err := in.Quiesce(); err != nil {
			return "", "", err.Error()
		}
		now := fires()
		delta := now - fired
		fired = now
		if delta > 1 {
			return "fired-twice", fmt.Sprintf("step %d (%s): the node continued %d times for one event (matched so far %v)", i, desc, delta, counts), ""
		}
		if s >= n && delta != 0 {
			return "fired-without-cause", fmt.Sprintf("step %d: an event that matches no definition made the node continue (matched so far %v)", i, counts), ""
		}
		mn, mx := counts[0], counts[0]
		for _, v := range counts {
			if v < mn {
				mn = v
			}
			if v > mx {
				mx = v
			}
		}
		if fired > mn {
			return "fired-too-often", fmt.Sprintf("step %d (%s): the node has continued %d times, its least-matched definition has been matched %d times (%v)", i, desc, fired, mn, counts), ""
		}
		if mn == mx && fired != mn {
			return "fired-too-rarely", fmt.Sprintf("step %d (%s): every definition has been matched exactly %d times, the node has continued %d times", i, desc, mn, fired), ""
		}
	}
	return "", "", ""
}

func TestC14Ring(t *testing.T) {
	var rd ringDesc
	if ok, err := rec.ReplayInput(&rd); ok {
		if err != nil {
			t.Fatal(err)
		}
		if len(rd.Defs) == 0 {
			return
		}
		if s, dd, _ := runRing(rd); s != "" {
			fmt.Printf("REPRODUCED %s: %s\n", s, dd)
			t.Fatalf("%s", s)
		}
		return
	}
	rapid.Check(t, func(rt *rapid.T) {
		n := rapid.IntRange(2, 3).Draw(rt, "n")
		d := ringDesc{Defs: kindsFor(n, rapid.IntRange(0, 2).Draw(rt, "variant")), DeclSeed: rapid.IntRange(0, 200).Draw(rt, "declSeed")}
		if rapid.IntRange(0, 2).Draw(rt, "qualifiedRefs") == 0 {
			d.Defs = qualified(d.Defs)
		}
		for i := rapid.IntRange(2, 14).Draw(rt, "steps"); i > 0; i-- {
			if rapid.IntRange(0, 5).Draw(rt, "noise") == 0 {
				d.Steps = append(d.Steps, n+rapid.IntRange(0, 4).Draw(rt, "variant"))
			} else {
				d.Steps = append(d.Steps, rapid.IntRange(0, n-1).Draw(rt, "sym"))
			}
		}
		hash := rec.Hash(d)
		rec.Begin("TestC14Ring", hash, d)
		s, dd, inc := runRing(d)
		if inc != "" {
			rec.End(hash, "inconclusive")
			rec.Inconclusive("TestC14Ring", inc)
			rt.Fatalf("inconclusive: %s", inc)
		}
		rec.End(hash, s)
		rec.Case("TestC14Ring", hash, len(d.Steps) >= 4, []string{fmt.Sprintf("defs=%d", n)}, d)
		if s != "" {
			rt.Fatalf("%s", rec.Fail(rec.Failure{Property: prop, Test: "TestC14Ring", Symptom: s, Detail: dd, Descriptor: d}))
		}
	})
}
