package c06

import (
	"fmt"
	"testing"

	"pgregory.net/rapid"

	"verif/harness/drive"
	"verif/harness/gen"
	"verif/harness/model"
	"verif/harness/rec"
)

const prop = "C06"

type descriptor struct {
	Alts    []gen.EventDef `json:"alts"`    // 2..3 alternatives (distinct events)
	PreTask bool           `json:"preTask"` // a task before the gateway
	Merge   bool           `json:"merge"`   // branches merge into one end event (exclusive merge) instead of separate ends
	Script  []drive.Stim   `json:"script"`
	Perturb uint64         `json:"perturb"`
	// Loop: the branch of alternative 0 leads back into the gateway (the
	// gateway is re-entered; the alternatives withdrawn in the first round
	// must be armed again)
	Loop bool `json:"loop,omitempty"`
	// Timer: the last alternative is a timer catch event (duration timer of 10 s
	// on a mock clock, running from the creation of the instance); "clock"
	// stimuli move the clock, alone or concurrently with competing events
	Timer bool `json:"timer,omitempty"`
	// InSub: the gateway, its alternatives and their tasks sit inside 1..2
	// nested embedded sub-processes (events handed to the instance must reach
	// the alternatives there just the same)
	InSub int `json:"inSub,omitempty"`
	// IncMerge: the branches merge in an INCLUSIVE gateway (instead of the
	// exclusive one): only the winner's token ever arrives, the withdrawn
	// alternatives must not keep the join waiting
	IncMerge bool `json:"incMerge,omitempty"`
	// TwoTokens: a parallel fork sends two tokens into the gateway at once; each
	// activation decides for itself (one event continues BOTH tokens waiting at
	// the matching catch event and withdraws both tokens' other alternatives)
	TwoTokens bool `json:"twoTokens,omitempty"`
	// Flood: the first event an alternative waits for arrives at the end of a
	// back-to-back run of 4..12 events nobody waits for
	Flood bool `json:"flood,omitempty"`
	// IncSibling: an inclusive fork in front of the gateway sends a second
	// token through a task into an inclusive join; alternative 0's branch also
	// leads to that join, every other alternative to an end event of its own.
	// The join has to notice that a withdrawn alternative will never arrive.
	IncSibling bool `json:"incSibling,omitempty"`
}

const timerExpr = "PT10S"

func build(d descriptor) *gen.Graph {
	root := gen.NewB()
	b := root
	st := b.Add(gen.KStart)
	cur := st
	if d.PreTask {
		t := b.Add(gen.KTask)
		b.Connect(cur, t)
		cur = t
	}
	for lvl := 0; lvl < d.InSub; lvl++ {
		// cur -> subProcess -> end at this level; continue building inside
		sp := b.Add(gen.KSub)
		en := b.Add(gen.KEnd)
		b.Connect(cur, sp)
		b.Connect(sp, en)
		ib := b.Sub()
		sp.Inner = ib.G
		b = ib
		cur = b.Add(gen.KStart)
	}
	eg := b.Add(gen.KEbg)
	var sibJoin *gen.Node
	if d.IncSibling {
		ifork := b.Add(gen.KInc)
		b.Connect(cur, ifork)
		sibJoin = b.Add(gen.KInc)
		sib := b.Add(gen.KTask)
		b.Connect(ifork, sib)
		b.Connect(sib, sibJoin)
		after := b.Add(gen.KTask)
		aen := b.Add(gen.KEnd)
		b.Connect(sibJoin, after)
		b.Connect(after, aen)
		cur = ifork
	}
	if d.TwoTokens {
		fork := b.Add(gen.KPar)
		b.Connect(cur, fork)
		b.Connect(fork, eg)
		cur = fork
	}
	b.Connect(cur, eg)
	var mrg *gen.Node
	if d.Merge {
		mrg = b.Add(gen.KXor)
		if d.IncMerge {
			mrg.Kind = gen.KInc
		}
		en := b.Add(gen.KEnd)
		b.Connect(mrg, en)
	}
	for i, a := range d.Alts {
		c := b.Add(gen.KCatch)
		c.Defs = []gen.EventDef{a}
		b.Connect(eg, c)
		t := b.Add(gen.KTask)
		b.Connect(c, t)
		if d.Loop && i == 0 {
			b.Connect(t, eg)
			continue
		}
		if sibJoin != nil && i == 0 {
			b.Connect(t, sibJoin)
		} else if d.Merge {
			b.Connect(t, mrg)
		} else {
			en := b.Add(gen.KEnd)
			b.Connect(t, en)
		}
	}
	return root.G
}

func evOf(d gen.EventDef) *model.Ev {
	if d.Kind == "timer" {
		return &model.Ev{Kind: "timer", Ref: d.TimerExpr}
	}
	return &model.Ev{Kind: d.Kind, Ref: d.Ref, Op: d.Op}
}

func draw(rt *rapid.T) descriptor {
	d := descriptor{PreTask: rapid.Bool().Draw(rt, "preTask"), Merge: rapid.Bool().Draw(rt, "merge"), Perturb: uint64(rapid.IntRange(0, 300).Draw(rt, "perturb"))}
	n := rapid.IntRange(2, 3).Draw(rt, "alts")
	d.Timer = rapid.IntRange(0, 2).Draw(rt, "timerAlt") == 0
	d.InSub = rapid.SampledFrom([]int{0, 0, 0, 1, 2}).Draw(rt, "inSub")
	d.IncMerge = d.Merge && rapid.IntRange(0, 2).Draw(rt, "incMerge") == 0
	d.TwoTokens = !d.IncMerge && rapid.IntRange(0, 4).Draw(rt, "twoTokens") == 0
	d.IncSibling = !d.TwoTokens && !d.Merge && rapid.IntRange(0, 3).Draw(rt, "incSibling") == 0
	for i := 0; i < n; i++ {
		ref := fmt.Sprintf("a%d", i)
		if d.Timer && i == n-1 {
			d.Alts = append(d.Alts, gen.EventDef{Kind: "timer", TimerKind: "timeDuration", TimerExpr: timerExpr})
			continue
		}
		switch rapid.IntRange(0, 2).Draw(rt, "defKind") {
		case 0:
			d.Alts = append(d.Alts, gen.EventDef{Kind: "signal", Ref: ref})
		case 1:
			d.Alts = append(d.Alts, gen.EventDef{Kind: "message", Ref: ref})
		default:
			d.Alts = append(d.Alts, gen.EventDef{Kind: "message", Ref: ref, Op: "op"})
		}
	}
	// (two tokens: with two activations deciding independently, two events
	// delivered at the same time may each win one of them - allowed, but not an
	// outcome of any serial order of the events; such cases get no concurrent pairs)
	noConcurrent := rec.Exclude("C06-F1") || d.TwoTokens
	maxLate := 6
	if rec.Exclude("C06-F2") {
		maxLate = 0
	}
	clockNow := 0
	ev := func() drive.Stim {
		if rapid.IntRange(0, 6).Draw(rt, "nonMatching") == 0 {
			return drive.Stim{Kind: "event", Ev: &model.Ev{Kind: "signal", Ref: "zz"}}
		}
		a := d.Alts[rapid.IntRange(0, n-1).Draw(rt, "which")]
		if a.Kind == "timer" {
			// the clock moves by 4, 6 or 10 s; the duration timer falls due (once)
			// when it reaches 10 s after the creation of the instance
			step := rapid.SampledFrom([]int{10, 10, 6, 4}).Draw(rt, "clockStep")
			return drive.Stim{Kind: "clock", ClockS: step}
		}
		return drive.Stim{Kind: "event", Ev: evOf(a)}
	}
	// commit a stimulus that really enters the script: a clock step that
	// reaches the due time carries the timer's (single) firing for the model
	commit := func(s drive.Stim) drive.Stim {
		if s.Kind == "clock" {
			if clockNow < 10 && clockNow+s.ClockS >= 10 {
				s.Ev = evOf(d.Alts[n-1])
			}
			clockNow += s.ClockS
		}
		return s
	}
	key := func(e drive.Stim) string {
		if e.Kind == "clock" {
			return "clock"
		}
		return e.Ev.Kind + e.Ev.Ref
	}
	if d.PreTask && rapid.Bool().Draw(rt, "earlyEvent") {
		// an event before the gateway is reached has no effect
		d.Script = append(d.Script, commit(ev()))
	}
	if d.PreTask {
		d.Script = append(d.Script, drive.Stim{Kind: "answer"})
	}
	matched := 0
	if rapid.IntRange(0, 3).Draw(rt, "flood") == 0 {
		// a flood: 4..12 events nobody waits for and then the event of one
		// alternative, handed to the instance back to back (every listening
		// alternative is offered every event; none of them may lose its own)
		var cands []gen.EventDef
		for _, a := range d.Alts {
			if a.Kind != "timer" {
				cands = append(cands, a)
			}
		}
		if len(cands) > 0 {
			var evs []drive.Stim
			for k := rapid.IntRange(4, 12).Draw(rt, "floodSize"); k > 0; k-- {
				evs = append(evs, drive.Stim{Kind: "event", Ev: &model.Ev{Kind: "signal", Ref: "zz"}})
			}
			evs = append(evs, drive.Stim{Kind: "event", Ev: evOf(cands[rapid.IntRange(0, len(cands)-1).Draw(rt, "floodWinner")])})
			d.Script = append(d.Script, drive.Stim{Kind: "rapid", Burst: evs})
			d.Flood = true
			matched++
		}
	}
	// the competing events: a non-empty sequence of length <= 4, adjacent pairs possibly concurrent
	ne := rapid.IntRange(1, 4).Draw(rt, "events")
	for i := 0; i < ne; {
		if matched > 0 && matched >= 1+maxLate {
			break
		}
		if !noConcurrent && i+1 < ne && rapid.IntRange(0, 2).Draw(rt, "concurrent") == 0 {
			k := rapid.IntRange(2, n).Draw(rt, "burstSize")
			var bs []drive.Stim
			seen := map[string]bool{}
			for j := 0; j < k; j++ {
				e := ev()
				if seen[key(e)] {
					continue
				}
				seen[key(e)] = true
				bs = append(bs, commit(e))
			}
			d.Script = append(d.Script, drive.Stim{Kind: "burst", Burst: bs})
			matched += len(bs)
			i += 2
		} else {
			if matched >= 1 && maxLate == 0 {
				break
			}
			d.Script = append(d.Script, commit(ev()))
			matched++
			i++
		}
	}
	// answer the winner's task, then late deliveries of (losing) events
	d.Script = append(d.Script, drive.Stim{Kind: "answer"})
	nl := rapid.IntRange(0, maxLate).Draw(rt, "late")
	for i := 0; i < nl; i++ {
		d.Script = append(d.Script, commit(ev()))
	}
	if maxLate > 0 && rapid.IntRange(0, 2).Draw(rt, "loop") == 0 {
		// re-entry: whenever alternative 0 wins the token returns to the gateway;
		// further rounds of events and answers
		d.Loop = true
		for i := rapid.IntRange(1, 4).Draw(rt, "rounds"); i > 0; i-- {
			d.Script = append(d.Script, drive.Stim{Kind: "answer"}, commit(ev()))
		}
		if d.Alts[1].Kind != "timer" {
			d.Script = append(d.Script, drive.Stim{Kind: "answer"}, drive.Stim{Kind: "event", Ev: evOf(d.Alts[1])})
		}
		d.Script = append(d.Script, drive.Stim{Kind: "answer"})
	}
	return d
}

func run(d descriptor) *drive.ScriptOutcome {
	c := &drive.ScriptCase{Graph: build(d), Lang: "expr", Script: d.Script, Perturb: d.Perturb, PerturbSites: []string{"ebg.cas", "tracer.send"}, Drain: true, MockClock: d.Timer}
	return drive.RunScript(c)
}

func classify(d descriptor, out *drive.ScriptOutcome) (cls []string, nt bool) {
	distinct := map[string]bool{}
	concurrent, late := false, 0
	afterAnswer, timerRace := false, false
	answers := 0
	for _, s := range d.Script {
		switch s.Kind {
		case "event", "clock":
			if s.Ev != nil && s.Ev.Ref != "zz" {
				distinct[s.Ev.Ref] = true
				if afterAnswer {
					late++
				}
			}
		case "burst":
			m := 0
			for _, b := range s.Burst {
				if b.Ev != nil && b.Ev.Ref != "zz" {
					distinct[b.Ev.Ref] = true
					m++
					if b.Kind == "clock" {
						timerRace = true
					}
				}
			}
			if m >= 2 {
				concurrent = true
			}
		case "answer":
			answers++
			if (d.PreTask && answers == 2) || (!d.PreTask && answers == 1) {
				afterAnswer = true
			}
		}
	}
	cls = append(cls, fmt.Sprintf("alts=%d", len(d.Alts)))
	if d.Flood {
		cls = append(cls, "floodBeforeTheDecidingEvent")
	}
	if d.Loop {
		cls = append(cls, "loopBackToGateway")
		if out != nil && len(out.Fired) >= 2 {
			cls = append(cls, "gatewayDecidedTwice")
		}
	}
	if concurrent {
		cls = append(cls, "concurrentEvents")
	}
	if d.Timer {
		cls = append(cls, "timerAlternative")
	}
	if d.InSub > 0 {
		cls = append(cls, "insideSubProcess")
	}
	if d.IncMerge {
		cls = append(cls, "inclusiveMerge")
	}
	if d.TwoTokens {
		cls = append(cls, "twoTokensAtTheGateway")
	}
	if timerRace {
		cls = append(cls, "timerDueDuringConcurrentDelivery")
	}
	if late > 0 {
		cls = append(cls, "lateLosingDelivery")
	}
	if out != nil && out.BurstRaces > 0 {
		cls = append(cls, "raceWithTwoOutcomes")
	}
	nt = len(distinct) >= 2 && (concurrent || late > 0)
	return
}

func TestC06EventGateway(t *testing.T) {
	var rd descriptor
	if ok, err := rec.ReplayInput(&rd); ok {
		if err != nil {
			t.Fatal(err)
		}
		fails := 0
		for i := 0; i < 20; i++ {
			out := run(rd)
			if out.Symptom != "" {
				fails++
				if fails == 1 {
					fmt.Printf("REPRODUCED %s: %s\n", out.Symptom, out.Detail)
				}
			}
		}
		if fails > 0 {
			t.Fatalf("reproduced in %d of 20 runs", fails)
		}
		return
	}
	rapid.Check(t, func(rt *rapid.T) {
		d := draw(rt)
		hash := rec.Hash(d)
		rec.Begin("TestC06EventGateway", hash, d)
		out := run(d)
		if out.Inconcl != "" {
			rec.End(hash, "inconclusive")
			rec.Inconclusive("TestC06EventGateway", out.Inconcl)
			rt.Fatalf("inconclusive: %s", out.Inconcl)
		}
		rec.End(hash, out.Symptom)
		cls, nt := classify(d, out)
		rec.Case("TestC06EventGateway", hash, nt, cls, map[string]any{"case": d, "steps": out.Steps})
		if out.Symptom == "" {
			return
		}
		rt.Fatalf("%s", rec.Fail(rec.Failure{Property: prop, Test: "TestC06EventGateway", Symptom: out.Symptom, Detail: out.Detail, Descriptor: d,
			History: map[string]any{"steps": out.Steps, "traces": out.Traces, "xml": out.XML}, Goroutines: out.Gs}))
	})
}
