package c13

// TestC13Many: many timers fall due at the SAME clock instant. A parallel
// fork sends one token each to N timer catch events (duration timers with the
// same due time, 4..24 of them, optionally beside 1..2 that are due later);
// one clock jump reaches the due time: every one of the N catch events
// continues exactly once (one task request behind each), the later ones do
// not - and do when the clock reaches their time.

import (
	"fmt"
	"sort"
	"testing"
	"time"

	"pgregory.net/rapid"

	"verif/harness/drive"
	"verif/harness/gen"
	"verif/harness/rec"
)

type manyDesc struct {
	N     int `json:"n"`     // timers due after 10 s
	Later int `json:"later"` // timers due after 30 s
	JumpS int `json:"jumpS"` // the first jump (10..25 s)
}

func runMany(d manyDesc) (sym, det, inconcl string) {
	b := gen.NewB()
	st := b.Add(gen.KStart)
	f := b.Add(gen.KPar)
	b.Connect(st, f)
	var first, later []string
	add := func(expr string, into *[]string) {
		c := b.Add(gen.KCatch)
		c.Defs = []gen.EventDef{{Kind: "timer", TimerKind: "timeDuration", TimerExpr: expr}}
		t := b.Add(gen.KTask)
		en := b.Add(gen.KEnd)
		b.Connect(f, c)
		b.Connect(c, t)
		b.Connect(t, en)
		*into = append(*into, t.ID)
	}
	for i := 0; i < d.N; i++ {
		add("PT10S", &first)
	}
	for i := 0; i < d.Later; i++ {
		add("PT30S", &later)
	}
	prog := &gen.Program{G: b.G, DefaultLang: "expr"}
	in, err := drive.New(prog.XML(), drive.Options{MockClock: true})
	if err != nil {
		return "construct", err.Error(), ""
	}
	defer in.Close()
	if err := in.StartAll(); err != nil {
		return "start-error", err.Error(), ""
	}
	if _, err := in.Quiesce(); err != nil {
		return "", "", err.Error()
	}
	if ts := in.NewTasks(); len(ts) != 0 {
		return "early", fmt.Sprintf("%d task requests before the clock moved", len(ts)), ""
	}
	requested := func() []string {
		var ids []string
		for _, tt := range in.NewTasks() {
			id, _ := tt.GetActivity().Element().Id()
			ids = append(ids, *id)
			tt.Do()
		}
		sort.Strings(ids)
		return ids
	}
	in.Clock.Add(time.Duration(d.JumpS) * time.Second)
	if _, err := in.Quiesce(); err != nil {
		return "", "", err.Error()
	}
	sort.Strings(first)
	if got := requested(); fmt.Sprint(got) != fmt.Sprint(first) {
		return "count", fmt.Sprintf("%d timers fell due at the same instant (clock +%ds): the catch events that continued lead to %v, want every one of %v", d.N, d.JumpS, got, first), ""
	}
	in.Clock.Add(30 * time.Second)
	if _, err := in.Quiesce(); err != nil {
		return "", "", err.Error()
	}
	sort.Strings(later)
	if got := requested(); fmt.Sprint(got) != fmt.Sprint(later) {
		return "count", fmt.Sprintf("second jump: continued %v, want %v", got, later), ""
	}
	return "", "", ""
}

func TestC13Many(t *testing.T) {
	var rd manyDesc
	if ok, err := rec.ReplayInput(&rd); ok {
		if err != nil {
			t.Fatal(err)
		}
		if rd.N == 0 {
			return
		}
		fails := 0
		for i := 0; i < 5; i++ {
			if s, dd, _ := runMany(rd); s != "" {
				fails++
				if fails == 1 {
					fmt.Printf("REPRODUCED %s: %s\n", s, dd)
				}
			}
		}
		if fails > 0 {
			t.Fatalf("reproduced in %d of 5 runs", fails)
		}
		return
	}
	rapid.Check(t, func(rt *rapid.T) {
		d := manyDesc{N: rapid.SampledFrom([]int{4, 5, 8, 12, 24}).Draw(rt, "n"), Later: rapid.IntRange(0, 2).Draw(rt, "later"), JumpS: rapid.SampledFrom([]int{10, 11, 25}).Draw(rt, "jump")}
		hash := rec.Hash(d) + fmt.Sprint(rapid.IntRange(0, 1<<30).Draw(rt, "round"))
		rec.Begin("TestC13Many", hash, d)
		s, dd, inc := runMany(d)
		if inc != "" {
			rec.End(hash, "inconclusive")
			rec.Inconclusive("TestC13Many", inc)
			rt.Fatalf("inconclusive: %s", inc)
		}
		rec.End(hash, s)
		rec.Case("TestC13Many", hash, d.N >= 8, []string{fmt.Sprintf("timersDueTogether=%d", d.N)}, d)
		if s != "" {
			rt.Fatalf("%s", rec.Fail(rec.Failure{Property: prop, Test: "TestC13Many", Symptom: s, Detail: dd, Descriptor: d}))
		}
	})
}
