package c13

// TestC13FarDates: date timers whose due date lies years to millennia away from
// the clock's current time (time.Duration covers only about 292 years, so any
// arithmetic on "time until due" saturates), and clock jumps of that size.
// Reference: a date timer fires exactly once, at the first clock value that is
// not before its due date (at creation if the date is already past), never
// earlier; its channel is closed after the firing.

import (
	"context"
	"fmt"
	"sync"
	"testing"
	"time"

	"github.com/olive-io/bpmn/v2/pkg/clock"
	"github.com/olive-io/bpmn/v2/pkg/timer"
	"pgregory.net/rapid"

	"verif/harness/gen"
	"verif/harness/quiesce"
	"verif/harness/rec"
)

type farDesc struct {
	DueDays int   `json:"dueDays"` // due date = base + DueDays days (may be negative)
	Steps   []int `json:"steps"`   // clock values: base + Steps[i] days (any order: the clock may jump back)
}

func dayAt(days int) time.Time { return base.AddDate(0, 0, days) }

func runFar(d farDesc) (sym, det, inconcl string) {
	due := dayAt(d.DueDays)
	td, err := parseDef(gen.EventDef{Kind: "timer", TimerKind: "timeDate", TimerExpr: rfc(due)})
	if err != nil {
		return "construct", err.Error(), ""
	}
	tr := quiesce.Begin()
	mock := clock.NewMockAt(base)
	ctx, cancel := context.WithCancel(context.Background())
	defer cancel()
	ch, err := timer.New(ctx, mock, *td)
	if err != nil {
		return "construct", fmt.Sprintf("timeDate %s: %v", rfc(due), err), ""
	}
	var mu sync.Mutex
	got, closed := 0, false
	stop := make(chan struct{})
	defer close(stop)
	go func() {
		for {
			select {
			case _, ok := <-ch:
				mu.Lock()
				if !ok {
					closed = true
					mu.Unlock()
					return
				}
				got++
				mu.Unlock()
			case <-stop:
				return
			}
		}
	}()
	fired := false
	check := func(stage string, now time.Time) (string, string, string) {
		if _, err := tr.Wait(0); err != nil {
			return "", "", err.Error()
		}
		if !now.Before(due) {
			fired = true
		}
		want := 0
		if fired {
			want = 1
		}
		mu.Lock()
		g, c := got, closed
		mu.Unlock()
		if g > want {
			return "early-or-extra", fmt.Sprintf("timeDate %s, %s (clock %s): %d values received, want %d", rfc(due), stage, rfc(now), g, want), ""
		}
		if g < want {
			return "count", fmt.Sprintf("timeDate %s, %s (clock %s): %d values received, want %d", rfc(due), stage, rfc(now), g, want), ""
		}
		if fired && !c {
			return "not-closed", fmt.Sprintf("timeDate %s, %s: channel not closed after the firing", rfc(due), stage), ""
		}
		return "", "", ""
	}
	if s, dd, inc := check("created", base); s != "" || inc != "" {
		return s, dd, inc
	}
	for i, st := range d.Steps {
		now := dayAt(st)
		mock.Set(now)
		if s, dd, inc := check(fmt.Sprintf("step %d", i), now); s != "" || inc != "" {
			return s, dd, inc
		}
	}
	return "", "", ""
}

func TestC13FarDates(t *testing.T) {
	var rd farDesc
	if ok, err := rec.ReplayInput(&rd); ok {
		if err != nil {
			t.Fatal(err)
		}
		if rd.DueDays == 0 && len(rd.Steps) == 0 {
			return
		}
		if s, dd, _ := runFar(rd); s != "" {
			fmt.Printf("REPRODUCED %s: %s\n", s, dd)
			t.Fatalf("%s", s)
		}
		return
	}
	// magnitudes: days, decades, around the 292-year horizon of time.Duration, millennia (RFC 3339 ends at year 9999)
	mags := []int{1, 400, 36500, 106000, 106752, 107000, 150000, 365000, 2900000}
	rapid.Check(t, func(rt *rapid.T) {
		pick := func(label string) int {
			m := rapid.SampledFrom(mags).Draw(rt, label)
			return m + rapid.IntRange(-3, 3).Draw(rt, label+"Delta")
		}
		d := farDesc{DueDays: pick("due")}
		if rapid.IntRange(0, 9).Draw(rt, "past") == 0 {
			d.DueDays = -d.DueDays % 3000000
			if d.DueDays < -730000 {
				d.DueDays = -730000 // year 0031
			}
		}
		for i := rapid.IntRange(1, 5).Draw(rt, "steps"); i > 0; i-- {
			switch rapid.IntRange(0, 3).Draw(rt, "stepKind") {
			case 0:
				d.Steps = append(d.Steps, d.DueDays+rapid.IntRange(-2, 2).Draw(rt, "near"))
			default:
				d.Steps = append(d.Steps, pick("step"))
			}
		}
		for i := range d.Steps {
			if d.Steps[i] < 0 {
				d.Steps[i] = 0
			}
		}
		hash := rec.Hash(d)
		rec.Begin("TestC13FarDates", hash, d)
		s, dd, inc := runFar(d)
		if inc != "" {
			rec.End(hash, "inconclusive")
			rec.Inconclusive("TestC13FarDates", inc)
			rt.Fatalf("inconclusive: %s", inc)
		}
		rec.End(hash, s)
		beyond := d.DueDays > 106751
		cls := []string{}
		if beyond {
			cls = append(cls, "dueBeyondDurationRange")
		}
		rec.Case("TestC13FarDates", hash, beyond, cls, d)
		if s != "" {
			rt.Fatalf("%s", rec.Fail(rec.Failure{Property: prop, Test: "TestC13FarDates", Symptom: s, Detail: dd, Descriptor: d}))
		}
	})
}
