package c13

import (
	"context"
	"fmt"
	"sync"
	"testing"
	"time"

	"github.com/olive-io/bpmn/schema"
	bpmn "github.com/olive-io/bpmn/v2"
	"github.com/olive-io/bpmn/v2/pkg/clock"
	"github.com/olive-io/bpmn/v2/pkg/event"
	"github.com/olive-io/bpmn/v2/pkg/timer"
	"github.com/olive-io/bpmn/v2/pkg/tracing"
	"pgregory.net/rapid"

	"verif/harness/drive"
	"verif/harness/gen"
	"verif/harness/model"
	"verif/harness/quiesce"
	"verif/harness/rec"
)

const prop = "C13"

var base = time.Date(2030, 1, 1, 0, 0, 0, 0, time.UTC)

// timerDef describes a timer definition relative to base (offsets in seconds).
type timerDef struct {
	Kind     string `json:"kind"` // date | duration | cycle
	DueS     int    `json:"dueS"` // date: base+DueS ; duration: DueS seconds
	Reps     int    `json:"reps"` // cycle: -1 unbounded
	StartS   int    `json:"startS"`
	HasStart bool   `json:"hasStart"`
	EveryS   int    `json:"everyS"`
	EndS     int    `json:"endS"`
	HasEnd   bool   `json:"hasEnd"`
	Unit     string `json:"unit"` // S | M | H  (how the duration is written)
}

func durText(sec int, unit string) (string, int) {
	switch unit {
	case "M":
		m := (sec + 59) / 60
		if m == 0 {
			m = 1
		}
		return fmt.Sprintf("PT%dM", m), m * 60
	case "H":
		h := (sec + 3599) / 3600
		if h == 0 {
			h = 1
		}
		return fmt.Sprintf("PT%dH", h), h * 3600
	}
	return fmt.Sprintf("PT%dS", sec), sec
}

func rfc(t time.Time) string { return t.Format(time.RFC3339) }

// render returns the gen.EventDef and the effective parameters (seconds).
func (d *timerDef) render() gen.EventDef {
	switch d.Kind {
	case "date":
		return gen.EventDef{Kind: "timer", TimerKind: "timeDate", TimerExpr: rfc(base.Add(time.Duration(d.DueS) * time.Second))}
	case "duration":
		txt, eff := durText(d.DueS, d.Unit)
		d.DueS = eff
		return gen.EventDef{Kind: "timer", TimerKind: "timeDuration", TimerExpr: txt}
	}
	r := "R"
	if d.Reps >= 0 {
		r = fmt.Sprintf("R%d", d.Reps)
	}
	switch {
	case d.HasStart && d.HasEnd:
		// R/start/end : the interval is end-start
		d.EveryS = d.EndS - d.StartS
		return gen.EventDef{Kind: "timer", TimerKind: "timeCycle", TimerExpr: fmt.Sprintf("%s/%s/%s", r, rfc(base.Add(time.Duration(d.StartS)*time.Second)), rfc(base.Add(time.Duration(d.EndS)*time.Second)))}
	case d.HasStart:
		txt, eff := durText(d.EveryS, d.Unit)
		d.EveryS = eff
		return gen.EventDef{Kind: "timer", TimerKind: "timeCycle", TimerExpr: fmt.Sprintf("%s/%s/%s", r, rfc(base.Add(time.Duration(d.StartS)*time.Second)), txt)}
	case d.HasEnd:
		txt, eff := durText(d.EveryS, d.Unit)
		d.EveryS = eff
		return gen.EventDef{Kind: "timer", TimerKind: "timeCycle", TimerExpr: fmt.Sprintf("%s/%s/%s", r, txt, rfc(base.Add(time.Duration(d.EndS)*time.Second)))}
	}
	txt, eff := durText(d.EveryS, d.Unit)
	d.EveryS = eff
	return gen.EventDef{Kind: "timer", TimerKind: "timeCycle", TimerExpr: fmt.Sprintf("%s/%s", r, txt)}
}

// step of a clock history: set the clock to base+AtNS nanoseconds, or cancel.
type step struct {
	Cancel bool  `json:"cancel"`
	AtNS   int64 `json:"atNs"`
	// Then > 0: two jumps in quick succession - the clock is set to AtNS and at
	// once on to Then, before anybody can look at it in between (a timer that
	// was woken by the first jump finds the clock at Then). Generated for cycle
	// timers with an end bound, AtNS before and Then at or after that bound:
	// whatever was due at AtNS, nothing may fire any more.
	Then int64 `json:"then,omitempty"`
}

// gateClock is the mock clock behind a gate: while two jumps are made in one
// go nobody can read the clock or arm a timer.
type gateClock struct {
	m    *clock.Mock
	gate sync.RWMutex
}

func (g *gateClock) Now() time.Time {
	g.gate.RLock()
	defer g.gate.RUnlock()
	return g.m.Now()
}
func (g *gateClock) After(d time.Duration) <-chan time.Time {
	g.gate.RLock()
	defer g.gate.RUnlock()
	return g.m.After(d)
}
func (g *gateClock) Until(t time.Time) <-chan time.Time {
	g.gate.RLock()
	defer g.gate.RUnlock()
	return g.m.Until(t)
}
func (g *gateClock) Changes() <-chan time.Time { return g.m.Changes() }
func (g *gateClock) jumpTwice(a, b time.Time) {
	g.gate.Lock()
	defer g.gate.Unlock()
	g.m.Set(a)
	g.m.Set(b)
}

type descriptor struct {
	Def   timerDef `json:"def"`
	Steps []step   `json:"steps"`
}

// refTimer is the reference model of the documented semantics.
type refTimer struct {
	d         timerDef
	created   time.Time
	started   bool
	last      time.Time
	reps      int
	fired     int
	closed    bool
	cancelled bool
}

func newRef(d timerDef, created time.Time) *refTimer {
	return &refTimer{d: d, created: created, reps: d.Reps}
}

func sec(n int) time.Duration { return time.Duration(n) * time.Second }

// advance applies "the clock now shows now" and returns how many values fire.
func (r *refTimer) advance(now time.Time) int {
	if r.closed || r.cancelled {
		return 0
	}
	n := 0
	switch r.d.Kind {
	case "date", "duration":
		due := base.Add(sec(r.d.DueS))
		if r.d.Kind == "duration" {
			due = r.created.Add(sec(r.d.DueS))
		}
		if !now.Before(due) {
			r.fired++
			r.closed = true
			return 1
		}
		return 0
	}
	start := r.created
	if r.d.HasStart {
		start = base.Add(sec(r.d.StartS))
	}
	if !r.started {
		if now.Before(start) {
			return 0
		}
		r.started = true
		r.last = start
	}
	for {
		if r.reps == 0 {
			r.closed = true
			return n
		}
		if r.d.HasEnd && !now.Before(base.Add(sec(r.d.EndS))) {
			r.closed = true
			return n
		}
		due := r.last.Add(sec(r.d.EveryS))
		if now.Before(due) {
			return n
		}
		r.last = now
		r.fired++
		n++
		if r.reps > 0 {
			r.reps--
		}
	}
}

type result struct {
	Symptom, Detail               string
	Inconcl                       string
	Log                           []string
	Exact, Beyond2, CancelBetween bool
	Twice                         bool // two jumps in one go (over a tick and past the end bound)
}

func parseDef(ed gen.EventDef) (*schema.TimerEventDefinition, error) {
	b := gen.NewB()
	st := b.Add(gen.KStart)
	c := b.Add(gen.KCatch)
	c.Defs = []gen.EventDef{ed}
	en := b.Add(gen.KEnd)
	b.Connect(st, c)
	b.Connect(c, en)
	p := &gen.Program{G: b.G, DefaultLang: "expr"}
	defs, err := schema.Parse([]byte(p.XML()))
	if err != nil {
		return nil, err
	}
	el, ok := defs.FindBy(schema.ExactId(c.ID + "_d0"))
	if !ok {
		return nil, fmt.Errorf("timer definition not found")
	}
	return el.(*schema.TimerEventDefinition), nil
}

func runUnit(d descriptor) *result {
	r := &result{}
	def := d.Def
	ed := def.render()
	td, err := parseDef(ed)
	if err != nil {
		r.Symptom, r.Detail = "construct", err.Error()
		return r
	}
	tr := quiesce.Begin()
	mock := clock.NewMockAt(base)
	ctx, cancel := context.WithCancel(context.Background())
	defer cancel()
	gated := &gateClock{m: mock}
	ch, err := timer.New(ctx, gated, *td)
	if err != nil {
		r.Symptom, r.Detail = "construct", fmt.Sprintf("%s %s: %v", ed.TimerKind, ed.TimerExpr, err)
		return r
	}
	var mu sync.Mutex
	got, closed := 0, false
	var at []time.Time
	// (a cancelled timer does not close its channel: the reader ends with the case)
	stop := make(chan struct{})
	defer close(stop)
	go func() {
		for {
			select {
			case _, ok := <-ch:
				if !ok {
					mu.Lock()
					closed = true
					mu.Unlock()
					return
				}
				mu.Lock()
				got++
				at = append(at, mock.Now())
				mu.Unlock()
			case <-stop:
				return
			}
		}
	}()
	ref := newRef(def, base)
	want := ref.advance(base)
	total := want
	check := func(stage string, now time.Time) bool {
		if _, err := tr.Wait(0); err != nil {
			r.Inconcl = err.Error()
			return false
		}
		mu.Lock()
		g, c := got, closed
		mu.Unlock()
		r.Log = append(r.Log, fmt.Sprintf("%s now=base+%v fired=%d (model %d) closed=%v (model %v)", stage, now.Sub(base), g, total, c, ref.closed))
		if g != total {
			sym := "count"
			if g > total {
				sym = "early-or-extra"
			}
			r.Symptom, r.Detail = sym, fmt.Sprintf("%s %s, %s: %d values received, reference model %d", ed.TimerKind, ed.TimerExpr, stage, g, total)
			return false
		}
		if ref.closed && !ref.cancelled && !c {
			r.Symptom, r.Detail = "not-closed", fmt.Sprintf("%s %s, %s: channel not closed after the last firing", ed.TimerKind, ed.TimerExpr, stage)
			return false
		}
		if c && !ref.closed && !ref.cancelled {
			r.Symptom, r.Detail = "closed-early", fmt.Sprintf("%s %s, %s: channel closed although the definition allows further firings", ed.TimerKind, ed.TimerExpr, stage)
			return false
		}
		return true
	}
	if !check("created", base) {
		return r
	}
	prevFired := total
	for i, s := range d.Steps {
		if s.Cancel {
			cancel()
			ref.cancelled = true
			if prevFired > 0 && !ref.closed {
				r.CancelBetween = true
			}
			if !check(fmt.Sprintf("step %d cancel", i), mock.Now()) {
				return r
			}
			continue
		}
		now := base.Add(time.Duration(s.AtNS))
		before := ref.fired
		// classification: exactly on a due time / beyond >= 2 due times
		if def.Kind == "cycle" && ref.started && def.EveryS > 0 {
			due := ref.last.Add(sec(def.EveryS))
			if now.Equal(due) {
				r.Exact = true
			}
			if !now.Before(due.Add(sec(def.EveryS))) {
				r.Beyond2 = true
			}
		} else if def.Kind != "cycle" {
			due := base.Add(sec(def.DueS))
			if now.Equal(due) {
				r.Exact = true
			}
		}
		if s.Then > 0 {
			then := base.Add(time.Duration(s.Then))
			gated.jumpTwice(now, then)
			now = then
			r.Twice = true
		} else {
			mock.Set(now)
		}
		total += ref.advance(now)
		if !check(fmt.Sprintf("step %d set", i), now) {
			return r
		}
		if ref.fired > before {
			prevFired = ref.fired
		}
	}
	// successive firings at least one interval of clock time apart
	mu.Lock()
	defer mu.Unlock()
	if def.Kind == "cycle" {
		for i := 1; i < len(at); i++ {
			if at[i].Sub(at[i-1]) < sec(def.EveryS) {
				r.Symptom, r.Detail = "too-close", fmt.Sprintf("%s: firings %d and %d are %v apart, interval %ds", ed.TimerExpr, i-1, i, at[i].Sub(at[i-1]), def.EveryS)
				return r
			}
		}
	}
	return r
}

func drawDef(rt *rapid.T) timerDef {
	d := timerDef{Unit: rapid.SampledFrom([]string{"S", "S", "M", "H"}).Draw(rt, "unit")}
	switch rapid.IntRange(0, 3).Draw(rt, "kind") {
	case 0:
		d.Kind = "date"
		d.DueS = rapid.IntRange(0, 7200).Draw(rt, "due")
	case 1:
		d.Kind = "duration"
		d.DueS = rapid.IntRange(1, 7200).Draw(rt, "due")
	default:
		d.Kind = "cycle"
		d.Reps = rapid.SampledFrom([]int{-1, 0, 1, 2, 3}).Draw(rt, "reps")
		d.EveryS = rapid.IntRange(1, 3600).Draw(rt, "every")
		d.HasStart = rapid.Bool().Draw(rt, "hasStart")
		if d.HasStart {
			d.StartS = rapid.IntRange(0, 3600).Draw(rt, "start")
		}
		d.HasEnd = rapid.IntRange(0, 2).Draw(rt, "hasEnd") == 0
		if d.HasEnd {
			d.EndS = d.StartS + rapid.IntRange(1, 4*3600).Draw(rt, "end")
		}
	}
	return d
}

// dueGrid lists interesting instants (ns offsets from base) for a definition.
func dueGrid(d timerDef) []int64 {
	var g []int64
	add := func(s int) {
		ns := int64(s) * int64(time.Second)
		g = append(g, ns-1, ns, ns+1)
	}
	switch d.Kind {
	case "date", "duration":
		add(d.DueS)
	default:
		for k := 0; k <= 4; k++ {
			add(d.StartS + k*d.EveryS)
		}
		if d.HasEnd {
			add(d.EndS)
		}
	}
	return g
}

func drawSteps(rt *rapid.T, d timerDef) []step {
	// render once to obtain the effective (rounded) parameters
	dd := d
	dd.render()
	grid := dueGrid(dd)
	n := rapid.IntRange(1, 6).Draw(rt, "steps")
	var out []step
	cur := int64(0)
	for i := 0; i < n; i++ {
		switch rapid.IntRange(0, 9).Draw(rt, "stepKind") {
		case 0:
			out = append(out, step{Cancel: true})
		case 1:
			// far beyond
			cur += int64(rapid.IntRange(1, 10).Draw(rt, "hours")) * int64(time.Hour)
			out = append(out, step{AtNS: cur})
		case 2:
			// backwards
			cur -= int64(rapid.IntRange(1, 3600).Draw(rt, "back")) * int64(time.Second)
			if cur < 0 {
				cur = 0
			}
			out = append(out, step{AtNS: cur})
		case 3, 4:
			// relative small advance
			cur += int64(rapid.IntRange(1, 4000).Draw(rt, "adv")) * int64(time.Second)
			out = append(out, step{AtNS: cur})
		case 5:
			if dd.Kind == "cycle" && dd.HasEnd {
				// two jumps in one go: onto (or just past) a tick before the end
				// bound, and on to the end bound or beyond
				end := int64(dd.EndS) * int64(time.Second)
				k := rapid.IntRange(1, 4).Draw(rt, "tick")
				t1 := int64(dd.StartS+k*dd.EveryS)*int64(time.Second) + int64(rapid.IntRange(0, 1).Draw(rt, "past"))
				if t1 > 0 && t1 < end {
					cur = end + int64(rapid.IntRange(0, 3).Draw(rt, "beyond"))*int64(time.Second)
					out = append(out, step{AtNS: t1, Then: cur})
					continue
				}
			}
			fallthrough
		default:
			g := grid[rapid.IntRange(0, len(grid)-1).Draw(rt, "grid")]
			if g < 0 {
				g = 0
			}
			cur = g
			out = append(out, step{AtNS: cur})
		}
	}
	return out
}

func TestC13Unit(t *testing.T) {
	var rd descriptor
	if ok, err := rec.ReplayInput(&rd); ok {
		if err != nil {
			t.Fatal(err)
		}
		r := runUnit(rd)
		if r.Symptom != "" {
			fmt.Printf("REPRODUCED %s: %s\n", r.Symptom, r.Detail)
			t.Fatalf("%s", r.Symptom)
		}
		return
	}
	rapid.Check(t, func(rt *rapid.T) {
		def := drawDef(rt)
		d := descriptor{Def: def, Steps: drawSteps(rt, def)}
		hash := rec.Hash(d)
		rec.Begin("TestC13Unit", hash, d)
		r := runUnit(d)
		if r.Inconcl != "" {
			rec.End(hash, "inconclusive")
			rec.Inconclusive("TestC13Unit", r.Inconcl)
			rt.Fatalf("inconclusive: %s", r.Inconcl)
		}
		rec.End(hash, r.Symptom)
		cls := []string{"kind=" + def.Kind}
		if r.Exact {
			cls = append(cls, "exactlyOnDue")
		}
		if r.Beyond2 {
			cls = append(cls, "jumpBeyond2Dues")
		}
		if r.CancelBetween {
			cls = append(cls, "cancelBetweenFirings")
		}
		if def.HasEnd {
			cls = append(cls, "endBound")
		}
		if r.Twice {
			cls = append(cls, "twoJumpsInOneGo")
		}
		rec.Case("TestC13Unit", hash, r.Exact || r.Beyond2 || r.CancelBetween || r.Twice, cls, map[string]any{"case": d, "log": r.Log})
		if r.Symptom != "" {
			rt.Fatalf("%s", rec.Fail(rec.Failure{Property: prop, Test: "TestC13Unit", Symptom: r.Symptom, Detail: r.Detail, Descriptor: d, History: r.Log}))
		}
	})
}

// ---------------------------------------------------------------------------
// process level: start -> timer catch event -> task -> end, with the timer
// event definition instance builder and a mock clock.

type pdesc struct {
	Def      timerDef `json:"def"`
	PreTask  bool     `json:"preTask"` // the catch event is armed only after this task is answered
	Steps    []step   `json:"steps"`
	AnswerAt int      `json:"answerAt"` // index of the step before which the pre-task is answered
	// Depth: the pre-task, the catch event and the task behind it sit inside
	// 0..3 nested embedded sub-processes that hold nothing else (start ->
	// sub-process -> end at every level): the timer's firing has to reach the
	// listening catch event through every level
	Depth int `json:"depth,omitempty"`
}

func runProcess(d pdesc) *result {
	r := &result{}
	def := d.Def
	ed := def.render()
	b := gen.NewB()
	st := b.Add(gen.KStart)
	cur := st
	rootB := b
	for lvl := 0; lvl < d.Depth; lvl++ {
		sp := b.Add(gen.KSub)
		spEnd := b.Add(gen.KEnd)
		b.Connect(cur, sp)
		b.Connect(sp, spEnd)
		ib := b.Sub()
		sp.Inner = ib.G
		b = ib
		cur = b.Add(gen.KStart)
	}
	var pre *gen.Node
	if d.PreTask {
		pre = b.Add(gen.KTask)
		b.Connect(cur, pre)
		cur = pre
	}
	c := b.Add(gen.KCatch)
	c.Defs = []gen.EventDef{ed}
	b.Connect(cur, c)
	after := b.Add(gen.KTask)
	b.Connect(c, after)
	en := b.Add(gen.KEnd)
	b.Connect(after, en)
	p := &gen.Program{G: rootB.G, DefaultLang: "expr"}
	defs, err := schema.Parse([]byte(p.XML()))
	if err != nil {
		r.Symptom, r.Detail = "construct", err.Error()
		return r
	}
	tr := quiesce.Begin()
	mock := clock.NewMockAt(base)
	root, cancel := context.WithCancel(context.Background())
	defer cancel()
	ctx := clock.ToContext(root, mock)
	fan := event.NewFanOut()
	tracer := tracing.NewTracer(ctx)
	builder := event.DefinitionInstanceBuildingChain(timer.EventDefinitionInstanceBuilder(ctx, fan, tracer))
	sub := tracer.SubscribeChannel(make(chan tracing.ITrace))
	var mu sync.Mutex
	var tasks []bpmn.TaskTrace
	listening := false
	go func() {
		for t := range sub {
			u := tracing.Unwrap(t)
			mu.Lock()
			switch x := u.(type) {
			case bpmn.TaskTrace:
				tasks = append(tasks, x)
			case bpmn.ActiveListeningTrace:
				listening = true
			}
			mu.Unlock()
		}
	}()
	proc, err := bpmn.NewEngine().NewProcess(defs, bpmn.WithContext(ctx), bpmn.WithTracer(tracer),
		bpmn.WithProcessEventDefinitionInstanceBuilder(builder), bpmn.WithEventEgress(fan), bpmn.WithEventIngress(fan))
	if err != nil {
		r.Symptom, r.Detail = "construct", err.Error()
		return r
	}
	if err := proc.StartAll(ctx); err != nil {
		r.Symptom, r.Detail = "start", err.Error()
		return r
	}
	ref := newRef(def, base)
	ref.advance(base)
	wait := func() bool {
		if _, err := tr.Wait(0); err != nil {
			r.Inconcl = err.Error()
			return false
		}
		return true
	}
	if !wait() {
		return r
	}
	afterID := after.ID
	countAfter := func() int {
		mu.Lock()
		defer mu.Unlock()
		n := 0
		for _, tt := range tasks {
			if id, _ := tt.GetActivity().Element().Id(); *id == afterID {
				n++
			}
		}
		return n
	}
	armed := !d.PreTask
	released := 0 // model: continuations of the catch event (at most one token is ever waiting)
	consumed := false
	// a firing counts for the catch event only if it is listening at that moment
	apply := func(fires int) {
		if fires > 0 && armed && !consumed {
			released = 1
			consumed = true
		}
	}
	// firings at creation time happen before the token can arrive: not listened for
	if !wait() {
		return r
	}
	answerPre := func() bool {
		mu.Lock()
		var pt bpmn.TaskTrace
		for _, tt := range tasks {
			if id, _ := tt.GetActivity().Element().Id(); pre != nil && *id == pre.ID {
				pt = tt
			}
		}
		mu.Unlock()
		if pt == nil {
			r.Symptom, r.Detail = "pre-task", "pre task was not requested"
			return false
		}
		pt.Do()
		if !wait() {
			return false
		}
		armed = true
		return true
	}
	for i, s := range d.Steps {
		if d.PreTask && !armed && i == d.AnswerAt {
			if !answerPre() {
				return r
			}
		}
		if s.Cancel {
			continue
		}
		now := base.Add(time.Duration(s.AtNS))
		mock.Set(now)
		fires := ref.advance(now)
		apply(fires)
		if !wait() {
			return r
		}
		got := countAfter()
		r.Log = append(r.Log, fmt.Sprintf("step %d now=base+%v timerFires=%d armed=%v downstream=%d (model %d)", i, now.Sub(base), fires, armed, got, released))
		if got != released {
			r.Symptom, r.Detail = "continuation", fmt.Sprintf("%s %s: after step %d the task behind the timer catch event was requested %d times, model %d (armed=%v, timer firings this step %d)", ed.TimerKind, ed.TimerExpr, i, got, released, armed, fires)
			return r
		}
	}
	_ = listening
	return r
}

func TestC13Process(t *testing.T) {
	var rd pdesc
	if ok, err := rec.ReplayInput(&rd); ok {
		if err != nil {
			t.Fatal(err)
		}
		r := runProcess(rd)
		if r.Symptom != "" {
			fmt.Printf("REPRODUCED %s: %s\n", r.Symptom, r.Detail)
			t.Fatalf("%s", r.Symptom)
		}
		return
	}
	rapid.Check(t, func(rt *rapid.T) {
		def := drawDef(rt)
		if def.Kind == "date" && def.DueS == 0 {
			// a timer already due when the instance is built fires while the
			// token is on its way to the catch event: whether it was
			// "listening" is a race the statement does not decide
			def.DueS = 1
		}
		var steps []step
		for _, s := range drawSteps(rt, def) {
			if !s.Cancel {
				steps = append(steps, s)
			}
		}
		d := pdesc{Def: def, PreTask: rapid.Bool().Draw(rt, "pre"), Steps: steps, Depth: rapid.SampledFrom([]int{0, 0, 1, 2, 3}).Draw(rt, "depth")}
		if len(steps) > 0 {
			d.AnswerAt = rapid.IntRange(0, len(steps)-1).Draw(rt, "answerAt")
		}
		hash := rec.Hash(d)
		rec.Begin("TestC13Process", hash, d)
		r := runProcess(d)
		if r.Inconcl != "" {
			rec.End(hash, "inconclusive")
			rec.Inconclusive("TestC13Process", r.Inconcl)
			rt.Fatalf("inconclusive: %s", r.Inconcl)
		}
		rec.End(hash, r.Symptom)
		rec.Case("TestC13Process", hash, len(steps) >= 2, []string{"kind=" + def.Kind, fmt.Sprintf("pre=%v", d.PreTask)}, map[string]any{"case": d, "log": r.Log})
		if r.Symptom != "" {
			rt.Fatalf("%s", rec.Fail(rec.Failure{Property: prop, Test: "TestC13Process", Symptom: r.Symptom, Detail: r.Detail, Descriptor: d, History: r.Log}))
		}
	})
}

// ---------------------------------------------------------------------------
// two instances of the same parsed definitions on one event bus, created at
// different clock times: each timer catch event continues only at its OWN
// instance's due time (a duration timer is relative to its creation).

type twoDesc struct {
	DurS   int   `json:"durS"`   // duration of the timer, seconds
	GapS   int   `json:"gapS"`   // clock time between the creation of instance A and B
	StepsS []int `json:"stepsS"` // clock advances (seconds) after both exist; 0 = deliver the signal "sx" instead
	// SharedBuilder: both instances are created with ONE timer definition
	// builder and report to ONE tracer (the way the repository's model package
	// sets instances up); otherwise a builder and a tracer each
	SharedBuilder bool `json:"sharedBuilder,omitempty"`
	// Multi: "" = the catch event has the timer definition only; "multiple" /
	// "parallel" = timer and signal "sx", plain multiple resp. parallel-multiple
	Multi string `json:"multi,omitempty"`
}

func runTwo(d twoDesc) *result {
	r := &result{}
	b := gen.NewB()
	st := b.Add(gen.KStart)
	c := b.Add(gen.KCatch)
	c.Defs = []gen.EventDef{{Kind: "timer", TimerKind: "timeDuration", TimerExpr: fmt.Sprintf("PT%dS", d.DurS)}}
	if d.Multi != "" {
		c.Defs = append(c.Defs, gen.EventDef{Kind: "signal", Ref: "sx"})
		c.ParallelMul = d.Multi == "parallel"
	}
	b.Connect(st, c)
	after := b.Add(gen.KTask)
	b.Connect(c, after)
	en := b.Add(gen.KEnd)
	b.Connect(after, en)
	p := &gen.Program{G: b.G, DefaultLang: "expr"}
	defs, err := schema.Parse([]byte(p.XML()))
	if err != nil {
		r.Symptom, r.Detail = "construct", err.Error()
		return r
	}
	tr := quiesce.Begin()
	mock := clock.NewMockAt(base)
	root, cancel := context.WithCancel(context.Background())
	defer cancel()
	ctx := clock.ToContext(root, mock)
	fan := event.NewFanOut()
	type inst struct {
		mu    sync.Mutex
		tasks int
		due   time.Time
	}
	var rmu sync.Mutex
	byID := map[string]*inst{}
	count := func(sub chan tracing.ITrace, only *inst) {
		for t := range sub {
			if _, ok := tracing.Unwrap(t).(bpmn.TaskTrace); !ok {
				continue
			}
			in := only
			if in == nil {
				// shared tracer: the instance is named by the InstanceTrace wrapper
				if it, ok := t.(bpmn.InstanceTrace); ok {
					rmu.Lock()
					in = byID[it.InstanceId.String()]
					rmu.Unlock()
				}
			}
			if in != nil {
				in.mu.Lock()
				in.tasks++
				in.mu.Unlock()
			}
		}
	}
	var sharedTracer tracing.ITracer
	var sharedBuilder event.IDefinitionInstanceBuilder
	if d.SharedBuilder {
		sharedTracer = tracing.NewTracer(ctx)
		sharedBuilder = event.DefinitionInstanceBuildingChain(timer.EventDefinitionInstanceBuilder(ctx, fan, sharedTracer), event.WrappingDefinitionInstanceBuilder)
		go count(sharedTracer.SubscribeChannel(make(chan tracing.ITrace)), nil)
	}
	mk := func() (*inst, error) {
		in := &inst{due: mock.Now().Add(time.Duration(d.DurS) * time.Second)}
		tracer, builder := sharedTracer, sharedBuilder
		if !d.SharedBuilder {
			tracer = tracing.NewTracer(ctx)
			builder = event.DefinitionInstanceBuildingChain(timer.EventDefinitionInstanceBuilder(ctx, fan, tracer), event.WrappingDefinitionInstanceBuilder)
			go count(tracer.SubscribeChannel(make(chan tracing.ITrace)), in)
		}
		proc, err := bpmn.NewEngine().NewProcess(defs, bpmn.WithContext(ctx), bpmn.WithTracer(tracer),
			bpmn.WithProcessEventDefinitionInstanceBuilder(builder), bpmn.WithEventEgress(fan), bpmn.WithEventIngress(fan))
		if err != nil {
			return nil, err
		}
		rmu.Lock()
		byID[proc.Id().String()] = in
		rmu.Unlock()
		if err := proc.StartAll(ctx); err != nil {
			return nil, err
		}
		return in, nil
	}
	a, err := mk()
	if err != nil {
		r.Symptom, r.Detail = "construct", err.Error()
		return r
	}
	if _, err := tr.Wait(0); err != nil {
		r.Inconcl = err.Error()
		return r
	}
	mock.Add(time.Duration(d.GapS) * time.Second)
	if _, err := tr.Wait(0); err != nil {
		r.Inconcl = err.Error()
		return r
	}
	bb, err := mk()
	if err != nil {
		r.Symptom, r.Detail = "construct", err.Error()
		return r
	}
	if _, err := tr.Wait(0); err != nil {
		r.Inconcl = err.Error()
		return r
	}
	signals := 0
	check := func(stage string) bool {
		now := mock.Now()
		for name, in := range map[string]*inst{"A": a, "B": bb} {
			want := 0
			timerFired := !now.Before(in.due)
			switch d.Multi {
			case "multiple":
				if timerFired || signals > 0 {
					want = 1
				}
			case "parallel":
				if timerFired && signals > 0 {
					want = 1
				}
			default:
				if timerFired {
					want = 1
				}
			}
			in.mu.Lock()
			got := in.tasks
			in.mu.Unlock()
			r.Log = append(r.Log, fmt.Sprintf("%s now=base+%v instance %s due=base+%v downstream=%d (want %d)", stage, now.Sub(base), name, in.due.Sub(base), got, want))
			if got != want {
				sym := "continuation"
				if got > want {
					sym = "early-or-extra"
				}
				r.Symptom, r.Detail = sym, fmt.Sprintf("%s: instance %s (timer due at base+%v, clock at base+%v): the task behind its timer catch event was requested %d times, want %d", stage, name, in.due.Sub(base), now.Sub(base), got, want)
				return false
			}
		}
		return true
	}
	if !check("both created") {
		return r
	}
	for i, s := range d.StepsS {
		if s == 0 {
			if d.Multi == "" {
				continue
			}
			// both instances listen from their creation on: the signal reaches both
			fan.ConsumeEvent(event.NewSignalEvent("sx"))
			signals++
		} else {
			mock.Add(time.Duration(s) * time.Second)
		}
		if _, err := tr.Wait(0); err != nil {
			r.Inconcl = err.Error()
			return r
		}
		if !check(fmt.Sprintf("step %d", i)) {
			return r
		}
	}
	return r
}

func TestC13TwoInstances(t *testing.T) {
	var rd twoDesc
	if ok, err := rec.ReplayInput(&rd); ok {
		if err != nil {
			t.Fatal(err)
		}
		if rd.DurS == 0 {
			return
		}
		if r := runTwo(rd); r.Symptom != "" {
			fmt.Printf("REPRODUCED %s: %s\n", r.Symptom, r.Detail)
			t.Fatalf("%s", r.Symptom)
		}
		return
	}
	rapid.Check(t, func(rt *rapid.T) {
		d := twoDesc{DurS: rapid.IntRange(2, 600).Draw(rt, "dur"), GapS: rapid.IntRange(1, 300).Draw(rt, "gap")}
		n := rapid.IntRange(1, 5).Draw(rt, "steps")
		for i := 0; i < n; i++ {
			d.StepsS = append(d.StepsS, rapid.SampledFrom([]int{1, d.DurS - d.GapS, d.DurS - 1, d.GapS, d.DurS, 1000}).Draw(rt, "step"))
			if d.StepsS[i] <= 0 {
				d.StepsS[i] = 1
			}
		}
		d.SharedBuilder = rapid.Bool().Draw(rt, "sharedBuilder")
		d.Multi = rapid.SampledFrom([]string{"", "", "multiple", "parallel"}).Draw(rt, "multi")
		if d.Multi != "" {
			// the signal somewhere among the clock steps
			at := rapid.IntRange(0, len(d.StepsS)).Draw(rt, "signalAt")
			d.StepsS = append(d.StepsS[:at:at], append([]int{0}, d.StepsS[at:]...)...)
		}
		hash := rec.Hash(d)
		rec.Begin("TestC13TwoInstances", hash, d)
		r := runTwo(d)
		if r.Inconcl != "" {
			rec.End(hash, "inconclusive")
			rec.Inconclusive("TestC13TwoInstances", r.Inconcl)
			rt.Fatalf("inconclusive: %s", r.Inconcl)
		}
		rec.End(hash, r.Symptom)
		cls := []string{"twoInstancesOneBus"}
		if d.SharedBuilder {
			cls = append(cls, "oneTimerBuilderForBoth")
		}
		if d.Multi != "" {
			cls = append(cls, "timerAndSignal:"+d.Multi)
		}
		rec.Case("TestC13TwoInstances", hash, true, cls, map[string]any{"case": d, "log": r.Log})
		if r.Symptom != "" {
			rt.Fatalf("%s", rec.Fail(rec.Failure{Property: prop, Test: "TestC13TwoInstances", Symptom: r.Symptom, Detail: r.Detail, Descriptor: d, History: r.Log}))
		}
	})
}

// ---------------------------------------------------------------------------
// TestC13Funnel: 3..4 tokens reach ONE timer catch event (cycle timer) one
// after another, the clock advances between the arrivals: the node is armed and
// fired again and again, and every firing it was listening for continues every
// waiting token exactly once (C13 last sentence), a firing nobody listened for
// has no effect.

type funnelDesc struct {
	Tokens int          `json:"tokens"`
	Reps   int          `json:"reps"` // -1 unbounded
	Script []drive.Stim `json:"script"`
}

func buildFunnel(d funnelDesc) (*gen.Graph, string) {
	expr := "R/PT10S"
	if d.Reps >= 0 {
		expr = fmt.Sprintf("R%d/PT10S", d.Reps)
	}
	b := gen.NewB()
	st := b.Add(gen.KStart)
	f := b.Add(gen.KPar)
	mrg := b.Add(gen.KXor)
	b.Connect(st, f)
	for i := 0; i < d.Tokens; i++ {
		t := b.Add(gen.KTask)
		b.Connect(f, t)
		b.Connect(t, mrg)
	}
	c := b.Add(gen.KCatch)
	c.Defs = []gen.EventDef{{Kind: "timer", TimerKind: "timeCycle", TimerExpr: expr}}
	b.Connect(mrg, c)
	after := b.Add(gen.KTask)
	b.Connect(c, after)
	en := b.Add(gen.KEnd)
	b.Connect(after, en)
	return b.G, expr
}

func TestC13Funnel(t *testing.T) {
	var rd funnelDesc
	if ok, err := rec.ReplayInput(&rd); ok {
		if err != nil {
			t.Fatal(err)
		}
		if rd.Tokens == 0 {
			return
		}
		g, _ := buildFunnel(rd)
		out := drive.RunScript(&drive.ScriptCase{Graph: g, Lang: "expr", Script: rd.Script, MockClock: true, Drain: false})
		if out.Symptom != "" {
			fmt.Printf("REPRODUCED %s: %s\n", out.Symptom, out.Detail)
			t.Fatalf("%s", out.Symptom)
		}
		return
	}
	rapid.Check(t, func(rt *rapid.T) {
		d := funnelDesc{Tokens: rapid.IntRange(3, 4).Draw(rt, "tokens"), Reps: rapid.SampledFrom([]int{-1, -1, 3, 4, 2}).Draw(rt, "reps")}
		_, expr := buildFunnel(d)
		// reference for the firings: the cycle starts at creation; a firing falls
		// due one interval after the previous one was delivered
		now, nextDue, left := 0, 10, d.Reps
		firings := 0
		step := func(sec int) {
			now += sec
			s := drive.Stim{Kind: "clock", ClockS: sec}
			if now >= nextDue && left != 0 {
				s.Ev = &model.Ev{Kind: "timer", Ref: expr}
				nextDue = now + 10
				if left > 0 {
					left--
				}
				firings++
			}
			d.Script = append(d.Script, s)
		}
		for i := 0; i < d.Tokens; i++ {
			d.Script = append(d.Script, drive.Stim{Kind: "answer", Pick: 0})
			if rapid.IntRange(0, 3).Draw(rt, "twoAtOnce") == 0 && i+1 < d.Tokens {
				d.Script = append(d.Script, drive.Stim{Kind: "answer", Pick: 0})
				i++
			}
			if rapid.IntRange(0, 2).Draw(rt, "shortStep") == 0 {
				step(4)
			}
			step(rapid.SampledFrom([]int{10, 10, 6, 25}).Draw(rt, "step"))
			if rapid.Bool().Draw(rt, "extraStep") {
				step(10) // a firing with (probably) nobody listening
			}
			if rapid.Bool().Draw(rt, "answerAfter") {
				d.Script = append(d.Script, drive.Stim{Kind: "answer", Pick: rapid.IntRange(0, 3).Draw(rt, "pick")})
			}
		}
		step(10)
		g, _ := buildFunnel(d)
		hash := rec.Hash(d)
		rec.Begin("TestC13Funnel", hash, d)
		out := drive.RunScript(&drive.ScriptCase{Graph: g, Lang: "expr", Script: d.Script, MockClock: true, Drain: false})
		if out.Inconcl != "" {
			rec.End(hash, "inconclusive")
			rec.Inconclusive("TestC13Funnel", out.Inconcl)
			rt.Fatalf("inconclusive: %s", out.Inconcl)
		}
		rec.End(hash, out.Symptom)
		cls := []string{fmt.Sprintf("firings=%d", firings), fmt.Sprintf("continued=%d", len(out.Fired))}
		rec.Case("TestC13Funnel", hash, len(out.Fired) >= 3, cls, map[string]any{"case": d, "steps": out.Steps})
		if out.Symptom != "" {
			rt.Fatalf("%s", rec.Fail(rec.Failure{Property: prop, Test: "TestC13Funnel", Symptom: out.Symptom, Detail: out.Detail, Descriptor: d,
				History: map[string]any{"steps": out.Steps, "traces": out.Traces, "xml": out.XML}, Goroutines: out.Gs}))
		}
	})
}
