package c12

import (
	"encoding/json"
	"fmt"
	"reflect"
	"sort"
	"strings"
	"testing"

	"pgregory.net/rapid"

	"verif/harness/drive"
	"verif/harness/gen"
	"verif/harness/model"
	"verif/harness/rec"
)

const prop = "C12"

// descriptor: a C01 program plus the blocks to wrap.
type descriptor struct {
	Prog     *gen.Block     `json:"prog"`
	Wraps    map[string]int `json:"wraps"` // preorder index of a block -> nesting levels 1..3
	Lang     string         `json:"lang"`
	Vars     map[string]any `json:"vars"`
	Plan     [][]planEntry  `json:"plan"` // per task (preorder rank): answers
	Schedule []int          `json:"schedule"`
}

type planEntry = model.Answer

func clone(b *gen.Block) *gen.Block {
	raw, _ := json.Marshal(b)
	var out gen.Block
	_ = json.Unmarshal(raw, &out)
	fixDef(&out)
	return &out
}

// fixDef: Def has no omitempty, survives; nil kids survive as null. nothing to do.
func fixDef(b *gen.Block) {}

// preorder enumerates the non-seq blocks.
func preorder(b *gen.Block, fn func(idx int, blk *gen.Block)) {
	i := 0
	var walk func(x *gen.Block)
	walk = func(x *gen.Block) {
		if x == nil {
			return
		}
		if x.K != "seq" {
			fn(i, x)
			i++
		}
		for _, k := range x.Kids {
			walk(k)
		}
	}
	walk(b)
}

// taskRanks lowers the AST and maps task node ids to the preorder rank of their block.
func taskRanks(ast *gen.Block) (*gen.Lowered, map[string]int) {
	lw := gen.Lower(ast)
	rankOfBlock := map[*gen.Block]int{}
	r := 0
	var walk func(x *gen.Block)
	walk = func(x *gen.Block) {
		if x == nil {
			return
		}
		if x.K == "task" || x.K == "ctask" {
			rankOfBlock[x] = r
			r++
		}
		for _, k := range x.Kids {
			walk(k)
		}
	}
	walk(ast)
	ranks := map[string]int{}
	for id, blk := range lw.TaskOf {
		ranks[id] = rankOfBlock[blk]
	}
	return lw, ranks
}

type runResult struct {
	out   *drive.Outcome
	steps [][]int // per step: sorted ranks of the new requests
	vars  map[string]any
	ends  int
}

func runOne(ast *gen.Block, d *descriptor, pick func(int) int) *runResult {
	lw, ranks := taskRanks(ast)
	c := &drive.Case{Graph: lw.G, Lang: d.Lang, Vars: d.Vars, Answers: map[string][]model.Answer{}, Rank: ranks, Schedule: d.Schedule}
	for id, r := range ranks {
		if r < len(d.Plan) {
			c.Answers[id] = d.Plan[r]
		}
	}
	res := &runResult{}
	hk := &drive.Hooks{BeforeClose: func(in *drive.Inst, m *model.M, out *drive.Outcome) {
		res.vars = map[string]any{}
		for k, it := range in.P.Locator().CloneVariables() {
			res.vars[k] = it.Value()
		}
	}}
	res.out = drive.RunLockstep(c, pick, hk)
	for _, st := range res.out.Steps {
		var rs []int
		for _, id := range st.Got {
			rs = append(rs, ranks[id])
		}
		sort.Ints(rs)
		res.steps = append(res.steps, rs)
	}
	res.ends = len(res.out.Summary.Ends)
	return res
}

func applyWraps(ast *gen.Block, wraps map[string]int) *gen.Block {
	w := clone(ast)
	preorder(w, func(idx int, blk *gen.Block) {
		if n, ok := wraps[fmt.Sprint(idx)]; ok {
			blk.Wrap = n
		}
	})
	return w
}

func (d *descriptor) normalize() {
	fix := func(m map[string]any) {
		for k, v := range m {
			if f, ok := v.(float64); ok {
				m[k] = int64(f)
			}
		}
	}
	fix(d.Vars)
	for _, p := range d.Plan {
		for i := range p {
			fix(p[i].Results)
		}
	}
}

// compare runs P and P' under the same schedule.
func compare(d *descriptor, pick func(int) int) (symptom, detail string, plain, wrapped *runResult, inconcl string) {
	var picks []int
	rec1 := func(n int) int {
		v := pick(n)
		picks = append(picks, v)
		return v
	}
	plain = runOne(clone(d.Prog), d, rec1)
	if plain.out.Inconcl != "" {
		return "", "", plain, nil, plain.out.Inconcl
	}
	if plain.out.Symptom != "" {
		return "plain:" + plain.out.Symptom, plain.out.Detail, plain, nil, ""
	}
	d.Schedule = picks
	pos := 0
	replayPick := func(n int) int {
		v := 0
		if pos < len(picks) {
			v = picks[pos]
		}
		pos++
		return v % n
	}
	wrapped = runOne(applyWraps(d.Prog, d.Wraps), d, replayPick)
	if wrapped.out.Inconcl != "" {
		return "", "", plain, wrapped, wrapped.out.Inconcl
	}
	if wrapped.out.Symptom != "" {
		return "wrapped:" + wrapped.out.Symptom, wrapped.out.Detail, plain, wrapped, ""
	}
	if !reflect.DeepEqual(plain.steps, wrapped.steps) {
		return "differs", fmt.Sprintf("requests per step (task ranks) differ: inline %v, wrapped %v", plain.steps, wrapped.steps), plain, wrapped, ""
	}
	if !reflect.DeepEqual(plain.vars, wrapped.vars) {
		return "vars-differ", fmt.Sprintf("final variables differ: inline %v, wrapped %v", plain.vars, wrapped.vars), plain, wrapped, ""
	}
	if plain.out.Done != wrapped.out.Done {
		return "completion-differs", fmt.Sprintf("inline done=%v wrapped done=%v", plain.out.Done, wrapped.out.Done), plain, wrapped, ""
	}
	return "", "", plain, wrapped, ""
}

func drawDescriptor(rt *rapid.T, o gen.GenOpts, loopWrapOK bool) *descriptor {
	blk := gen.GenProgram(rt, o)
	d := &descriptor{Prog: blk, Lang: rapid.SampledFrom([]string{"expr", "expr", "xpath"}).Draw(rt, "lang"), Vars: map[string]any{}, Wraps: map[string]int{}}
	for _, v := range gen.IntVars {
		d.Vars[v] = int64(rapid.IntRange(0, 3).Draw(rt, v))
	}
	for _, v := range gen.DataObjPool {
		// data objects declared on the process, read by conditions wherever they
		// end up (inline or inside the wrapping sub-processes)
		d.Vars[gen.DataObjKey(v)] = rapid.Bool().Draw(rt, "do_"+v)
	}
	for _, v := range gen.BoolVars {
		d.Vars[v] = rapid.Bool().Draw(rt, v)
	}
	// answer plans per task rank
	var tasks []*gen.Block
	var walk func(x *gen.Block, inLoop bool)
	type cand struct {
		idx    int
		inLoop bool
	}
	var cands []cand
	idx := 0
	walk = func(x *gen.Block, inLoop bool) {
		if x == nil {
			return
		}
		if x.K != "seq" {
			// a block containing an early end event (or ending in a conditional
			// task) is not equivalent to itself wrapped: inside a sub-process
			// the end event only ends the inner token and the parent continues
			if !hasTerminal(x) {
				cands = append(cands, cand{idx, inLoop})
			}
			idx++
		}
		if x.K == "task" || x.K == "ctask" {
			tasks = append(tasks, x)
		}
		for i, k := range x.Kids {
			// blocks inside a loop body or after a multi-merge are entered more than once
			multi := inLoop || x.K == "loop" || (x.K == "mmerge" && i == len(x.Kids)-1)
			walk(k, multi)
		}
	}
	walk(blk, false)
	for _, tb := range tasks {
		var as []model.Answer
		if tb.LoopVar != "" {
			d.Vars[tb.LoopVar] = false
			it := rapid.IntRange(0, 2).Draw(rt, "iters")
			for i := 0; i < it; i++ {
				as = append(as, model.Answer{Kind: model.AnsOK, Results: map[string]any{tb.LoopVar: true}})
			}
			as = append(as, model.Answer{Kind: model.AnsOK, Results: map[string]any{tb.LoopVar: false}})
		} else {
			res := map[string]any{}
			for _, r := range tb.Results {
				if strings.HasPrefix(r, "n") {
					res[r] = int64(rapid.IntRange(0, 3).Draw(rt, "rv"))
				} else {
					res[r] = rapid.Bool().Draw(rt, "rb")
				}
			}
			as = append(as, model.Answer{Kind: model.AnsOK, Results: res})
		}
		d.Plan = append(d.Plan, as)
	}
	// choose 1..3 blocks to wrap
	var usable []cand
	for _, c := range cands {
		if c.inLoop && !loopWrapOK {
			continue
		}
		usable = append(usable, c)
	}
	if len(usable) == 0 {
		return d
	}
	nw := rapid.IntRange(1, 3).Draw(rt, "nWraps")
	for i := 0; i < nw; i++ {
		c := usable[rapid.IntRange(0, len(usable)-1).Draw(rt, "wrapIdx")]
		d.Wraps[fmt.Sprint(c.idx)] = rapid.IntRange(1, 3).Draw(rt, "levels")
	}
	return d
}

func classify(d *descriptor) (cls []string, nontrivial bool) {
	maxLv := 0
	for _, v := range d.Wraps {
		if v > maxLv {
			maxLv = v
		}
	}
	wrappedTask, inPar, inLoop := false, false, false
	idx := 0
	var walk func(x *gen.Block, par, loop, wrapped bool)
	walk = func(x *gen.Block, par, loop, wrapped bool) {
		if x == nil {
			return
		}
		if x.K != "seq" {
			if _, ok := d.Wraps[fmt.Sprint(idx)]; ok {
				wrapped = true
				if par {
					inPar = true
				}
				if loop {
					inLoop = true
				}
			}
			idx++
		}
		if wrapped && (x.K == "task" || x.K == "ctask") {
			wrappedTask = true
		}
		for i, k := range x.Kids {
			walk(k, par || x.K == "par" || x.K == "inc", loop || x.K == "loop" || (x.K == "mmerge" && i == len(x.Kids)-1), wrapped)
		}
	}
	walk(d.Prog, false, false, false)
	if inPar {
		cls = append(cls, "wrapInsideFork")
	}
	if inLoop {
		cls = append(cls, "wrapEnteredRepeatedly")
	}
	if maxLv >= 2 {
		cls = append(cls, "depth>=2")
	}
	if len(d.Wraps) >= 2 {
		cls = append(cls, "wraps>=2")
	}
	cls = append(cls, "lang="+d.Lang)
	return cls, wrappedTask && len(d.Wraps) > 0
}

func genOpts() gen.GenOpts {
	o := gen.GenOpts{MaxDepth: 3, MaxNodes: 12, AllKinds: true, XPath: true, NoSub: true, DataObjConds: true}
	if rec.Tier() == "thorough" {
		o.MaxNodes = 24
	}
	o.NoIncNest = rec.Exclude("C05-F1")
	return o
}

func TestC12Metamorphic(t *testing.T) {
	var rd descriptor
	if ok, err := rec.ReplayInput(&rd); ok {
		if err != nil {
			t.Fatal(err)
		}
		rd.normalize()
		pos := 0
		pick := func(n int) int {
			v := 0
			if pos < len(rd.Schedule) {
				v = rd.Schedule[pos]
			}
			pos++
			return v % n
		}
		sym, det, _, _, inc := compare(&rd, pick)
		if inc != "" {
			t.Fatalf("inconclusive %s", inc)
		}
		if sym != "" {
			fmt.Printf("REPRODUCED %s: %s\n", sym, det)
			t.Fatalf("%s", sym)
		}
		return
	}
	o := genOpts()
	loopWrapOK := !rec.Exclude("C12-F3")
	rapid.Check(t, func(rt *rapid.T) {
		d := drawDescriptor(rt, o, loopWrapOK)
		pick := func(n int) int { return rapid.IntRange(0, n-1).Draw(rt, "pick") }
		hash := rec.Hash(d)
		rec.Begin("TestC12Metamorphic", hash, d)
		sym, det, plain, wrapped, inc := compare(d, pick)
		if inc != "" {
			rec.End(hash, "inconclusive")
			rec.Inconclusive("TestC12Metamorphic", inc)
			rt.Fatalf("inconclusive: %s", inc)
		}
		rec.End(hash, sym)
		cls, nt := classify(d)
		var ws any
		if wrapped != nil {
			ws = wrapped.out.Steps
		}
		rec.Case("TestC12Metamorphic", hash, nt, cls, map[string]any{"case": d, "wrappedSteps": ws})
		if sym == "" {
			return
		}
		if rec.Unrestricted() && rec.Known("C12-F3") && hasClass(cls, "wrapEnteredRepeatedly") && strings.HasPrefix(sym, "wrapped:") {
			rec.KnownHit("TestC12Metamorphic", "C12-F3", hash)
			return
		}
		if rec.Unrestricted() && rec.Known("C05-F1") && (cohortRisk(plain) || cohortRisk(wrapped)) {
			rec.KnownHit("TestC12Metamorphic", "C05-F1", hash)
			return
		}
		hist := map[string]any{}
		if plain != nil {
			hist["inlineSteps"] = plain.out.Steps
		}
		if wrapped != nil {
			hist["steps"] = wrapped.out.Steps
			hist["traces"] = wrapped.out.Traces
			if wrapped.out.Program != nil {
				hist["xml"] = wrapped.out.Program.XML()
			}
		}
		g := ""
		if wrapped != nil {
			g = wrapped.out.Gs
		}
		rt.Fatalf("%s", rec.Fail(rec.Failure{Property: prop, Test: "TestC12Metamorphic", Symptom: sym, Detail: det, Descriptor: d, History: hist, Goroutines: g}))
	})
}

func hasClass(cls []string, c string) bool {
	for _, x := range cls {
		if x == c {
			return true
		}
	}
	return false
}

func hasTerminal(b *gen.Block) bool {
	if b == nil {
		return false
	}
	if b.K == "end" || b.K == "ctask" {
		return true
	}
	for _, k := range b.Kids {
		if hasTerminal(k) {
			return true
		}
	}
	return false
}

// ---------------------------------------------------------------------------
// TestC12MultiStart: a sub-process with several start events (all of them fire
// on activation). Branches differ in length - one ends at once, others wait for
// a task - so the parent may only continue after the LAST inner token is gone.

type msDesc struct {
	Branches []int  `json:"branches"` // per inner start event: number of tasks before its end event (0 = straight to end, -1 = its only outgoing flow carries a false condition: the token is consumed at the start event itself)
	Nest     bool   `json:"nest"`     // the sub-process sits inside a parallel branch of the parent
	Perturb  uint64 `json:"perturb"`
	Schedule []int  `json:"schedule"`
}

func buildMS(d msDesc) *gen.Graph {
	b := gen.NewB()
	st := b.Add(gen.KStart)
	sub := b.Add(gen.KSub)
	ib := b.Sub()
	sub.Inner = ib.G
	for _, n := range d.Branches {
		s := ib.Add(gen.KStart)
		cur := s
		for k := 0; k < n; k++ {
			t := ib.Add(gen.KTask)
			ib.Connect(cur, t)
			cur = t
		}
		e := ib.Add(gen.KEnd)
		f := ib.Connect(cur, e)
		if n < 0 {
			f.Formal, f.Cond = true, gen.False()
		}
	}
	after := b.Add(gen.KTask)
	en := b.Add(gen.KEnd)
	if d.Nest {
		f := b.Add(gen.KPar)
		j := b.Add(gen.KPar)
		side := b.Add(gen.KTask)
		b.Connect(st, f)
		b.Connect(f, sub)
		b.Connect(f, side)
		b.Connect(sub, j)
		b.Connect(side, j)
		b.Connect(j, after)
	} else {
		b.Connect(st, sub)
		b.Connect(sub, after)
	}
	b.Connect(after, en)
	return b.G
}

func TestC12MultiStart(t *testing.T) {
	var rd msDesc
	if ok, err := rec.ReplayInput(&rd); ok {
		if err != nil {
			t.Fatal(err)
		}
		if rd.Branches == nil {
			return
		}
		fails := 0
		for i := 0; i < 30; i++ {
			c := &drive.Case{Graph: buildMS(rd), Lang: "expr", Schedule: rd.Schedule, Perturb: rd.Perturb}
			if out := drive.RunLockstep(c, nil, nil); out.Symptom != "" {
				fails++
				if fails == 1 {
					fmt.Printf("REPRODUCED %s: %s\n", out.Symptom, out.Detail)
				}
			}
		}
		if fails > 0 {
			t.Fatalf("reproduced in %d of 30 runs", fails)
		}
		return
	}
	rapid.Check(t, func(rt *rapid.T) {
		d := msDesc{Nest: rapid.Bool().Draw(rt, "nest"), Perturb: uint64(rapid.IntRange(0, 400).Draw(rt, "perturb"))}
		n := rapid.SampledFrom([]int{1, 2, 2, 3, 3, 5, 8, 8, 12}).Draw(rt, "starts")
		for i := 0; i < n; i++ {
			d.Branches = append(d.Branches, rapid.IntRange(-1, 2).Draw(rt, "len"))
		}
		c := &drive.Case{Graph: buildMS(d), Lang: "expr", Perturb: d.Perturb}
		pick := func(k int) int {
			v := rapid.IntRange(0, k-1).Draw(rt, "pick")
			d.Schedule = append(d.Schedule, v)
			return v
		}
		hash := rec.Hash(d)
		rec.Begin("TestC12MultiStart", hash, d)
		out := drive.RunLockstep(c, pick, nil)
		if out.Inconcl != "" {
			rec.End(hash, "inconclusive")
			rec.Inconclusive("TestC12MultiStart", out.Inconcl)
			rt.Fatalf("inconclusive: %s", out.Inconcl)
		}
		rec.End(hash, out.Symptom)
		mixed := false
		for _, x := range d.Branches {
			if x != d.Branches[0] || x < 0 {
				mixed = true
			}
		}
		rec.Case("TestC12MultiStart", hash, mixed, []string{"multiStartSubProcess"}, map[string]any{"case": d, "steps": out.Steps})
		if out.Symptom != "" {
			rt.Fatalf("%s", rec.Fail(rec.Failure{Property: prop, Test: "TestC12MultiStart", Symptom: out.Symptom, Detail: out.Detail, Descriptor: d,
				History: map[string]any{"steps": out.Steps, "traces": out.Traces, "xml": out.Program.XML()}, Goroutines: out.Gs}))
		}
	})
}

// cohortRisk: the run was inside the pattern of known finding C05-F1, so the
// finding can explain a failure: the engine's bookkeeping may have differed
// from the tokens of the fork (model.CohortRisk), or an inclusive gateway
// waited for the siblings of an enclosing inclusive fork although the BPMN
// rule had released it (C05 allows that wait; inside a sub-process the
// gateway does not see those siblings, so inline and wrapped runs differ).
func cohortRisk(r *runResult) bool {
	return r != nil && r.out != nil && (len(r.out.CohortRisk) > 0 || r.out.HeldBack)
}
