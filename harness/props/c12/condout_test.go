package c12

// TestC12CondOut: conditional sequence flows LEAVING the activity. An
// activity T with 2..3 outgoing flows that carry conditions, once as a plain
// task and once with T wrapped in 1..3 nested embedded sub-processes (the
// conditional flows then leave the outermost sub-process): when T has been
// answered the tokens continue on exactly the same flows in both variants -
// those whose condition holds.
//
//	inline:  start -> T -{c0}-> A0 | -{c1}-> A1 | -{c2}-> A2
//	wrapped: start -> sub[ start -> (sub[ ... T ... ]) -> end ] -{c0}-> A0 | ...

import (
	"fmt"
	"sort"
	"testing"

	"pgregory.net/rapid"

	"verif/harness/drive"
	"verif/harness/gen"
	"verif/harness/rec"
)

type condOutDesc struct {
	Truth []bool `json:"truth"` // per outgoing flow (2..3), at least one true
	Depth int    `json:"depth"` // nesting of the wrapped variant (1..3)
	Lang  string `json:"lang"`
}

func runCondOutVariant(d condOutDesc, depth int) (got []int, sym, det, inconcl string) {
	b := gen.NewB()
	st := b.Add(gen.KStart)
	var host *gen.Node
	if depth == 0 {
		host = b.Add(gen.KTask)
		b.Connect(st, host)
	} else {
		cur := b
		var outer *gen.Node
		prev := st
		for lvl := 0; lvl < depth; lvl++ {
			sp := cur.Add(gen.KSub)
			cur.Connect(prev, sp)
			if lvl == 0 {
				outer = sp
			} else {
				en := cur.Add(gen.KEnd)
				cur.Connect(sp, en)
			}
			ib := cur.Sub()
			sp.Inner = ib.G
			cur = ib
			prev = cur.Add(gen.KStart)
		}
		t := cur.Add(gen.KTask)
		en := cur.Add(gen.KEnd)
		cur.Connect(prev, t)
		cur.Connect(t, en)
		host = outer
	}
	vars := map[string]any{}
	after := make([]string, len(d.Truth))
	for i, tr := range d.Truth {
		a := b.Add(gen.KTask)
		en := b.Add(gen.KEnd)
		f := b.Connect(host, a)
		f.Formal = true
		f.Cond = gen.BoolVar(fmt.Sprintf("b%d", i))
		vars[fmt.Sprintf("b%d", i)] = tr
		b.Connect(a, en)
		after[i] = a.ID
	}
	prog := &gen.Program{G: b.G, DefaultLang: d.Lang}
	in, err := drive.New(prog.XML(), drive.Options{Vars: vars})
	if err != nil {
		return nil, "construct", err.Error(), ""
	}
	defer in.Close()
	if err := in.StartAll(); err != nil {
		return nil, "start-error", err.Error(), ""
	}
	if _, err := in.Quiesce(); err != nil {
		return nil, "", "", err.Error()
	}
	ts := in.NewTasks()
	if len(ts) != 1 {
		return nil, "requests", fmt.Sprintf("depth %d: %d requests after the start, want the activity alone", depth, len(ts)), ""
	}
	ts[0].Do()
	if _, err := in.Quiesce(); err != nil {
		return nil, "", "", err.Error()
	}
	for _, tt := range in.NewTasks() {
		id, _ := tt.GetActivity().Element().Id()
		found := false
		for i, a := range after {
			if a == *id {
				got = append(got, i)
				found = true
			}
		}
		if !found {
			return nil, "requests", fmt.Sprintf("depth %d: unexpected request %s", depth, *id), ""
		}
	}
	sort.Ints(got)
	return got, "", "", ""
}

func runCondOut(d condOutDesc) (sym, det, inconcl string) {
	var want []int
	for i, tr := range d.Truth {
		if tr {
			want = append(want, i)
		}
	}
	inline, s, dd, inc := runCondOutVariant(d, 0)
	if s != "" || inc != "" {
		return s, dd, inc
	}
	if fmt.Sprint(inline) != fmt.Sprint(want) {
		return "inline", fmt.Sprintf("plain task with conditional outgoing flows %v: tokens continued on flows %v", d.Truth, inline), ""
	}
	wrapped, s, dd, inc := runCondOutVariant(d, d.Depth)
	if s != "" || inc != "" {
		return s, dd, inc
	}
	if fmt.Sprint(wrapped) != fmt.Sprint(inline) {
		return "differs", fmt.Sprintf("conditions %v on the flows leaving the activity: as a plain task the tokens continue on flows %v, with the task wrapped in %d sub-process(es) on flows %v", d.Truth, inline, d.Depth, wrapped), ""
	}
	return "", "", ""
}

func TestC12CondOut(t *testing.T) {
	var rd condOutDesc
	if ok, err := rec.ReplayInput(&rd); ok {
		if err != nil {
			t.Fatal(err)
		}
		if len(rd.Truth) == 0 {
			return
		}
		if s, dd, _ := runCondOut(rd); s != "" {
			fmt.Printf("REPRODUCED %s: %s\n", s, dd)
			t.Fatalf("%s", s)
		}
		return
	}
	rapid.Check(t, func(rt *rapid.T) {
		n := rapid.IntRange(2, 3).Draw(rt, "flows")
		d := condOutDesc{Depth: rapid.IntRange(1, 3).Draw(rt, "depth"), Lang: rapid.SampledFrom([]string{"expr", "xpath"}).Draw(rt, "lang")}
		mask := rapid.IntRange(1, 1<<n-1).Draw(rt, "mask")
		for i := 0; i < n; i++ {
			d.Truth = append(d.Truth, mask&(1<<i) != 0)
		}
		hash := rec.Hash(d)
		rec.Begin("TestC12CondOut", hash, d)
		s, dd, inc := runCondOut(d)
		if inc != "" {
			rec.End(hash, "inconclusive")
			rec.Inconclusive("TestC12CondOut", inc)
			rt.Fatalf("inconclusive: %s", inc)
		}
		rec.End(hash, s)
		rec.Case("TestC12CondOut", hash, mask != 1<<n-1, []string{fmt.Sprintf("depth=%d", d.Depth), "lang=" + d.Lang}, d)
		if s != "" {
			rt.Fatalf("%s", rec.Fail(rec.Failure{Property: prop, Test: "TestC12CondOut", Symptom: s, Detail: dd, Descriptor: d}))
		}
	})
}
