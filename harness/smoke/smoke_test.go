package smoke

import (
	"testing"

	"github.com/olive-io/bpmn/schema"
	bpmn "github.com/olive-io/bpmn/v2"
	"pgregory.net/rapid"
)

func TestSmoke(t *testing.T) {
	_ = bpmn.NewEngine
	_ = schema.Parse
	rapid.Check(t, func(t *rapid.T) { _ = rapid.Int().Draw(t, "x") })
}
