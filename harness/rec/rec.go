// Package rec is the Go side of the evidence / journal / replay protocol
// between the property tests and check.py (DESIGN.md 2.6, 2.7).
//
// Files (all optional; without the env vars everything is a no-op so the
// tests also run under plain `go test`):
//
//	$VERIF_OUT         JSONL, one record per executed case
//	$VERIF_JOURNAL     JSONL, BEGIN/END per case (a BEGIN without END = crash case)
//	$VERIF_REPLAY_DIR  directory for replay files of failing cases
//	$VERIF_KNOWN       comma separated ids of findings listed as "known"
//	$VERIF_UNRESTRICTED=1  keep known-finding patterns in the generated domain
package rec

import (
	"crypto/sha1"
	"encoding/hex"
	"encoding/json"
	"fmt"
	"os"
	"path/filepath"
	"runtime"
	"strings"
	"sync"
	"sync/atomic"
)

var caseCount atomic.Int64

var (
	mu       sync.Mutex
	out      *os.File
	journal  *os.File
	samples  = map[string]int{}
	known    map[string]bool
	initOnce sync.Once
)

func initFiles() {
	initOnce.Do(func() {
		if p := os.Getenv("VERIF_OUT"); p != "" {
			out, _ = os.OpenFile(p, os.O_CREATE|os.O_APPEND|os.O_WRONLY, 0o644)
		}
		if p := os.Getenv("VERIF_JOURNAL"); p != "" {
			journal, _ = os.OpenFile(p, os.O_CREATE|os.O_APPEND|os.O_WRONLY, 0o644)
		}
		known = map[string]bool{}
		for _, k := range strings.Split(os.Getenv("VERIF_KNOWN"), ",") {
			if k = strings.TrimSpace(k); k != "" {
				known[k] = true
			}
		}
	})
}

// Known reports whether finding id is listed as known (not fixed) in
// /verif/known_findings.json. The check never adds to that list at run time.
func Known(id string) bool {
	initFiles()
	return known[id]
}

// Unrestricted reports whether known-finding patterns stay in the domain.
func Unrestricted() bool { return os.Getenv("VERIF_UNRESTRICTED") == "1" }

// Exclude reports whether the generator must construct around finding id.
func Exclude(id string) bool { return Known(id) && !Unrestricted() }

// Tier returns "quick" or "thorough".
func Tier() string {
	if os.Getenv("VERIF_TIER") == "thorough" {
		return "thorough"
	}
	return "quick"
}

// Hash is a short stable digest of any JSON-serialisable descriptor.
func Hash(v any) string {
	b, _ := json.Marshal(v)
	s := sha1.Sum(b)
	return hex.EncodeToString(s[:8])
}

// Begin journals a case before it runs.
func Begin(test, hash string, descriptor any) {
	initFiles()
	if journal == nil {
		return
	}
	b, _ := json.Marshal(map[string]any{"ev": "BEGIN", "test": test, "hash": hash, "desc": descriptor})
	mu.Lock()
	journal.Write(append(b, '\n'))
	mu.Unlock()
}

// End journals the end of a case.
func End(hash, verdict string) {
	initFiles()
	if journal == nil {
		return
	}
	b, _ := json.Marshal(map[string]any{"ev": "END", "hash": hash, "verdict": verdict})
	mu.Lock()
	journal.Write(append(b, '\n'))
	mu.Unlock()
}

// Case records one executed case. sample is written for the first few cases
// of each class key only.
func Case(test, hash string, nontrivial bool, classes []string, sample any) {
	initFiles()
	if n := caseCount.Add(1); n%500 == 0 && os.Getenv("VERIF_DEBUG_G") != "" {
		// development aid: a harness that leaks a goroutine per case makes the
		// goroutine snapshots (and so a long campaign) quadratically slower
		fmt.Fprintf(os.Stderr, "VERIF-GOROUTINES cases=%d goroutines=%d\n", n, runtime.NumGoroutine())
	}
	if out == nil {
		return
	}
	r := map[string]any{"test": test, "hash": hash, "nt": nontrivial, "classes": classes}
	mu.Lock()
	key := test
	if nontrivial {
		key += "/nt"
	}
	if samples[key] < 3 && sample != nil {
		samples[key]++
		r["sample"] = sample
	}
	b, _ := json.Marshal(r)
	out.Write(append(b, '\n'))
	mu.Unlock()
}

// Count records an aggregate record (for enumerations that would otherwise
// emit millions of lines): n evaluations of which nt non-trivial distinct.
func Count(test string, n, nt int, classes map[string]int, samples []any, exhaustive bool) {
	initFiles()
	if out == nil {
		return
	}
	r := map[string]any{"test": test, "agg": true, "n": n, "ntd": nt, "classcount": classes, "samples": samples, "exhaustive": exhaustive}
	b, _ := json.Marshal(r)
	mu.Lock()
	out.Write(append(b, '\n'))
	mu.Unlock()
}

// KnownHit records that an unrestricted-campaign case reproduced a listed
// finding (pattern and symptom both matched).
func KnownHit(test, finding, hash string) {
	initFiles()
	if out == nil {
		return
	}
	b, _ := json.Marshal(map[string]any{"test": test, "knownhit": finding, "hash": hash})
	mu.Lock()
	out.Write(append(b, '\n'))
	mu.Unlock()
}

// Excluded counts a draw steered around a known finding.
func Excluded(test, finding string) {
	initFiles()
	if out == nil {
		return
	}
	b, _ := json.Marshal(map[string]any{"test": test, "excluded": finding})
	mu.Lock()
	out.Write(append(b, '\n'))
	mu.Unlock()
}

// Failure is the content of a replay file.
type Failure struct {
	Property   string `json:"property"`
	Test       string `json:"test"`
	Symptom    string `json:"symptom"`
	Detail     string `json:"detail"`
	Descriptor any    `json:"descriptor"`
	History    any    `json:"history,omitempty"`
	Goroutines string `json:"goroutines,omitempty"`
}

// Fail writes a replay file and prints the line check.py looks for.
// It returns the message to pass to t.Fatalf.
func Fail(f Failure) string {
	initFiles()
	dir := os.Getenv("VERIF_REPLAY_DIR")
	path := "-"
	if dir != "" {
		os.MkdirAll(dir, 0o755)
		path = filepath.Join(dir, fmt.Sprintf("%s-%s-%s.json", f.Property, f.Test, Hash(f.Descriptor)))
		b, _ := json.MarshalIndent(f, "", " ")
		os.WriteFile(path, b, 0o644)
	}
	fmt.Printf("\nVERIF-FAIL property=%s test=%s symptom=%s replay=%s\n", f.Property, f.Test, f.Symptom, path)
	return fmt.Sprintf("%s: %s: %s", f.Property, f.Symptom, f.Detail)
}

// Inconclusive prints the marker for an infrastructure problem (ceiling hit).
func Inconclusive(test, why string) {
	fmt.Printf("\nVERIF-INCONCLUSIVE test=%s %s\n", test, strings.ReplaceAll(why, "\n", " | "))
}

// ReplayInput loads the descriptor of $VERIF_REPLAY into v; ok=false if unset.
func ReplayInput(v any) (ok bool, err error) {
	p := os.Getenv("VERIF_REPLAY")
	if p == "" {
		return false, nil
	}
	b, err := os.ReadFile(p)
	if err != nil {
		return true, err
	}
	var f struct {
		Descriptor json.RawMessage `json:"descriptor"`
	}
	if err := json.Unmarshal(b, &f); err != nil {
		return true, err
	}
	return true, json.Unmarshal(f.Descriptor, v)
}
