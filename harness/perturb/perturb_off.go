//go:build !verif

package perturb

import "time"

// Without the verif tag the engine has no hook points: perturbation is a no-op.
func Hits() map[string]int64                                    { return map[string]int64{} }
func Install(seed uint64, intensity int, sites map[string]bool) {}
func Remove()                                                   {}
func Hold(site string, d time.Duration)                         {}
