//go:build verif

// Package perturb installs a schedule-perturbation callback into the engine's
// verifhook points (DESIGN.md 2.5). The decision per (site, hit) is a pure
// function of the seed so that a drawn case determines its perturbation (up to
// the Go scheduler).
package perturb

import (
	"runtime"
	"sync"
	"sync/atomic"
	"time"

	"github.com/olive-io/bpmn/v2/pkg/verifhook"
)

var (
	mu   sync.Mutex
	hits = map[string]*int64{}
)

// Hits returns the number of times each site was reached since Install.
func Hits() map[string]int64 {
	mu.Lock()
	defer mu.Unlock()
	out := map[string]int64{}
	for k, v := range hits {
		out[k] = atomic.LoadInt64(v)
	}
	return out
}

func counter(site string) *int64 {
	mu.Lock()
	defer mu.Unlock()
	c := hits[site]
	if c == nil {
		c = new(int64)
		hits[site] = c
	}
	return c
}

func mix(x uint64) uint64 {
	x += 0x9E3779B97F4A7C15
	x = (x ^ (x >> 30)) * 0xBF58476D1CE4E5B9
	x = (x ^ (x >> 27)) * 0x94D049BB133111EB
	return x ^ (x >> 31)
}

// Install activates perturbation. seed==0 removes it. sites limits the
// perturbed sites (nil = all); intensity 0..100 is the percentage of hits
// that yield or sleep.
func Install(seed uint64, intensity int, sites map[string]bool) {
	mu.Lock()
	hits = map[string]*int64{}
	mu.Unlock()
	if seed == 0 {
		verifhook.Set(nil)
		return
	}
	verifhook.Set(func(site string) {
		c := counter(site)
		n := atomic.AddInt64(c, 1)
		if sites != nil && !sites[site] {
			return
		}
		var h uint64 = seed
		for i := 0; i < len(site); i++ {
			h = h*131 + uint64(site[i])
		}
		r := mix(h ^ uint64(n)*0x9E3779B97F4A7C15)
		if int(r%100) >= intensity {
			return
		}
		switch (r >> 8) % 4 {
		case 0:
			runtime.Gosched()
		case 1:
			time.Sleep(time.Duration(10+(r>>16)%90) * time.Microsecond)
		case 2:
			time.Sleep(time.Duration(50+(r>>16)%250) * time.Microsecond)
		default:
			// a long pause (whole start-to-end runs of a small process fit in
			// it) at the rarely reached sites only - every trace passes tracer.send
			if site == "tracer.send" {
				time.Sleep(time.Duration(50+(r>>16)%250) * time.Microsecond)
			} else {
				time.Sleep(time.Duration(500+(r>>16)%2500) * time.Microsecond)
			}
		}
	})
}

// Hold makes every hit of one site pause for d (nothing else is perturbed).
func Hold(site string, d time.Duration) {
	mu.Lock()
	hits = map[string]*int64{}
	mu.Unlock()
	verifhook.Set(func(s string) {
		atomic.AddInt64(counter(s), 1)
		if s == site {
			time.Sleep(d)
		}
	})
}

// Remove deactivates perturbation.
func Remove() { verifhook.Set(nil) }
