package quiesce

import (
	"sync"
	"testing"
	"time"
)

// The classification of real blocked goroutines and of a runtime-internal
// semaphore wait (synthetic record: frames hidden, user function on top).
func TestParkedClassification(t *testing.T) {
	tr := Begin()
	var wg sync.WaitGroup
	wg.Add(1)
	var mu sync.Mutex
	mu.Lock()
	var rw sync.RWMutex
	rw.Lock()
	cmu := sync.Mutex{}
	cond := sync.NewCond(&cmu)
	ch := make(chan int)
	go wg.Wait()
	go func() { mu.Lock(); mu.Unlock() }()
	go func() { rw.RLock(); rw.RUnlock() }()
	go func() { cmu.Lock(); cond.Wait(); cmu.Unlock() }()
	go func() { <-ch }()
	go func() { ch2 := make(chan int); select { case <-ch2: case <-ch: } }()
	gs, err := tr.Wait(5 * time.Second)
	if err != nil {
		t.Fatalf("blocked goroutines not recognised as parked: %v", err)
	}
	if len(gs) != 6 {
		t.Fatalf("want 6 goroutines, got %d:\n%s", len(gs), Dump(gs))
	}
	sleeper := make(chan struct{})
	go func() { time.Sleep(300 * time.Millisecond); close(sleeper) }()
	time.Sleep(20 * time.Millisecond)
	for _, g := range tr.Mine() {
		if g.State == "sleep" && g.Parked() {
			t.Fatalf("sleeping goroutine classified as parked")
		}
	}
	<-sleeper
	internal := G{ID: 1, State: "semacquire", Frames: "github.com/olive-io/bpmn/v2.(*flow).Start.func1()\n\t/repo/flow.go:277 +0xcb\n"}
	if internal.Parked() || !internal.Busy() {
		t.Fatalf("runtime-internal semaphore wait must be busy, not parked")
	}
	wgw := G{ID: 2, State: "semacquire", Frames: "sync.runtime_Semacquire(0xc000012345?)\n\t/usr/local/go/src/runtime/sema.go:71 +0x25\nsync.(*WaitGroup).Wait(0x0?)\n"}
	if !wgw.Parked() || wgw.Busy() {
		t.Fatalf("WaitGroup.Wait must be parked")
	}
	for _, st := range []string{"GC assist wait", "GC sweep wait", "running", "runnable", "sleep", "IO wait", "syscall", "preempted"} {
		if (G{State: st}).Parked() {
			t.Fatalf("%q must not be parked", st)
		}
	}
	wg.Done(); mu.Unlock(); rw.Unlock(); close(ch)
	cmu.Lock(); cond.Broadcast(); cmu.Unlock()
}
