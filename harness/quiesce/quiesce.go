// Package quiesce decides "nothing can happen any more without an external
// stimulus" from an atomic snapshot of all goroutines (runtime.Stack(all)
// stops the world). See DESIGN.md 2.4.
package quiesce

import (
	"bytes"
	"fmt"
	"runtime"
	"sort"
	"strconv"
	"strings"
	"time"
)

// G is one goroutine of a snapshot.
type G struct {
	ID     uint64
	State  string // text between [ and ] without the ", N minutes" suffix
	Frames string // the stack text
}

// Parked reports whether the goroutine is blocked on a channel/lock
// operation, i.e. can only continue when another goroutine acts.
func (g G) Parked() bool {
	s := g.State
	// Only waits that another goroutine has to end count. In particular the
	// GC-related wait states ("GC assist wait", "GC sweep wait", ...) do NOT:
	// a goroutine in GC assist resumes by itself, so a snapshot in which the
	// rest is parked is not a fixpoint (seen under load: a token "missing" at a
	// step boundary because its flow goroutine was assisting the collector).
	switch {
	case strings.HasPrefix(s, "chan receive"),
		strings.HasPrefix(s, "chan send"),
		strings.HasPrefix(s, "select"),
		strings.HasPrefix(s, "sync."):
		return true
	case strings.HasPrefix(s, "semacquire"):
		// "semacquire" is the state of sync.WaitGroup.Wait (top frame
		// sync.runtime_Semacquire) but also of runtime-internal semaphores
		// whose frames are hidden, so that the top frame is the user function
		// that happened to allocate: the GC start/transition semaphores. Those
		// end by themselves (seen under load: half of an instance's goroutines
		// queued on the GC start semaphore right after StartAll, nothing
		// requested yet, everything "parked").
		return strings.HasPrefix(strings.TrimSpace(g.TopFunc()), "sync.")
	}
	return false
}

// Busy reports whether the goroutine is executing or about to execute without
// anybody's help: running, runnable, preempted, or in a GC / runtime-internal
// wait. Used for goroutines that do NOT belong to the case (leftovers of the
// previous case that are still winding down, the test framework): while one of
// them is busy it may be holding a process-wide lock (expression-engine
// registry, JSON codec caches, ...) that a goroutine of the case is queued on,
// so "all goroutines of the case are parked" is not yet a fixpoint.
func (g G) Busy() bool {
	s := g.State
	switch {
	case s == "running", s == "runnable", s == "preempted", strings.HasPrefix(s, "GC "):
		return true
	case strings.HasPrefix(s, "semacquire"):
		return !strings.HasPrefix(strings.TrimSpace(g.TopFunc()), "sync.")
	}
	return false
}

// TopFunc returns the first function name in the stack.
func (g G) TopFunc() string {
	lines := strings.SplitN(g.Frames, "\n", 2)
	if len(lines) == 0 {
		return ""
	}
	l := lines[0]
	if i := strings.LastIndex(l, "("); i > 0 {
		l = l[:i]
	}
	return l
}

// InFunc reports whether any frame mentions substr.
func (g G) InFunc(substr string) bool { return strings.Contains(g.Frames, substr) }

var stackBuf = make([]byte, 1<<20)

func selfID() uint64 {
	var b [64]byte
	n := runtime.Stack(b[:], false)
	// "goroutine 123 ["
	f := bytes.Fields(b[:n])
	if len(f) < 2 {
		return 0
	}
	id, _ := strconv.ParseUint(string(f[1]), 10, 64)
	return id
}

// All returns every goroutine (user goroutines; the runtime hides system ones).
func All() []G {
	for {
		n := runtime.Stack(stackBuf, true)
		if n < len(stackBuf) {
			return parse(stackBuf[:n])
		}
		stackBuf = make([]byte, 2*len(stackBuf))
	}
}

func parse(b []byte) []G {
	var out []G
	for _, blk := range bytes.Split(b, []byte("\n\n")) {
		if !bytes.HasPrefix(blk, []byte("goroutine ")) {
			continue
		}
		nl := bytes.IndexByte(blk, '\n')
		head := blk
		rest := []byte{}
		if nl >= 0 {
			head = blk[:nl]
			rest = blk[nl+1:]
		}
		// goroutine 12 [chan receive, 2 minutes]:
		sp := bytes.IndexByte(head[10:], ' ')
		if sp < 0 {
			continue
		}
		id, err := strconv.ParseUint(string(head[10:10+sp]), 10, 64)
		if err != nil {
			continue
		}
		lb := bytes.IndexByte(head, '[')
		rb := bytes.LastIndexByte(head, ']')
		state := ""
		if lb >= 0 && rb > lb {
			state = string(head[lb+1 : rb])
			if c := strings.Index(state, ","); c >= 0 {
				state = state[:c]
			}
		}
		out = append(out, G{ID: id, State: state, Frames: string(rest)})
	}
	return out
}

// Tracker attributes goroutines to a case: everything not alive at Begin.
type Tracker struct {
	baseline map[uint64]struct{}
	// Ignore lets a check exclude goroutines it knows are irrelevant.
	Ignore func(G) bool
}

// Begin records the ids of all goroutines alive now.
func Begin() *Tracker {
	t := &Tracker{baseline: map[uint64]struct{}{}}
	for _, g := range All() {
		t.baseline[g.ID] = struct{}{}
	}
	return t
}

// Mine returns the goroutines created since Begin, without the caller.
func (t *Tracker) Mine() []G {
	mine, _ := t.snapshot()
	return mine
}

// snapshot returns the goroutines of the case and whether any OTHER goroutine
// (not the caller, not of the case) is busy.
func (t *Tracker) snapshot() (out []G, othersBusy bool) {
	self := selfID()
	for _, g := range All() {
		if g.ID == self {
			continue
		}
		if _, ok := t.baseline[g.ID]; ok {
			if g.Busy() {
				othersBusy = true
			}
			continue
		}
		if t.Ignore != nil && t.Ignore(g) {
			continue
		}
		out = append(out, g)
	}
	sort.Slice(out, func(i, j int) bool { return out[i].ID < out[j].ID })
	return out, othersBusy
}

func allParked(gs []G) bool {
	for _, g := range gs {
		if !g.Parked() {
			return false
		}
	}
	return true
}

func sig(gs []G) string {
	var sb strings.Builder
	for _, g := range gs {
		fmt.Fprintf(&sb, "%d:%s;", g.ID, g.State)
	}
	return sb.String()
}

// ErrBusy is returned when the ceiling is hit without reaching quiescence.
type ErrBusy struct {
	Busy []G
}

func (e *ErrBusy) Error() string {
	var sb strings.Builder
	sb.WriteString("not quiescent within ceiling; non-parked goroutines:\n")
	for _, g := range e.Busy {
		if !g.Parked() {
			fmt.Fprintf(&sb, "goroutine %d [%s]\n%s\n", g.ID, g.State, g.Frames)
		}
	}
	return sb.String()
}

// Wait blocks until every goroutine of the case is parked in two consecutive
// atomic snapshots with identical (id,state) sets, and returns the snapshot.
// ceiling == 0 means 30s. A ceiling hit is *inconclusive*, never a verdict.
func (t *Tracker) Wait(ceiling time.Duration) ([]G, error) {
	if ceiling == 0 {
		ceiling = 30 * time.Second
	}
	deadline := time.Now().Add(ceiling)
	backoff := 20 * time.Microsecond
	var last []G
	for {
		runtime.Gosched()
		gs, busy := t.snapshot()
		last = gs
		if allParked(gs) && !busy {
			runtime.Gosched()
			gs2, busy2 := t.snapshot()
			if allParked(gs2) && !busy2 && sig(gs) == sig(gs2) {
				return gs2, nil
			}
		}
		if time.Now().After(deadline) {
			return last, &ErrBusy{Busy: last}
		}
		time.Sleep(backoff)
		if backoff < 2*time.Millisecond {
			backoff *= 2
		}
	}
}

// Dump renders goroutines for replay files.
func Dump(gs []G) string {
	var sb strings.Builder
	for _, g := range gs {
		fmt.Fprintf(&sb, "goroutine %d [%s]\n%s\n\n", g.ID, g.State, g.Frames)
	}
	return sb.String()
}
