#!/bin/bash
# sweep.sh <tier> <seed...> : run every check (4 at a time, machine busy) and report exit codes
TIER=${1:-quick}; shift; SEEDS=${@:-1}
cd /verif
for s in $SEEDS; do
  ls evidence >/dev/null 2>&1
  for id in $(python3 -c "from checks_registry import REGISTRY; print(' '.join(sorted(REGISTRY)))"); do
    ( VERIF_SEED=$s python3 check.py $id $TIER > .build/sweep-$id-$s.log 2>&1; echo "$id seed=$s rc=$? $(grep -E '^C[0-9]+ (quick|thorough)' .build/sweep-$id-$s.log | tail -1) $(grep -c '^VIOLATION' .build/sweep-$id-$s.log) violations" ) &
    while [ $(jobs -r | wc -l) -ge ${PAR:-4} ]; do sleep 0.2; done
  done
  wait
done
