#!/usr/bin/env python3
"""setup_cmd: build every property's test binary once (warms the Go build
cache from files on disk only; nothing is fetched)."""
import os, subprocess, sys
ROOT = os.path.dirname(os.path.abspath(__file__))
sys.path.insert(0, ROOT)
import check
from checks_registry import REGISTRY
rc = 0
for pid, cfg in sorted(REGISTRY.items()):
    race = bool(cfg.get("race"))
    keys = [(cfg["pkg"], race)]
    for t in cfg["tests"]:
        k = (t.get("pkg", cfg["pkg"]), bool(t.get("race", race)))
        if k not in keys:
            keys.append(k)
    for pkg, r in keys:
        b = check.build(pid, cfg, r, pkg)
        print(pid, pkg, "race" if r else "", "built" if b else "BUILD FAILED")
        if not b:
            rc = 1
sys.exit(rc)
