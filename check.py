#!/usr/bin/env python3
"""check.py <PROPERTY-ID> [quick|thorough] [--replay FILE]

Driver for the property-based checks under /verif/harness (DESIGN.md 2.6/2.7/7).
Builds the property's test binary from /repo's current working tree, runs
shards of it as worker processes, triages crashes through the journal, writes
/verif/evidence/<ID>.json and prints

    VIOLATION property=<id> replay=<path>      (exit 1)
    KNOWN-FINDING: property=<id> <what>        (exit 0 if nothing else)

Exit 2 = inconclusive (build/infrastructure/time ceiling), never a verdict.
"""
import concurrent.futures as cf
import hashlib
import json
import os
import re
import shutil
import subprocess
import sys
import time

ROOT = os.path.dirname(os.path.abspath(__file__))
HARNESS = os.path.join(ROOT, "harness")
BUILD = os.path.join(ROOT, ".build")
REPO = "/repo"
NPROC = os.cpu_count() or 4

sys.path.insert(0, ROOT)
from checks_registry import REGISTRY, THOROUGH_SCALE  # noqa: E402


def goenv():
    e = dict(os.environ)
    e.update({
        "GOFLAGS": "-mod=mod", "GOPROXY": "off", "GOSUMDB": "off",
        "GOTOOLCHAIN": "local", "GOWORK": "off", "CGO_ENABLED": e.get("CGO_ENABLED", "1"),
    })
    return e


def splitmix(*parts):
    h = hashlib.sha256(("|".join(str(p) for p in parts)).encode()).digest()
    v = int.from_bytes(h[:8], "big") & 0x7FFFFFFFFFFFFFFF
    return v or 1


def repo_status():
    try:
        return subprocess.run(["git", "-C", REPO, "status", "--porcelain"], capture_output=True, text=True).stdout
    except Exception:
        return ""


def build(pid, cfg, race, pkg=None):
    """builds the test binary of the property's package (or of `pkg`: a test of
    another property's package run as part of this check, e.g. under -race)"""
    out = os.path.join(BUILD, pid)
    os.makedirs(out, exist_ok=True)
    name = "t" if pkg in (None, cfg["pkg"]) else "t." + os.path.basename(pkg)
    binp = os.path.join(out, name + (".race.test" if race else ".test"))
    cmd = ["go", "test", "-c", "-tags", "verif", "-o", binp]
    if race:
        cmd.append("-race")
    cmd.append("./" + (pkg or cfg["pkg"]))
    p = subprocess.run(cmd, cwd=HARNESS, env=goenv(), capture_output=True, text=True)
    if p.returncode != 0:
        sys.stderr.write("BUILD FAILED\n" + p.stdout + p.stderr)
        return None
    return binp


def load_findings(pid):
    path = os.path.join(ROOT, "known_findings.json")
    if not os.path.exists(path):
        return []
    with open(path) as f:
        data = json.load(f)
    out = []
    for e in data.get("findings", []):
        if e.get("property") == pid or pid in e.get("also", []):
            e = dict(e)
            r = (e.get("replays") or {}).get(pid)
            if r:
                e["replay"], e["test"] = r["file"], r["test"]
            out.append(e)
    return out


def run_proc(cmd, env, cwd, limit):
    t0 = time.time()
    try:
        p = subprocess.run(cmd, env=env, cwd=cwd, capture_output=True, text=True, timeout=limit, errors="replace")
        return p.returncode, p.stdout + "\n" + p.stderr, time.time() - t0, False
    except subprocess.TimeoutExpired as ex:
        o = (ex.stdout or b"")
        e = (ex.stderr or b"")
        if isinstance(o, bytes):
            o = o.decode(errors="replace")
        if isinstance(e, bytes):
            e = e.decode(errors="replace")
        return -9, o + "\n" + e, time.time() - t0, True


def shard_job(pid, binp, test, idx, seed, checks, tier, known_ids, workroot, limit, extra_env, replay_dir):
    wd = os.path.join(workroot, "%s-%d" % (test.get("label", test["name"]), idx))
    shutil.rmtree(wd, ignore_errors=True)
    os.makedirs(wd)
    env = goenv()
    env.update({
        "VERIF_OUT": os.path.join(wd, "out.jsonl"),
        "VERIF_JOURNAL": os.path.join(wd, "journal.jsonl"),
        "VERIF_REPLAY_DIR": replay_dir,
        "VERIF_TIER": tier,
        "VERIF_KNOWN": ",".join(known_ids),
        "VERIF_SHARD": str(idx),
        "VERIF_SEED_DERIVED": str(seed),
        "GORACE": "halt_on_error=0 log_path=%s" % os.path.join(wd, "race"),
    })
    env.pop("VERIF_REPLAY", None)
    env.update(extra_env or {})
    if test.get("gomaxprocs"):
        procs = test["gomaxprocs"]
        env["GOMAXPROCS"] = str(procs[idx % len(procs)])
    cmd = [binp, "-test.run", "^%s$" % test["name"], "-test.timeout", "0", "-test.count", "1"]
    if test.get("mode") == "fuzz":
        # native coverage-guided fuzzing: wall-clock budget, budget end = pass for this part
        cmd = [binp, "-test.run", "^$", "-test.fuzz", "^%s$" % test["name"], "-test.fuzztime", "%ds" % checks,
               "-test.fuzzcachedir", os.path.join(wd, "fuzzcache"), "-test.timeout", "0"]
    if test.get("mode", "rapid") == "rapid":
        cmd += ["-rapid.checks=%d" % checks, "-rapid.seed=%d" % seed, "-rapid.nofailfile",
                "-rapid.shrinktime=%s" % test.get("shrinktime", "20s")]
    rc, out, wall, timed_out = run_proc(cmd, env, wd, limit)
    return {"test": test["name"], "label": test.get("label", test["name"]), "mode": test.get("mode", "rapid"), "idx": idx, "seed": seed, "rc": rc, "out": out, "wall": wall,
            "timed_out": timed_out, "wd": wd, "checks": checks}


FAIL_RE = re.compile(r"^VERIF-FAIL property=(\S+) test=(\S+) symptom=(\S+) replay=(\S+)", re.M)
INCONC_RE = re.compile(r"^VERIF-INCONCLUSIVE (.*)$", re.M)
PASSED_RE = re.compile(r"OK, passed (\d+) tests")


def last_open_case(wd):
    j = os.path.join(wd, "journal.jsonl")
    if not os.path.exists(j):
        return None
    open_cases = {}
    order = []
    with open(j, errors="replace") as f:
        for line in f:
            try:
                r = json.loads(line)
            except Exception:
                continue
            if r.get("ev") == "BEGIN":
                open_cases[r["hash"]] = r
                order.append(r["hash"])
            elif r.get("ev") == "END":
                open_cases.pop(r["hash"], None)
    for h in reversed(order):
        if h in open_cases:
            return open_cases[h]
    return None


def race_reports(wd):
    import glob
    texts = []
    for f in sorted(glob.glob(os.path.join(wd, "race.*")) + glob.glob(os.path.join(wd, "race"))):
        try:
            texts.append(open(f, errors="replace").read())
        except Exception:
            pass
    return "\n".join(texts)


def triage(pid, res, replay_dir):
    """-> (kind, info) kind in pass|violation|inconclusive"""
    out = res["out"]
    races = race_reports(res["wd"])
    if "DATA RACE" in races:
        frames = [f for f in re.findall(r"^\s+(/repo/\S+\.go):\d+", races, re.M) if "_test.go" not in f]
        if frames:
            # identity of the finding: the pair of top repository frames of the first report
            first = races.split("WARNING: DATA RACE")[1]
            tops = []
            for block in re.split(r"\n\s*\n", first):
                m = re.findall(r"^\s+(\S+)\(\)\n\s+(/repo/\S+\.go:\d+)", block, re.M)
                m = [x for x in m if "_test.go" not in x[1]]
                if m:
                    tops.append("%s %s" % m[0])
                if len(tops) == 2:
                    break
            case = last_open_case(res["wd"])
            os.makedirs(replay_dir, exist_ok=True)
            key = hashlib.sha1("|".join(sorted(tops)).encode()).hexdigest()[:12]
            path = os.path.join(replay_dir, "%s-%s-race-%s.json" % (pid, res["test"], key))
            with open(path, "w") as f:
                json.dump({"property": pid, "test": res["test"], "symptom": "data-race",
                           "detail": "race detector report with engine frames: " + " <-> ".join(tops),
                           "descriptor": (case or {}).get("desc"), "report": first[:6000]}, f, indent=1)
            return "violation", {"replay": path, "symptom": "data-race", "test": res["test"]}
        return "inconclusive", {"why": "data race reported inside the harness only (harness bug)", "tail": races[:3000]}
    fails = FAIL_RE.findall(out)
    if fails:
        prop, test, symptom, path = fails[-1]
        return "violation", {"replay": path, "symptom": symptom, "test": test}
    if res["rc"] == 0:
        return "pass", {}
    if res["timed_out"]:
        return "inconclusive", {"why": "shard exceeded wall limit"}
    inc = INCONC_RE.findall(out)
    if inc:
        return "inconclusive", {"why": inc[-1]}
    crashed = ("panic:" in out or "fatal error:" in out or "DATA RACE" in out)
    case = last_open_case(res["wd"])
    if crashed and case is not None:
        engine_frames = re.findall(r"^\s+(/repo/\S+\.go:\d+)", out, re.M)
        engine_frames = [f for f in engine_frames if "_test.go" not in f]
        if engine_frames:
            os.makedirs(replay_dir, exist_ok=True)
            path = os.path.join(replay_dir, "%s-%s-crash-%s.json" % (pid, res["test"], case["hash"]))
            tail = out[-12000:]
            with open(path, "w") as f:
                json.dump({"property": pid, "test": res["test"], "symptom": "crash",
                           "detail": "worker process died while executing this case",
                           "descriptor": case.get("desc"), "stderr": tail}, f, indent=1)
            return "violation", {"replay": path, "symptom": "crash", "test": res["test"]}
    return "inconclusive", {"why": "worker exit %s without VERIF-FAIL (harness failure?)" % res["rc"], "tail": out[-3000:]}


def collect(workdirs):
    recs = []
    for wd in workdirs:
        p = os.path.join(wd, "out.jsonl")
        if not os.path.exists(p):
            continue
        with open(p, errors="replace") as f:
            for line in f:
                try:
                    recs.append(json.loads(line))
                except Exception:
                    pass
    return recs


def replay_known(pid, binp, finding, tier, known_ids, workroot):
    wd = os.path.join(workroot, "known-" + finding["id"])
    shutil.rmtree(wd, ignore_errors=True)
    os.makedirs(wd)
    env = goenv()
    env.update({"VERIF_REPLAY": os.path.join(ROOT, finding["replay"]), "VERIF_TIER": tier,
                "VERIF_KNOWN": ",".join(known_ids), "VERIF_REPLAY_DIR": os.path.join(wd, "replays"),
                "VERIF_OUT": os.path.join(wd, "out.jsonl")})
    cmd = [binp, "-test.run", "^%s$" % finding["test"], "-test.timeout", "300s", "-test.count", "1", "-test.v"]
    rc, out, wall, to = run_proc(cmd, env, wd, 330)
    return ("REPRODUCED" in out), out


def main():
    args = [a for a in sys.argv[1:]]
    if not args:
        print(__doc__)
        return 2
    pid = args[0]
    tier = os.environ.get("VERIF_TIER", "quick")
    replay = None
    i = 1
    while i < len(args):
        if args[i] in ("quick", "thorough"):
            tier = args[i]
        elif args[i] == "--replay":
            replay = args[i + 1]
            i += 1
        i += 1
    if pid not in REGISTRY:
        sys.stderr.write("unknown property %s\n" % pid)
        return 2
    cfg = REGISTRY[pid]
    seed = int(os.environ.get("VERIF_SEED", "1") or "1")
    t0 = time.time()
    status_before = repo_status()

    race = bool(cfg.get("race"))
    binp = build(pid, cfg, race)
    if binp is None:
        return 2
    bins = {(cfg["pkg"], race): binp}
    for test in cfg["tests"]:
        key = (test.get("pkg", cfg["pkg"]), bool(test.get("race", race)))
        if key not in bins:
            bins[key] = build(pid, cfg, key[1], key[0])
            if bins[key] is None:
                return 2
    workroot = os.path.join(BUILD, pid, "work-" + tier)
    os.makedirs(workroot, exist_ok=True)
    replay_dir = os.path.join(ROOT, "replays", "found", pid)

    findings = load_findings(pid)
    known = [f for f in findings if f.get("status") == "known"]
    known_ids = [f["id"] for f in known]

    # ---- replay mode -------------------------------------------------------
    if replay:
        with open(replay) as f:
            rf = json.load(f)
        test = rf.get("test")
        for t in cfg["tests"]:
            if t["name"] == test:
                binp = bins[(t.get("pkg", cfg["pkg"]), bool(t.get("race", race)))]
        env = goenv()
        env.update({"VERIF_REPLAY": os.path.abspath(replay), "VERIF_TIER": tier, "VERIF_KNOWN": ",".join(known_ids),
                    "VERIF_REPLAY_DIR": os.path.join(workroot, "replay-out")})
        cmd = [binp, "-test.run", "^%s$" % test, "-test.timeout", "600s", "-test.count", "1", "-test.v"]
        p = subprocess.run(cmd, env=env, cwd=workroot)
        return 1 if p.returncode != 0 else 0

    # replay files of earlier runs pile up when a broken tree is checked again and again: keep the newest 200
    try:
        old = sorted((os.path.join(replay_dir, f) for f in os.listdir(replay_dir)), key=os.path.getmtime)
        for f in old[:-200]:
            os.remove(f)
    except OSError:
        pass

    violations = []
    inconclusive = []
    known_lines = []

    # ---- 1. known findings: replay the minimal reproductions ----------------
    for fnd in known:
        if not fnd.get("replay"):
            known_lines.append((fnd, True))
            continue
        rep, out = replay_known(pid, binp, fnd, tier, known_ids, workroot)
        known_lines.append((fnd, rep))

    # ---- 2. campaigns --------------------------------------------------------
    jobs = []
    for test in cfg["tests"]:
        if tier not in test.get("tiers", ["quick", "thorough"]):
            continue
        shards = test.get("shards", {}).get(tier, 1)
        checks = test.get("checks", {}).get(tier, 100)
        if tier == "thorough":
            checks = int(checks * THOROUGH_SCALE.get(pid, 1))
        limit = test.get("limit", {}).get(tier, 900 if tier == "quick" else 5400)
        extra = dict(test.get("env", {}))
        for idx in range(shards):
            s = splitmix(seed, pid, test.get("label", test["name"]), idx)
            jobs.append((test, idx, s, checks, limit, extra))
    results = []
    maxw = min(NPROC, cfg.get("max_workers", NPROC))
    with cf.ThreadPoolExecutor(max_workers=maxw) as ex:
        futs = [ex.submit(shard_job, pid, bins[(t.get("pkg", cfg["pkg"]), bool(t.get("race", race)))], t, idx, s, checks, tier,
                          known_ids, workroot, limit, extra, replay_dir)
                for (t, idx, s, checks, limit, extra) in jobs]
        for fu in futs:
            results.append(fu.result())

    per_shard = []
    for res in results:
        kind, info = triage(pid, res, replay_dir)
        m = PASSED_RE.findall(res["out"])
        done = int(m[-1]) if m else None
        per_shard.append({"test": res["label"], "shard": res["idx"], "seed": res["seed"], "verdict": kind,
                          "wall_s": round(res["wall"], 2), "requested": res["checks"], "passed": done})
        if kind == "violation":
            violations.append(info)
        elif kind == "inconclusive":
            inconclusive.append((res, info))
        elif kind == "pass" and done is not None and done < res["checks"] and res["mode"] == "rapid":
            inconclusive.append((res, {"why": "rapid stopped at %d of %d cases" % (done, res["checks"])}))

    # ---- 3. evidence ---------------------------------------------------------
    recs = collect([r["wd"] for r in results])
    evaluations = 0
    nt_hashes = set()
    agg_ntd = 0
    classes = {}
    samples = []
    nt_samples = []
    excluded = {}
    known_hits = {}
    exhaustive = None
    per_test = {}
    for r in recs:
        tname = r.get("test", "?")
        pt = per_test.setdefault(tname, {"evaluations": 0, "nontrivial_hashes": set(), "agg_ntd": 0})
        if r.get("agg"):
            evaluations += r["n"]
            agg_ntd += r["ntd"]
            pt["evaluations"] += r["n"]
            pt["agg_ntd"] += r["ntd"]
            for k, v in (r.get("classcount") or {}).items():
                classes[k] = classes.get(k, 0) + v
            for s in (r.get("samples") or [])[:6]:
                nt_samples.append({"test": tname, "case": s})
            if r.get("exhaustive"):
                exhaustive = True if exhaustive is None else exhaustive
            continue
        if "excluded" in r:
            excluded[r["excluded"]] = excluded.get(r["excluded"], 0) + 1
            continue
        if "knownhit" in r:
            known_hits[r["knownhit"]] = known_hits.get(r["knownhit"], 0) + 1
            continue
        if "hash" not in r:
            continue
        evaluations += 1
        pt["evaluations"] += 1
        if r.get("nt"):
            nt_hashes.add(tname + ":" + r["hash"])
            pt["nontrivial_hashes"].add(r["hash"])
        for c in r.get("classes") or []:
            classes[c] = classes.get(c, 0) + 1
        if "sample" in r:
            (nt_samples if r.get("nt") else samples).append({"test": tname, "case": r["sample"]})
    all_samples = (nt_samples[:8] + samples[:3]) or ["no case recorded"]
    distinct_nt = len(nt_hashes) + agg_ntd
    for k, pt in per_test.items():
        pt["distinct_nontrivial"] = len(pt.pop("nontrivial_hashes")) + pt.pop("agg_ntd")
    only_exhaustive = bool(exhaustive) and all(
        t.get("mode") == "plain" for t in cfg["tests"] if tier in t.get("tiers", ["quick", "thorough"]))
    ev = {
        "property_id": pid,
        "tier": tier,
        "seed": seed,
        "level": cfg["level"],
        "coverage": {
            "evaluations": evaluations,
            "distinct_nontrivial": distinct_nt,
            "rule": cfg["rule"],
            "samples": all_samples,
            "classes": dict(sorted(classes.items())),
            "per_test": per_test,
            "excluded_by_construction": excluded,
            "known_finding_hits_in_unrestricted_campaign": known_hits,
            "shards": per_shard,
            "exhaustive": only_exhaustive,
            "exhaustive_part": bool(exhaustive),
            "inconclusive_shards": [i[1].get("why") for i in inconclusive],
            "known_findings_replayed": [{"id": f["id"], "reproduced": rep} for f, rep in known_lines],
        },
        "assumptions": cfg.get("assumptions", []),
        "wall_s": round(time.time() - t0, 2),
        "violations": len(violations),
    }
    evdir = os.environ.get("VERIF_EVIDENCE_DIR") or os.path.join(ROOT, "evidence")
    os.makedirs(evdir, exist_ok=True)
    with open(os.path.join(evdir, pid + ".json"), "w") as f:
        json.dump(ev, f, indent=1, default=str)

    status_after = repo_status()
    if status_after != status_before:
        sys.stderr.write("WARNING: /repo working tree status changed during the check:\n" + status_after)

    # ---- 4. verdict ----------------------------------------------------------
    for fnd, rep in known_lines:
        if rep:
            print("KNOWN-FINDING: property=%s %s: %s" % (pid, fnd["id"], fnd["what"]))
        else:
            print("note: listed finding %s did not reproduce in this run (schedule-dependent or repaired)" % fnd["id"])
    print("%s %s: %d cases, %d distinct non-trivial, %d shards, %.1fs" % (
        pid, tier, evaluations, distinct_nt, len(results), time.time() - t0))
    if violations:
        seen = set()
        for v in violations:
            if v["replay"] in seen:
                continue
            seen.add(v["replay"])
            print("VIOLATION property=%s replay=%s" % (pid, v["replay"]))
        return 1
    if inconclusive:
        for res, info in inconclusive:
            sys.stderr.write("INCONCLUSIVE %s shard %d: %s\n%s\n" % (res["test"], res["idx"], info.get("why"), info.get("tail", "")))
        return 2
    # everything passed and the evidence is written: the case journals of a thorough run (gigabytes) are not needed any more
    if tier == "thorough":
        for r in results:
            shutil.rmtree(r["wd"], ignore_errors=True)
    return 0


if __name__ == "__main__":
    try:
        rc = main()
    except SystemExit:
        raise
    except BaseException:
        # a fault of the driver itself (disk full, two runs sharing a work
        # directory, ...) is no verdict about the property
        import traceback
        traceback.print_exc()
        sys.stderr.write("INCONCLUSIVE driver error\n")
        rc = 2
    sys.exit(rc)
