#!/usr/bin/env python3
"""mkprompts.py [ids...] : write /tmp/wt-prompts/<id>.txt, the brief for a seeding sub-agent (development helper).
The agent sees the property text, its own scratch worktree /tmp/wt/<id> and the one-line summaries of earlier
seeded changes for the property - nothing from /verif."""
import glob, json, os, sys
props = {json.loads(l)["id"]: json.loads(l) for l in open("/verif/properties.jsonl")}
ids = sys.argv[1:] or sorted(props)
os.makedirs("/tmp/wt-prompts", exist_ok=True)
T = open("/verif/seeded/PROMPT.template").read()
for pid in ids:
    p = props[pid]
    earlier = []
    for d in sorted(glob.glob("/verif/seeded/%s*/meta.json" % pid)):
        m = json.load(open(d))
        s = (m.get("summary") or m.get("description") or "").replace("\n", " ")
        earlier.append("  - [%s] %s ..." % (", ".join(m.get("files", [])), s[:160]))
    txt = T.replace("@ID@", pid).replace("@TITLE@", p["title"]).replace("@STATEMENT@", p["statement"]).replace("@EARLIER@", "\n".join(earlier))
    open("/tmp/wt-prompts/%s.txt" % pid, "w").write(txt)
    print(pid, len(earlier), "earlier")
