"""Per-property configuration of check.py: which tests, how many cases, what
counts as non-trivial (the rule is evaluated inside the Go tests; the text here
is what the evidence file reports)."""

REGISTRY = {}
NOT_APPLICABLE = {}
HOOK_COMMITS = []

REGISTRY["C14"] = {
    "pkg": "props/c14",
    "level": "exploration",
    "level_text": ("Bounded-exhaustive enumeration of all event histories up to length 9 (1..3 definitions; 8 for 4) for all three satisfier "
                   "configurations plus rapid-drawn long histories, each prefix checked against an independent counting model. Exhaustive inside "
                   "the bound, sampled beyond it; says nothing about histories longer than explored."),
    "level_note": "Trusted: schema.Parse to obtain the catch/throw event element; the counting model in props/c14 (40 lines).",
    "technique": "bounded-exhaustive enumeration + rapid property test against a counting reference model",
    "rule": ("Bounded-exhaustive enumeration of every event history up to length L (quick 6, thorough 9; 8 for 4 definitions) "
             "over n=1..4 event definitions plus a non-matching symbol, for parallel-multiple catch, plain multiple catch and "
             "throw satisfiers, each prefix checked against the counting model (F<=min c_i; all c_i=k => F=k; non-matching "
             "events return (false,EventDidNotMatch) and leave behaviour identical to the history without them), plus rapid-drawn "
             "histories of length 7..40 with mixed signal/message/operationRef definitions and four kinds of non-matching events. "
             "Non-trivial: accounting (parallel) configuration with >=2 definitions in which some definition is matched twice "
             "while another has not been matched yet; for plain multiple: >=2 definitions. Distinct = distinct (configuration, history)."),
    "assumptions": ["definitions of one catch event have distinct references (two definitions matching the same event are outside the statement)"],
    "tests": [
        {"name": "TestC14Exhaustive", "mode": "plain", "shards": {"quick": 1, "thorough": 1}},
        {"name": "TestC14Random", "mode": "rapid", "checks": {"quick": 3000, "thorough": 100000},
         "shards": {"quick": 4, "thorough": 16}},
    ],
}
