"""Per-property configuration of check.py: which tests, how many cases, what
counts as non-trivial (the rule is evaluated inside the Go tests; the text here
is what the evidence file reports)."""

REGISTRY = {}
NOT_APPLICABLE = {}
HOOK_COMMITS = []

REGISTRY["C14"] = {
    "pkg": "props/c14",
    "level": "exploration",
    "level_text": ("Bounded-exhaustive enumeration of all event histories up to length 9 (1..3 definitions; 8 for 4) for all three satisfier "
                   "configurations plus rapid-drawn long histories, each prefix checked against an independent counting model. Exhaustive inside "
                   "the bound, sampled beyond it; says nothing about histories longer than explored."),
    "level_note": "Trusted: schema.Parse to obtain the catch/throw event element; the counting model in props/c14 (40 lines).",
    "technique": "bounded-exhaustive enumeration + rapid property test against a counting reference model",
    "rule": ("Bounded-exhaustive enumeration of every event history up to length L (quick 6, thorough 9; 8 for 4 definitions) "
             "over n=1..4 event definitions plus a non-matching symbol, for parallel-multiple catch, plain multiple catch and "
             "throw satisfiers, each prefix checked against the counting model (F<=min c_i; all c_i=k => F=k; non-matching "
             "events return (false,EventDidNotMatch) and leave behaviour identical to the history without them), plus rapid-drawn "
             "histories of length 7..40 with mixed signal/message/operationRef definitions and four kinds of non-matching events. "
             "Non-trivial: accounting (parallel) configuration with >=2 definitions in which some definition is matched twice "
             "while another has not been matched yet; for plain multiple: >=2 definitions. Distinct = distinct (configuration, history). "
             "TestC14Process drives the same histories through a real process (catch event with 1..4 definitions, parallelMultiple or not, "
             "optionally behind a task so that events also arrive before the catch event is armed) against the reference model: "
             "process level non-trivial = >=2 definitions and >=2 events. TestC14Loop puts a parallel-multiple catch event (2..3 definitions) in a loop so that it listens "
             "again and again with periods in between in which it does not listen; one event at a time, the firing observed at the fixpoint, and the invariants "
             "(F<=min c_i, all c_i=k => F=k, at most one firing per event, no firing on a non-matching event or while not listening) evaluated over the events delivered "
             "while the node listened - matches in surplus at a firing keep counting for later periods, events outside a listening period never count; "
             "non-trivial = >=2 listening periods and >=2 firings. TestC14Ring: the node in a ring without activities. TestC14Withdrawn: the node (1..3 definitions, multiple or parallel-multiple) is one alternative of an "
             "event-based gateway in a loop, loses 1..3 rounds to the other alternative and then wins 1..3: in a winning round it continues exactly once - on the first match (multiple) or when every definition "
             "has been matched once (parallel-multiple), the definitions' events delivered in any order."),
    "assumptions": ["definitions of one catch event have distinct references (two definitions matching the same event are outside the statement)"],
    "tests": [
        {"name": "TestC14Exhaustive", "mode": "plain", "shards": {"quick": 1, "thorough": 1}},
        {"name": "TestC14Random", "mode": "rapid", "checks": {"quick": 3000, "thorough": 100000},
         "shards": {"quick": 4, "thorough": 16}},
        {"name": "TestC14Process", "mode": "rapid", "checks": {"quick": 300, "thorough": 6000},
         "shards": {"quick": 4, "thorough": 16}},
        {"name": "TestC14Loop", "mode": "rapid", "checks": {"quick": 300, "thorough": 6000},
         "shards": {"quick": 4, "thorough": 16}},
        {"name": "TestC14Ring", "checks": {"quick": 150, "thorough": 5000}, "shards": {"quick": 4, "thorough": 8}},
        {"name": "TestC14Withdrawn", "checks": {"quick": 150, "thorough": 5000}, "shards": {"quick": 4, "thorough": 8}},
        # catch events with a timer AND a signal definition (plain multiple / parallel-multiple) in two instances of one parsed model that share one
        # timer definition builder, one tracer and one event bus: the C13 two-instance campaign, run here as part of this check
        {"name": "TestC13TwoInstances", "pkg": "props/c13", "label": "timer-and-signal-two-instances", "checks": {"quick": 300, "thorough": 4000}, "shards": {"quick": 4, "thorough": 8}},
    ],
}

LOCKSTEP_TRUST = ("Trusted: the reference token game (harness/model, written from the BPMN rules quoted in the property statements), "
                  "the goroutine-snapshot quiescence detector (an all-parked atomic snapshot is a fixpoint when no real-time timer is armed), "
                  "schema.Parse. Goroutine schedules inside the engine are sampled, not enumerated.")

REGISTRY["C01"] = {
    "pkg": "props/c01",
    "level": "exploration",
    "level_text": ("rapid-generated block-structured programs (sequence, exclusive, parallel, inclusive, loop, conditional flows leaving tasks, "
                   "embedded sub-processes, early end events, multi-merge; all nine task kinds; expr and XPath conditions, formal/informal) x data x "
                   "answer plans x answer orders, run in lock-step against an independent BPMN token game: after every answer the engine is brought "
                   "to an all-goroutines-parked fixpoint and the multiset of new task requests must equal the model's; at the end completion, "
                   "sequence flows taken, end events, cease-flow trace count and variables must agree. Sampled exploration, no absence claim."),
    "level_note": LOCKSTEP_TRUST,
    "technique": "rapid property test: lock-step differential against a reference token-game model, quiescence by goroutine snapshot",
    "rule": ("Cases are (program AST, default language, declaration-order seed, initial variables, per-task answer plans, answer schedule) drawn by rapid; "
             "distinct = hash of that descriptor. Non-trivial = the program has >=1 gateway/loop/conditional-task block AND (>=2 requests pending at once at some step "
             "OR a loop iteration was taken OR gateways of different kinds are nested). The main campaign constructs around listed findings (counted in "
             "excluded_by_construction is implicit: generator options); a smaller unrestricted campaign keeps them and attributes a failure to a finding only if "
             "structural predicate and symptom both match. TestC01Twice: two instances, one after the other, from ONE parsed model with different variable / data-object values, each in lock-step: what the first did must not show in the second."),
    "assumptions": ["no real-time timers are armed in generated programs (quiescence reasoning)",
                    "end events inside sub-processes are not observable on the instance trace stream (engine filters them); only root-level end events are compared"],
    "tests": [
        {"name": "TestC01Twice", "checks": {"quick": 60, "thorough": 1500}, "shards": {"quick": 8, "thorough": 8}, "gomaxprocs": [4, 1, 16, 2]},
        {"name": "TestC01Lockstep", "checks": {"quick": 250, "thorough": 6000}, "shards": {"quick": 16, "thorough": 32},
         "gomaxprocs": [4, 2, 1, 8]},
        {"name": "TestC01Lockstep", "label": "TestC01Lockstep-unrestricted", "env": {"VERIF_UNRESTRICTED": "1"},
         "checks": {"quick": 100, "thorough": 1500}, "shards": {"quick": 4, "thorough": 16}},
        # "with the variables the answered tasks wrote": what a gateway behind a task sees of the task's answer (integers, awkward floats,
        # partial answers, error modes) is the C08 campaign, run here as part of this check
        {"name": "TestC08Histories", "pkg": "props/c08", "label": "written-variables", "checks": {"quick": 150, "thorough": 5000}, "shards": {"quick": 4, "thorough": 8}},
    ],
}

REGISTRY["C03"] = {
    "pkg": "props/c03",
    "level": "exploration",
    "level_text": ("Bounded-exhaustive table: every N x M in 1..4, every finishing order of the N upstream tasks (thorough: times every order of the M "
                   "downstream tasks) for one activation, plus rapid-drawn orders for 2..3 consecutive activations of the same gateway inside a loop; "
                   "lock-step against the token game (nothing released before the N-th arrival, exactly the M downstream tasks once each after it) and "
                   "trace-level accounting at the gateway (M flows released and N-min(N,M) surplus arrivals consumed per activation). Exhaustive over shapes "
                   "and orders, sampled over goroutine schedules. TestC03Skew: 1..3 (a quarter of the cases up to 9) tokens PER incoming flow of one gateway (2..3 incoming, 1..3 outgoing; several tasks merged by an exclusive "
                   "gateway in front of each incoming flow), answered in any order - in particular several tokens on one incoming flow before anything arrived on another; "
                   "equal and unequal numbers per flow (tokens without a partner stay at the gateway, the instance does not complete). TestC03Wide: joins with 31..130 incoming flows (around and beyond 32 / 64), 1..3 branch tasks held back at drawn positions (the last declared, the first declared, anywhere): nothing before the last of them is answered, one token afterwards. "
                   "TestC03Edited: a parsed model with N declared branches of which K1 are wired at the fork and the join; one instance runs, the gateways' outgoing / incoming lists are "
                   "changed in code to K2 branches, a second instance is created from the same in-memory model and must fork and join K2 ways. "
                   "TestC03Burst: 2..10 tokens per incoming flow reach one parallel gateway (pure fork, or join of two flows) in a burst - the tasks in front of it are answered at the same moment: exactly K x M requests behind it, then completion."),
    "level_note": LOCKSTEP_TRUST,
    "technique": "bounded-exhaustive enumeration + rapid property test, lock-step differential against a token-game model",
    "rule": ("start -> fork(1->N) -> N tasks -> gateway under test (N->M) -> M tasks -> join(M->1) -> end, optionally inside a loop for re-entry. "
             "Distinct = (N, M, activations, answer order). Non-trivial = N >= 2 (a real synchronisation); TestC03Skew: some incoming flow carries >= 2 tokens."),
    "assumptions": [],
    "tests": [
        {"name": "TestC03Table", "mode": "plain", "shards": {"quick": 1, "thorough": 1}},
        {"name": "TestC03Reentry", "checks": {"quick": 150, "thorough": 3000}, "shards": {"quick": 8, "thorough": 16}, "gomaxprocs": [4, 1, 2, 16]},
        {"name": "TestC03Skew", "checks": {"quick": 60, "thorough": 1500}, "shards": {"quick": 8, "thorough": 16}, "gomaxprocs": [4, 1, 2, 16]},
        {"name": "TestC03Wide", "checks": {"quick": 8, "thorough": 150}, "shards": {"quick": 4, "thorough": 16}},
        {"name": "TestC03Edited", "checks": {"quick": 60, "thorough": 1500}, "shards": {"quick": 4, "thorough": 8}},
        {"name": "TestC03Burst", "checks": {"quick": 60, "thorough": 1500}, "shards": {"quick": 4, "thorough": 8}, "gomaxprocs": [16, 4, 2, 1]},
    ],
}

REGISTRY["C04"] = {
    "pkg": "props/c04",
    "level": "exploration",
    "level_text": ("Bounded-exhaustive table (1..4 conditional flows x default absent or at every position of the outgoing listing x all 2^k truth "
                   "assignments x 1..3 tokens arriving, concurrently for k>1, x expr and XPath) plus rapid-drawn cases with comparison, compound, informal "
                   "and data-object conditions, a (true / false) condition on the default flow itself, permuted declaration order, sequential/concurrent arrival "
                   "and a funnel topology (2-3 incoming flows, up to 6 tokens at once). Oracle: per token exactly one downstream "
                   "request - first true condition in listing order, else default - otherwise no flow and one ExclusiveNoEffectiveSequenceFlows error "
                   "trace per token naming the gateway; trace-level flow count at the gateway; completion iff a route existed. Conditions that cannot be evaluated to a boolean (unknown variable, non-boolean result, foreign syntax) appear at random listing positions: they are not true, the flows listed after them are still considered."),
    "level_note": "Trusted: the 20-line routing rule in props/c04 (first true in listing order, else default), quiescence detector, schema.Parse. XPath getDataObject is excluded (the repository's own test for it is skipped as not working).",
    "technique": "bounded-exhaustive enumeration + rapid property test against an explicit routing oracle, burst (concurrent) arrivals",
    "rule": ("start -> (fork ->) k upstream tasks -> exclusive gateway -> one task per outgoing flow -> end. Distinct = descriptor (conditions, default position, truth "
             "assignment, tokens, language, condition kinds, declaration seed, burst). Non-trivial = >=2 conditions true at once, or the default flow not last in the listing, or >=2 tokens."),
    "assumptions": ["XPath conditions address variables as //name (the engine's XML view has a <doc> wrapper only when there are >=2 variables)"],
    "tests": [
        {"name": "TestC04Table", "mode": "plain", "shards": {"quick": 1, "thorough": 1}},
        {"name": "TestC04Random", "checks": {"quick": 200, "thorough": 5000}, "shards": {"quick": 8, "thorough": 16}, "gomaxprocs": [4, 1, 2, 16]},
    ],
}

REGISTRY["C05"] = {
    "pkg": "props/c05",
    "level": "exploration",
    "level_text": ("Table: inclusive fork with 1..3 (thorough 4) conditional branches x all truth assignments x default absent / at every branch x four body "
                   "variants (single task, task chain, branch that may end through an exclusive gateway before the join, empty branch; block repeated) x "
                   "three deterministic completion orders; plus rapid-drawn bodies, listing orders, completion orders, both languages. Lock-step against "
                   "the token game whose join fires when every token of the fork has arrived or ended (the latest moment the property allows) and accepts "
                   "an earlier firing from the moment the BPMN rule enables it; fork error case (no true condition, no default) expects the error trace and no token. "
                   "TestC05Funnel: 2..4 tokens from separate start events reach ONE inclusive gateway one after another, each seeing different values of the variable its "
                   "conditions read (several branches / one / default only / no flow at all with an error trace), in any order: an activation must not depend on the previous ones. "
                   "Every lock-step run also compares the multiset of gateway / task error traces with the model's."),
    "level_note": LOCKSTEP_TRUST + " The asynchronous catch-up of the join's tracker is exercised only through GOMAXPROCS variation and natural scheduling.",
    "technique": "bounded-exhaustive table + rapid property test, lock-step differential against a token-game model with an allowed firing window for the join",
    "rule": ("task -> inclusive fork -> branches -> inclusive join -> task (block possibly twice). Distinct = descriptor incl. answer order. Non-trivial = >=2 branches "
             "activated with >=2 requests pending at once, or an activated branch that ends before the join, or an unactivated branch present. TestC05Nested: inclusive "
             "gateways nested with other forks; a shadow of the engine's bookkeeping (model/shadow.go) tells the runs in which known finding C05-F1 can apply (class "
             "inside-C05-F1-pattern: a failure with a matching symptom is attributed to the finding) from the others (class checked-strictly: any failure is a violation). "
             "TestC05Funnel: non-trivial = the activations of the gateway are of at least two different kinds. TestC05Foreign (invariants, no model): the join also receives 1..3 tokens "
             "that do not come from its fork (parallel sibling of the fork / start events of their own, one incoming flow each), a fork token arrives first: no release while an activated "
             "branch is out, a release once all are in, 1..1+f releases in the end, completion; non-trivial = a foreign token reaches the join while an activated branch is still out."),
    "assumptions": ["inclusive gateways are not nested with other forks in the main campaign (finding C05-F1, constructed around); nested shapes are judged in TestC05Nested, strictly wherever the finding cannot apply"],
    "tests": [
        {"name": "TestC05Table", "mode": "plain", "shards": {"quick": 1, "thorough": 1}},
        {"name": "TestC05Random", "checks": {"quick": 200, "thorough": 5000}, "shards": {"quick": 8, "thorough": 16}, "gomaxprocs": [4, 1, 2, 16]},
        {"name": "TestC05Nested", "env": {"VERIF_UNRESTRICTED": "1"}, "checks": {"quick": 200, "thorough": 2000}, "shards": {"quick": 8, "thorough": 8}},
        {"name": "TestC05Funnel", "checks": {"quick": 100, "thorough": 2500}, "shards": {"quick": 4, "thorough": 16}, "gomaxprocs": [4, 1, 2, 16]},
        {"name": "TestC05Foreign", "checks": {"quick": 150, "thorough": 2500}, "shards": {"quick": 4, "thorough": 8}, "gomaxprocs": [4, 1, 2, 16]},
        # "... or ended elsewhere": a token of the fork that is withdrawn as the losing alternative of an event-based gateway (or wins and
        # ends elsewhere) while its sibling waits at the inclusive join - the C06 campaign (IncSibling / IncMerge shapes)
        {"name": "TestC06EventGateway", "pkg": "props/c06", "label": "fork-token-withdrawn-at-event-gateway", "checks": {"quick": 150, "thorough": 3000}, "shards": {"quick": 4, "thorough": 8}},
    ],
}

REGISTRY["C12"] = {
    "pkg": "props/c12",
    "level": "exploration",
    "level_text": ("Metamorphic + model: every drawn C01-style program P is run twice under the same answer schedule - as is, and as P' with 1..3 rapid-chosen "
                   "blocks wrapped in 1..3 nested embedded sub-processes (inside parallel/inclusive branches too). Each run is in lock-step with the token "
                   "game (so the first request after the sub-process appears only after the last inner answer, exactly once; one ProcessLandMarkTrace per "
                   "activation; the enclosing instance completes) and the two engine runs must request the same logical tasks at every step and end with the "
                   "same variables and completion status. TestC12CondOut: an activity with 2..3 conditional outgoing flows, as a plain task and wrapped in 1..3 nested sub-processes (the conditional flows then leave the outermost sub-process): the tokens continue on the same flows in both variants, those whose condition holds. TestC12MultiStart: sub-processes with 1..12 inner start events whose branches hold 0..2 tasks or are consumed at the start "
                   "event itself (false condition), optionally inside a parallel branch, under perturbation at start.flow / subprocess.activate, in lock-step with the token game. "
                   "Every request, at process level and inside sub-processes alike, must be made in a context that descends from the one given to StartAll (the harness starts every "
                   "instance with a context that differs from the construction context by a value)."),
    "level_note": LOCKSTEP_TRUST + " Blocks that contain an early end event are not wrapped (an end event inside a sub-process ends only the inner token, so the wrapped program is not equivalent by BPMN semantics).",
    "technique": "rapid property test: metamorphic relation (wrapped vs inlined program under the same schedule) plus lock-step model conformance",
    "rule": ("Distinct = (program, wrapped block indices and nesting levels, language, data, plan, schedule). Non-trivial = at least one wrapped block contains a task. "
             "Classes: wrapInsideFork, depth>=2, wraps>=2, wrapEnteredRepeatedly (unrestricted campaign only: known finding C12-F3)."),
    "assumptions": ["a sub-process is activated at most once per instance in the main campaign (finding C12-F3, constructed around)"],
    "tests": [
        {"name": "TestC12Metamorphic", "checks": {"quick": 80, "thorough": 2500}, "shards": {"quick": 16, "thorough": 32}, "gomaxprocs": [4, 1, 2, 16]},
        {"name": "TestC12MultiStart", "checks": {"quick": 250, "thorough": 6000}, "shards": {"quick": 8, "thorough": 16}, "gomaxprocs": [4, 16, 2, 1]},
        {"name": "TestC12CondOut", "checks": {"quick": 150, "thorough": 4000}, "shards": {"quick": 2, "thorough": 8}},
        # event nodes inside sub-processes behave (and announce themselves) like their inline counterparts: the C11 campaign, whose catch events sit at process
        # level or inside 1..2 nested sub-processes, is part of this check
        {"name": "TestC11Delivery", "pkg": "props/c11", "label": "catch-events-inside-sub-processes", "checks": {"quick": 100, "thorough": 3000}, "shards": {"quick": 4, "thorough": 8}},
        # boundary events of activities inside sub-processes (C10's main campaign puts its host into 1..2 nested sub-processes)
        {"name": "TestC10Boundary", "pkg": "props/c10", "label": "boundary-events-inside-sub-processes", "checks": {"quick": 100, "thorough": 3000}, "shards": {"quick": 4, "thorough": 8}},
        {"name": "TestC12Metamorphic", "label": "TestC12Metamorphic-unrestricted", "env": {"VERIF_UNRESTRICTED": "1"},
         "checks": {"quick": 60, "thorough": 1000}, "shards": {"quick": 4, "thorough": 8}},
    ],
}

REGISTRY["C08"] = {
    "pkg": "props/c08",
    "level": "exploration",
    "level_text": ("rapid-drawn answer histories per task request: 1..3 Do calls, sequential or released concurrently, each a distinguishable payload "
                   "(results with declared/undeclared names, data outputs declared/undeclared, error without handler, skip, exit, retry 0..3), up to 4 attempts "
                   "(re-requests), all nine task kinds, a downstream exclusive gateway that reads the stored result (or no outgoing flow at all: implicit end), error modes on the downstream task too. "
                   "After each attempt the instance is brought to quiescence: every Do must have returned (a Do goroutine parked at the fixpoint is the "
                   "'blocks forever' verdict), and requests/variables/data objects/error-trace count must equal the model outcome of exactly one of the "
                   "allowed effective calls (the first for sequential calls, any one for concurrent calls). Perturbation point inside Do widens the race window."),
    "level_note": "Trusted: the 60-line outcome model in props/c08, quiescence detector. Exactness of the retry count is asserted for the first failing activity of a token, the upper bound ('at most') for the downstream task.",
    "technique": "rapid property test over generated answer histories with an explicit outcome model; stuck detection by goroutine snapshot; schedule perturbation hook",
    "rule": ("Distinct = descriptor (task kind, declared names, histories, perturbation seed). Non-trivial = some attempt has >=2 Do calls, or an error mode, or an undeclared name."),
    "tests": [
        {"name": "TestC08Histories", "checks": {"quick": 400, "thorough": 20000}, "shards": {"quick": 16, "thorough": 16}, "gomaxprocs": [4, 2, 16, 8]},
        # "visible to every later task": what a later task sees of stored results through olive property / header references
        # (nested paths, array positions, typed and untyped values) is exercised by the C16 engine campaign, run here as part of this check
        {"name": "TestC16Engine", "pkg": "props/c16", "label": "later-task-inputs", "checks": {"quick": 100, "thorough": 3000}, "shards": {"quick": 4, "thorough": 8}},
    ],
}

REGISTRY["C02"] = {
    "pkg": "props/c02",
    "level": "exploration",
    "level_text": ("rapid-drawn histories over an instance's life: processes with 1..3 start events (separate or merging chains, optional parallel block, forks with a branch that ends at once, "
                   "start events whose only outgoing flow is false), "
                   "actions {answer a pending task, start a waiter, start a waiter whose context expires, start 2..4 concurrent waiters, wait again after an "
                   "expiry}, schedule perturbation at the start-up window. After every action the instance is brought to quiescence and the invariant is "
                   "checked: StartAll returned; no waiter returned true while the model holds a token; a waiter with a live context never returned false; an "
                   "expired waiter returned; once the model is empty every live and every later waiter has returned true (still blocked at the fixpoint = "
                   "never); exactly one CeaseFlowTrace and no flow trace after it. TestC02Shared: 2..3 instances reporting to one tracer (bpmn.WithTracer; every fifth case "
                   "a tracer each, as control group), start events triggered one by one with Process.StartWith so that an instance stays partially started while "
                   "other instances start, run and complete; histories interleave the instances; per instance the same invariant plus: no CeaseFlowTrace before "
                   "every start event of THAT instance fired and its last token is gone."),
    "level_note": LOCKSTEP_TRUST + " 'Within bounded time' is decided as 'returned by the time nothing can move any more'. Waiting on an instance none of whose start events was ever triggered is outside the generated domain (the engine answers true at once; no caller does this).",
    "technique": "rapid property test over generated call histories (stateful), model-based invariant after every step, stuck detection by goroutine snapshot",
    "rule": ("Distinct = descriptor (start events, chain shapes, action list, perturbation seed). Non-trivial = (>=2 waiters or a repeated wait after expiry or >=2 start events) "
             "and at least one task answered after a wait was started. TestC02Shared: shared tracer and (an instance partially started while another instance's start event fires, or two instances alive at once)."),
    "tests": [
        {"name": "TestC02Waiters", "checks": {"quick": 120, "thorough": 4000}, "shards": {"quick": 16, "thorough": 16}, "gomaxprocs": [4, 2, 16, 1]},
        {"name": "TestC02Shared", "checks": {"quick": 60, "thorough": 2000}, "shards": {"quick": 8, "thorough": 16}, "gomaxprocs": [4, 2, 16, 1]},
    ],
}

EVENT_TRUST = ("Trusted: the reference token game incl. its event rules (harness/model/events.go), the quiescence detector, schema.Parse. Concurrent (burst) "
               "stimuli are accepted if the observation equals the model outcome of any serialisation of the burst.")

REGISTRY["C11"] = {
    "pkg": "props/c11",
    "level": "exploration",
    "level_text": ("rapid-drawn processes with 1..3 intermediate catch events (signal, message with and without operationRef; shared references allowed) in "
                   "sequence, in parallel branches, on exclusive branches of which only one is taken, or inside 1..2 nested embedded sub-processes sitting in parallel branches, optionally behind a task; scripts of up to 12 stimuli "
                   "mixing task answers, matching / non-matching / wrong-kind / wrong-operation events (up to 8, more than any node inbox holds) and bursts of two "
                   "concurrent events. After every stimulus: quiescence; every ConsumeEvent call must have returned (parked at the fixpoint = blocks forever); the "
                   "new task requests must be exactly those of the listeners the model releases (each waiting token once per delivered event, nothing for "
                   "non-matching or not-armed deliveries); completion iff the model is empty. Boundary catch events (attached to tasks that hold one or two tokens, re-activated hosts, "
                   "repeated and racing events) are exercised by re-running the unrestricted C10 campaign as part of this check. TestC11ThrowStart: the instance is started by triggering an intermediate throw event "
                   "(ThrowAll or StartWith with the element) instead of a start event; 1..3 catch events (signal / message) behind it, 1..6 events delivered one by one: the tasks requested are exactly those behind the listening catch events an event matches. "
                   "TestC11AfterCancel: start -> task -> catch -> task -> end started with a context of its own; 0..6 events while it runs, the run context (and sometimes the construction context) cancelled, 2..8 events afterwards: every ConsumeEvent call has returned at the next fixpoint."),
    "level_note": EVENT_TRUST,
    "technique": "rapid property test over generated event/answer scripts, lock-step differential against the token-game model, stuck detection by goroutine snapshot",
    "rule": ("Distinct = descriptor (shape, catch definitions, script, perturbation seed). Non-trivial = >=2 events delivered of which at least one released a listener and at least one had no effect "
             "(non-matching or nothing armed), or a catch event on a branch that is never taken is present."),
    "tests": [
        {"name": "TestC11Delivery", "checks": {"quick": 150, "thorough": 5000}, "shards": {"quick": 16, "thorough": 16}, "gomaxprocs": [4, 2, 16, 1]},
        {"name": "TestC11ThrowStart", "checks": {"quick": 200, "thorough": 6000}, "shards": {"quick": 2, "thorough": 8}},
        {"name": "TestC11AfterCancel", "checks": {"quick": 200, "thorough": 6000}, "shards": {"quick": 2, "thorough": 8}},
        # boundary catch events are catch events too: the C10 campaign that keeps several tokens in a host and repeated events in the domain
        # (failures are attributed to findings C10-F1/F2/F3 only if the run agrees step by step with the model of those deviations)
        {"name": "TestC10Boundary", "pkg": "props/c10", "label": "boundary-catch-events", "env": {"VERIF_UNRESTRICTED": "1"},
         "checks": {"quick": 100, "thorough": 2000}, "shards": {"quick": 4, "thorough": 8}},
        # ... and so are the catch events behind an event-based gateway (one or two tokens waiting there): the C06 campaign
        {"name": "TestC06EventGateway", "pkg": "props/c06", "label": "catch-events-behind-event-gateway", "checks": {"quick": 80, "thorough": 2000}, "shards": {"quick": 4, "thorough": 8}},
    ],
}

REGISTRY["C06"] = {
    "pkg": "props/c06",
    "level": "exploration",
    "level_text": ("rapid-drawn event-based gateways with 2..3 alternatives (signal / message / message with operation; in a third of the cases the last alternative is a "
                   "duration timer on a mock clock whose due time can be reached before the gateway, while it waits - alone or concurrently with competing events - or after the decision; "
                   "in a third the winner's branch loops back into the gateway; in two fifths the whole construct sits inside 1..2 nested embedded sub-processes), optionally behind a task, branches "
                   "ending separately or merging; scripts: an optional early event, a non-empty sequence of up to 4 competing / non-matching events of which "
                   "adjacent ones may be delivered concurrently from separate goroutines, the answer of the winner's task, then up to 6 late deliveries of "
                   "(losing) events; perturbation right after the compare-and-swap. Oracle: exactly one branch task requested - the first matching event's for "
                   "sequential delivery, either one for a concurrent pair - no other branch ever, every ConsumeEvent returns, the instance completes after the "
                   "winner's task, nothing happens afterwards."),
    "level_note": EVENT_TRUST,
    "technique": "rapid property test over generated event scripts incl. concurrent bursts, lock-step differential against the token-game model (any serialisation of a burst accepted)",
    "rule": ("Distinct = descriptor. Non-trivial = >=2 distinct competing events in the history and (a concurrent pair or a late delivery after the winner's task was answered)."),
    "tests": [
        {"name": "TestC06EventGateway", "checks": {"quick": 150, "thorough": 5000}, "shards": {"quick": 16, "thorough": 16}, "gomaxprocs": [4, 2, 16, 8]},
    ],
}

REGISTRY["C10"] = {
    "pkg": "props/c10",
    "level": "exploration",
    "level_text": ("rapid-drawn hosts (each task kind, embedded sub-process) with 1..2 boundary events (signal/message; interrupting or not), whose normal and "
                   "exception paths end in distinct tasks and end events; scripts of events (matching, non-matching, before activation, while the host waits, "
                   "racing the host's answer in a concurrent burst, after completion, repeated) and answers, in lock-step with the token game: an interrupting "
                   "event makes the exception task appear once and the normal-path task never (also after a later answer of the host), a non-interrupting one adds "
                   "an exception token per event, late events do nothing, the instance completes. Three root causes are listed as known findings (C10-F1..F3); "
                   "the main campaign constructs around them (non-interrupting events, each fired exactly once while the host waits) and the unrestricted campaign "
                   "keeps them, attributing failures only on matching pattern and symptom."),
    "level_note": EVENT_TRUST + " Because of the three listed findings the main campaign covers only the part of the property the engine can currently satisfy.",
    "technique": "rapid property test over generated event/answer scripts incl. event-vs-answer races, lock-step differential against the token-game model",
    "rule": ("Distinct = descriptor. Non-trivial = at least one boundary event fired (model) or >=2 events delivered. TestC10LateEvent: the boundary's event is delivered from the subscriber the moment it receives the host's ActiveBoundaryTrace{Start:false}; it must not react (all cases non-trivial)."),
    "assumptions": ["main campaign: boundary events are non-interrupting and each fires exactly once while the host waits (findings C10-F1, C10-F2, C10-F3 constructed around)"],
    "tests": [
        {"name": "TestC10Boundary", "checks": {"quick": 100, "thorough": 3000}, "shards": {"quick": 12, "thorough": 16}, "gomaxprocs": [4, 2, 16, 1]},
        {"name": "TestC10Boundary", "label": "TestC10Boundary-unrestricted", "env": {"VERIF_UNRESTRICTED": "1"},
         "checks": {"quick": 100, "thorough": 2000}, "shards": {"quick": 4, "thorough": 8}},
        {"name": "TestC10LateEvent", "checks": {"quick": 600, "thorough": 6000}, "shards": {"quick": 12, "thorough": 16}, "gomaxprocs": [4, 2, 16, 1]},
    ],
}

REGISTRY["C09"] = {
    "pkg": "props/c09",
    "level": "exploration",
    "level_text": ("(a) Tracer in isolation: rapid-drawn scripts with 1..8 registered senders (1..12 payloads each, all concurrent), a permanent reference "
                   "subscriber (buffer 0..4) and 0..4 further subscribers with buffer 0..16, a subscribe point, an unsubscribe point and a read delay; every "
                   "Send/Subscribe/Unsubscribe is stamped with a logical clock. Oracle: the reference sequence contains every payload once in each sender's "
                   "order; every other subscriber's sequence is a contiguous infix of it, contains nothing whose Send returned before its SubscribeChannel "
                   "call or was invoked after its Unsubscribe returned, and starts no later than the first payload sent after its subscription returned; all "
                   "calls return (all-parked fixpoint with unfinished participants = deadlock); after cancel + senders done channels and Done() are closed. "
                   "(b) Engine: C01-style generated programs run with two recording subscribers; both must see the identical sequence and the stream must "
                   "obey the causality grammar (FlowTrace announces forked flows before their NewFlowTrace, Visit before Leave per node, nothing after a flow's "
                   "TerminationTrace). (c) TestC09CancelledStart: processes with 2..3 start events and disjoint task chains; the context handed to ONE StartWith call is cancelled (the instance context stays alive) after 0..2 answers in its chain, then the other start events are triggered and their chains answered: every later request must still arrive, no call may block, and two recording subscribers must have seen the same sequence - an internal subscriber (completion monitor, relay) that goes away at the cancellation must not disturb the stream. "
                   "(d) TestC09CancelledSet: a process set (built with a context of its own or none) whose RUN context is cancelled while 2..24 flows are alive: both subscribers of the set's tracer receive "
                   "one cancellation trace per flow that was alive and the same sequence - the set's watchers of the per-process tracers leave at that moment and must not stall the stream."),
    "level_note": "Trusted: the logical-clock bounds (Send returns when the broadcaster has taken the trace), the grammar checker drive.Causality, quiescence detector. Interleavings are sampled (perturbation at tracer.Send, GOMAXPROCS variation).",
    "technique": "rapid property tests: generated concurrent sender/subscriber scripts against an order/infix oracle; trace-grammar invariant over generated engine runs",
    "rule": ("(a) distinct = script; non-trivial = >=2 senders and >=1 subscriber that joined or left mid-stream. (b) distinct = lock-step case; non-trivial = the run contains >=1 fork (FlowTrace announcing >1 flow)."),
    "tests": [
        {"name": "TestC09Tracer", "checks": {"quick": 250, "thorough": 20000}, "shards": {"quick": 12, "thorough": 16}, "gomaxprocs": [4, 2, 16, 1]},
        {"name": "TestC09Engine", "checks": {"quick": 120, "thorough": 4000}, "shards": {"quick": 8, "thorough": 16}, "gomaxprocs": [4, 2, 16, 1]},
        {"name": "TestC09CancelledStart", "checks": {"quick": 60, "thorough": 2000}, "shards": {"quick": 4, "thorough": 16}, "gomaxprocs": [4, 2, 16, 1]},
        {"name": "TestC09CancelledSet", "checks": {"quick": 60, "thorough": 500}, "shards": {"quick": 4, "thorough": 8}, "gomaxprocs": [4, 1, 2, 16]},
        # trace order of boundary-event flows (hosts entered again, two tokens in one host): every driven run checks that a flow id is announced once
        {"name": "TestC10Boundary", "pkg": "props/c10", "label": "boundary-event-flows", "env": {"VERIF_UNRESTRICTED": "1"}, "checks": {"quick": 100, "thorough": 3000}, "shards": {"quick": 4, "thorough": 8}},
        {"name": "TestC10Boundary", "pkg": "props/c10", "label": "boundary-event-flows-main", "checks": {"quick": 60, "thorough": 2000}, "shards": {"quick": 4, "thorough": 8}},
        # nothing dropped on the way from inner flows to the subscribers of the instance's tracer: sub-processes with 1..12 start events
        # (the first inner flows are already sending while later start events are still being triggered) - the C12 campaign
        {"name": "TestC12MultiStart", "pkg": "props/c12", "label": "inner-traces-of-multi-start-sub-processes", "checks": {"quick": 500, "thorough": 6000}, "shards": {"quick": 12, "thorough": 16}, "gomaxprocs": [16, 4, 16, 16]},
    ],
}

REGISTRY["C13"] = {
    "pkg": "props/c13",
    "level": "exploration",
    "level_text": ("rapid-drawn timer definitions (timeDate, timeDuration in S/M/H, timeCycle Rn/PT.., Rn/<start>/PT.., Rn/PT../<end>, Rn/<start>/<end>, n in "
                   "{unbounded,0,1,2,3}) x histories of 1..6 steps, each a clock Set to a point from a grid around the due times (1 ns before, exactly at, "
                   "1 ns after), a small advance, a jump of hours, a jump backwards, or a cancellation. After every step the timer goroutines are brought to "
                   "quiescence (mock clock: no real time involved) and the number of values received, the closed state and the spacing of firings are compared "
                   "with a 40-line reference model of the documented semantics. Process level: a timer catch event built with "
                   "timer.EventDefinitionInstanceBuilder, optionally behind a task: the task after it is requested exactly once per firing it was listening for. TestC13FarDates: date timers due days to millennia away from the clock (around and beyond the ~292-year range of time.Duration, dates in the past) with clock jumps of that size, forwards and backwards: exactly one firing, at the first clock value not before the due date."),
    "level_note": "Trusted: the reference timer model in props/c13, clock.Mock as the time source, the quiescence detector. Durations in seconds/minutes/hours only (the ISO library's month/year arithmetic is not the subject).",
    "technique": "rapid property test over generated clock histories against a reference timer model (deterministic via mock clock + goroutine-snapshot quiescence)",
    "rule": ("Distinct = (definition, history). Non-trivial = a step lands exactly on a due time, or jumps beyond >=2 due times of a cycle, or a cancellation comes between firings. Process level: >=2 clock steps."),
    "assumptions": ["process level: timers are not already due when the instance is built (that firing races the token's arrival at the catch event)"],
    "tests": [
        {"name": "TestC13Unit", "checks": {"quick": 600, "thorough": 25000}, "shards": {"quick": 12, "thorough": 16}},
        {"name": "TestC13Process", "checks": {"quick": 150, "thorough": 5000}, "shards": {"quick": 4, "thorough": 16}},
        {"name": "TestC13TwoInstances", "checks": {"quick": 100, "thorough": 3000}, "shards": {"quick": 2, "thorough": 8}},
        {"name": "TestC13Funnel", "checks": {"quick": 150, "thorough": 4000}, "shards": {"quick": 4, "thorough": 16}},
        {"name": "TestC13FarDates", "checks": {"quick": 300, "thorough": 20000}, "shards": {"quick": 2, "thorough": 16}},
        {"name": "TestC13Many", "checks": {"quick": 40, "thorough": 1000}, "shards": {"quick": 4, "thorough": 8}, "gomaxprocs": [16, 4, 2, 1]},
        # "after cancellation a timer never fires again / continues exactly once per firing it was LISTENING for": timer boundary events on hosts that complete
        # before the timer is due, are interrupted, or are entered again - the C10 campaign (a fifth of its cases attach a duration timer, mock clock)
        {"name": "TestC10Boundary", "pkg": "props/c10", "label": "timer-boundary-events", "env": {"VERIF_UNRESTRICTED": "1"}, "checks": {"quick": 300, "thorough": 3000}, "shards": {"quick": 4, "thorough": 8}},
    ],
}

REGISTRY["C20"] = {
    "pkg": "props/c20",
    "level": "exploration",
    "level_text": ("rapid-drawn histories over a pool of generators: create sno generators (up to 8 alive), create fallback generators (also 2..8 at the same moment "
                   "from separate goroutines), draw batches of 1..20000 ids from 1..16 goroutines concurrently, snapshot a generator, restore a new generator from "
                   "an earlier snapshot; up to 2*10^5 draws per history (10^6 thorough). Oracle: global sets keyed by String() and by Bytes(): every id of a "
                   "non-restored generator is new; a restored generator's ids are disjoint from what its source issued before the snapshot; plus the flow and "
                   "instance ids seen in the traces of all engine runs executed in the same test binary never repeat. Draws also come from 2..4 different generators at the same time (one goroutine each); generators carry a lineage (related by snapshot / restore): ids of generators of different lineages must never collide, restored generators included. TestC20Exhaustion (a process of its own): 140 000 (thorough 280 000) generators are requested - more than twice the 65 535 partitions of the id library - while the first three and every 5000th stay in use; every identifier of every generator that was handed out must be new."),
    "level_note": "Trusted: nothing beyond Go maps. Ids a source issues after the snapshot are not compared with the restored generator's (two live holders of one partition are outside the statement). Collisions of time-derived fallback prefixes or random sno partitions across generators are possible in principle with negligible probability; a reported collision prints the values.",
    "technique": "rapid stateful property test (generator pool history) with a global uniqueness oracle; concurrent draws",
    "rule": ("Distinct = history descriptor. Non-trivial = >=2 goroutines drawing >=10^4 ids concurrently from one generator, or >=2 generators alive, or a restore. TestC20ManyInstances: 300..2000 start->end instances created through Engine.NewProcess from 1..8 goroutines (default generators) and started: instance ids and NewFlowTrace flow ids of the round pairwise distinct; non-trivial = at least 800 instances."),
    "max_workers": 4,
    "tests": [
        {"name": "TestC20Pool", "checks": {"quick": 25, "thorough": 150}, "shards": {"quick": 8, "thorough": 16}},
        {"name": "TestC20EngineIds", "checks": {"quick": 300, "thorough": 3000}, "shards": {"quick": 2, "thorough": 8}},
        {"name": "TestC20Exhaustion", "mode": "plain", "shards": {"quick": 1, "thorough": 1}},
        {"name": "TestC20ManyInstances", "checks": {"quick": 10, "thorough": 150}, "shards": {"quick": 4, "thorough": 8}, "gomaxprocs": [16, 4, 8, 2]},
        # flow ids in the traces of instances whose activities carry boundary events and are re-entered (every scripted / lock-step run checks that no flow id is announced twice)
        {"name": "TestC10Boundary", "pkg": "props/c10", "label": "flow-ids-boundary-events", "env": {"VERIF_UNRESTRICTED": "1"}, "checks": {"quick": 80, "thorough": 2000}, "shards": {"quick": 4, "thorough": 8}},
    ],
}

REGISTRY["C16"] = {
    "pkg": "props/c16",
    "level": "exploration",
    "level_text": ("rapid-drawn Go values (all signed/unsigned integer widths within int64, float32/64 incl. boundary values, -0, subnormals, 1e+-300; strings with "
                   "unicode/control characters/JSON-looking text; bool; nil; nested map[string]any, []any, typed slices ([]int, []string, []float64), arrays ([3]int16, [2]bool), byte slices, byte arrays by value and behind a pointer, "
                   "named types (named ints, strings, bools, floats, named byte slices / byte arrays), typed maps, tagged structs with "
                   "unexported, skipped and omitempty fields, nested structs with pointers, arrays and interface fields, single-level pointers incl. nil; depth <= 4) through four doors: schema.NewValue / typed Value.ValueFrom with every declared "
                   "item type incl. unknown ones and nil, WithVariables, DoWithResults (declared field types), DoWithObjects, 1..3 data objects declared in the model with JSON bodies, and olive property/header references "
                   "to present, absent and malformed paths; two instances alive at once. Oracle: an independently written canonicaliser (encoding/json semantics "
                   "inside containers) - read-back value and item type must equal canon(v); nothing panics (a panic in an engine goroutine kills the worker and "
                   "is recovered from the journal); variables never cross instances. TestC16Isolation: 2..5 instances of one document (an exclusive gateway whose flows test v0..v3, expr or XPath) in one program, one after another or alive together, from one parsed model or several, each with its own subset of the variables: every instance must be routed by its own variables only - a variable it does not have cannot make its condition true, whatever the other instances hold. "
                   "TestC16SetIsolation: 2..3 executable processes of one document run by a process set use the same variable names (task stores x / n, next task's inputs and a gateway read them), answered in any interleaving: "
                   "what an instance's task is handed and where its gateway sends the token depends on what the instance itself stored, never on what another instance of the set stored meanwhile. "
                   "TestC16TypedProps: a task declares 1..5 typed olive properties without a value, resolved from same-named variables drawn from a pool of matching, convertible and unrepresentable values (or absent): the item handed to the task carries the declared item type."),
    "level_note": "Trusted: the reference canonicaliser in props/c16 (encoding/json), reflect. Typed declarations are required not to panic and to hand out the declared item type (value survival is stated for variables, results and data objects, which use the inferred path). Pointers are single-level; integers inside containers are limited to +-2^53 (JSON numbers).",
    "technique": "rapid property test: round trip against an independent canonicaliser; crash detection through worker journal",
    "rule": ("Distinct = (value spec, declared type | door, reference). Non-trivial = the value is not a plain string/int, or a declared type differs from the dynamic type, or a reference path is absent/malformed."),
    "tests": [
        {"name": "TestC16Value", "checks": {"quick": 6000, "thorough": 400000}, "shards": {"quick": 8, "thorough": 16}},
        {"name": "TestC16Engine", "checks": {"quick": 150, "thorough": 6000}, "shards": {"quick": 8, "thorough": 16}},
        {"name": "TestC16Isolation", "checks": {"quick": 80, "thorough": 3000}, "shards": {"quick": 4, "thorough": 8}},
        {"name": "TestC16SetIsolation", "checks": {"quick": 80, "thorough": 3000}, "shards": {"quick": 4, "thorough": 8}},
        {"name": "TestC16TypedProps", "checks": {"quick": 300, "thorough": 20000}, "shards": {"quick": 2, "thorough": 8}},
        # reading a stored value back on EVERY visit of a task (task inputs after a loop back to the activity): the C08 campaign, run here too
        {"name": "TestC08Histories", "pkg": "props/c08", "label": "read-back-on-every-visit", "checks": {"quick": 150, "thorough": 5000}, "shards": {"quick": 4, "thorough": 8}},
        {"name": "FuzzC16ValueFrom", "mode": "fuzz", "tiers": ["thorough"], "checks": {"thorough": 120}, "shards": {"thorough": 1}, "limit": {"thorough": 900}},
    ],
}

REGISTRY["C15"] = {
    "pkg": "props/c15",
    "level": "exploration",
    "level_text": ("(i) every .bpmn file bundled under testdata/, examples/ and schema/testdata/; (ii) rapid-generated definitions: C01-style programs (all "
                   "flow-node kinds, default flows, formal/informal expressions with and without language, both default languages, permuted declaration order) "
                   "decorated with data objects + references + olive body, olive taskDefinition/headers/properties/results/dataInput/dataOutput, timer / "
                   "signal / message event definitions incl. operationRef, collaborations with participants and message flows, DI shapes/edges/labels, text "
                   "with surrounding whitespace and characters needing escaping; (iii) documents assembled from a pool of 50 standard BPMN fragments (every task / event / gateway kind, "
                   "all event definition kinds, loop and multi-instance characteristics, ioSpecification, lanes, transactions, ad-hoc sub-processes, conditional and "
                   "immediate flows) and 13 root-element kinds with awkward attribute texts, not executed. Oracle: M1=Parse(x), x2=Marshal(M1), M2=Parse(x2): reflective field-by-field "
                   "equivalence incl. the dynamic type behind every interface field (FormalExpression vs Expression), Marshal(M2)==x2, M1 unchanged by "
                   "marshalling (vs an untouched second parse), every model-element id retrievable by FindBy(ExactId) in both models, and on every third case "
                   "the lock-step engine run on M1 and on M2 under the same data and schedule yields identical observations."),
    "level_note": "Trusted: the reflective equivalence in props/c15/equiv.go (nil text == whitespace-only text, strings compared after trimming), encoding/xml, the lock-step driver. Ids of diagram-interchange elements and of the definitions root are not looked up; ids of non-base elements (documentation) are looked up with a predicate on Id() through the same FindBy traversal (ExactId addresses base elements only).",
    "technique": "rapid property test: XML round-trip oracle (equivalence, fixpoint, non-mutation, id lookup) plus differential engine run on original vs re-parsed model; native go fuzzing in the thorough tier",
    "rule": ("Distinct = (program, decoration flags, data, schedule) resp. file path. Non-trivial = the document contains a formal condition expression or an event definition or an olive extension."),
    "tests": [
        {"name": "TestC15Files", "mode": "plain", "shards": {"quick": 1, "thorough": 1}},
        {"name": "TestC15Generated", "checks": {"quick": 150, "thorough": 6000}, "shards": {"quick": 12, "thorough": 16}},
        {"name": "TestC15Fragments", "checks": {"quick": 500, "thorough": 20000}, "shards": {"quick": 4, "thorough": 16}},
        # native fuzzing (thorough only): "checks" is the fuzz time in seconds
        {"name": "FuzzC15Parse", "mode": "fuzz", "tiers": ["thorough"], "checks": {"thorough": 180}, "shards": {"thorough": 1}, "limit": {"thorough": 900}},
    ],
}

REGISTRY["C19"] = {
    "pkg": "props/c19",
    "level": "exploration",
    "level_text": ("rapid-drawn build sequences: 1..3 processes per definitions, 0..12 AddActivity calls each over all ten activity types (sub-processes with 0..3 "
                   "inner tasks built by a nested builder), with and without preset ids and names (incl. characters needing escaping), AutoLayout with the "
                   "documented defaults, a grid of gaps {0,36,100,120,180,1e6} and origins {-1e6,0,96,1e6}, and free finite floats. Oracle: every id attribute "
                   "of the serialised definitions unique; every sequence flow's source and target exist and list it among outgoing/incoming flows both on the "
                   "stored element and through FindBy; start events without incoming, end events without outgoing flows; parse/marshal fixpoint and the same "
                   "integrity on the re-parsed model; layout: exactly one shape per (top-level) flow node and one edge per sequence flow, finite coordinates, "
                   "first/last waypoint on the boundary of the source/target shape, and no two shapes intersect when columnGap >= max width, rowGap >= max "
                   "height, processGap >= 0; every fourth case the executable process is run: requests = the added activities once each in insertion order "
                   "(inner tasks of sub-processes in place), then completion. TestC19LayoutBranching: generated block-structured programs (forks, joins, loops with backward flows, early ends, sub-processes) are parsed, handed to DefinitionBuilder.AddProcess and laid out with default and grid configurations; the geometric oracle (shape / edge counts, finite coordinates, edge ends on the boundaries of their shapes, no overlap when the gaps are at least the node sizes) applies unchanged. "
                   "TestC19Concurrent: the 2..8 processes of one document are built at the same moment, each by a builder of its own in a goroutine of its own (1..12 activities with builder-drawn ids), 40 documents per case: ids unique, flows intact."),
    "level_note": "Trusted: the geometric predicates in props/c19, encoding/xml, the engine driver. Shapes are required for the top-level flow nodes of each process (inner nodes of sub-processes are not laid out by the builder).",
    "technique": "rapid property test over generated build sequences and layout configurations with structural, geometric, round-trip and execution oracles",
    "rule": ("Distinct = descriptor (build sequence, layout configuration). Non-trivial = >=2 activities of >=2 different types, or >=2 processes, or a non-default layout."),
    "tests": [
        {"name": "TestC19Builder", "checks": {"quick": 250, "thorough": 20000}, "shards": {"quick": 12, "thorough": 16}},
        {"name": "TestC19LayoutBranching", "checks": {"quick": 300, "thorough": 20000}, "shards": {"quick": 4, "thorough": 16}},
        {"name": "TestC19Concurrent", "checks": {"quick": 60, "thorough": 2000}, "shards": {"quick": 2, "thorough": 4}},
    ],
}

REGISTRY["C18"] = {
    "pkg": "props/c18",
    "level": "exploration",
    "level_text": ("rapid-drawn definitions with 1..3 executable processes (plain chains incl. start->end without any task, generated C01-style programs with gateways / sub-processes / conditional flows over shared initial variables, throwing processes, catching processes) "
                   "and 0..2 waiting processes, linked by message flows (throw event -> message start event of a waiting process, throw event -> intermediate "
                   "catch event of a running one); histories of task answers and waits (single, 2..4 concurrent, with expiring context, repeated after expiry, "
                   "repeated after completion); perturbation at the StartAll/watcher window. A reference token game per started process instance (instantiated "
                   "ones included) predicts the requests; after every action at quiescence: no waiter returned true while a started process holds tokens, live "
                   "waiters never return false, once all are done every waiter has returned true, repeated/concurrent waits never crash the worker, exactly one "
                   "CeaseProcessSetTrace, each throw instantiates its target process / wakes its target catch event exactly once."),
    "level_note": EVENT_TRUST + " A throw event that fires at start-up is not aimed at a catch event of another process (whether that listener is armed yet is a start-up race the statement does not decide).",
    "technique": "rapid stateful property test (answers + wait histories) with per-process reference models, stuck detection by goroutine snapshot, crash detection via journal",
    "rule": ("Distinct = descriptor. Non-trivial = >=2 processes and (a process that finishes without any task, or a message flow, or >=2 waits)."),
    "tests": [
        {"name": "TestC18ProcessSet", "checks": {"quick": 120, "thorough": 4000}, "shards": {"quick": 16, "thorough": 16}, "gomaxprocs": [4, 2, 16, 1]},
        # "each behaves as it would alone" also in its data: members of a set that use the same variable names (C16's campaign)
        {"name": "TestC16SetIsolation", "pkg": "props/c16", "label": "members-keep-their-own-data", "checks": {"quick": 60, "thorough": 2000}, "shards": {"quick": 4, "thorough": 8}},
    ],
}

REGISTRY["C07"] = {
    "pkg": "props/c07",
    "level": "fault_enumeration",
    "level_text": ("Cancellation points indexed by the number of traces the (unbuffered) recording subscriber has received when it calls cancel() - an exact position "
                   "in the tracer's total order - for a corpus of 16 programs covering tasks awaiting an answer, a half-full parallel join, exclusive probes, "
                   "inclusive fork/join, loops, running / nested / not-yet-reached sub-processes, nodes on untaken branches, conditional flows leaving a task, "
                   "listening catch events, an armed event-based gateway, boundary listeners, parallel catch events, timer catch events (duration, cycle, never firing; mock clock); each program is walked through its life by a "
                   "script of answers and events. Thorough: EVERY position k=0..T+1 of every corpus program, plus rapid-drawn (program,k,perturbation) and "
                   "generated programs; quick: rapid-drawn points only. Oracle after cancel while the subscriber keeps draining: the instance's goroutines come "
                   "to rest (else: spinning), WaitUntilComplete returned, Tracer().Done() closed, every StartAll/Do/ConsumeEvent call returned, NO goroutine "
                   "started by the instance is still alive (set difference against the goroutine ids alive before the case), every task request carries a "
                   "cancelled context. A quarter of the corpus / generated cases use split contexts: the instance is started with a context that does not descend from its construction context, position K cancels the construction context alone (the instance must come to rest - no spinning on terminated tracers), the run context is cancelled at the end. TestC18Cancel applies the same oracle to process sets of 1..3 plain executable processes (parallel blocks of up to 8 tasks, no message flows)."),
    "level_note": "Trusted: goroutine attribution by baseline id set and the all-parked fixpoint (runtime.Stack(all) is an atomic snapshot). Positions are exact in the trace order but the engine state at a position varies with scheduling; process sets are not in the corpus.",
    "technique": "fault-point enumeration (cancel at every trace position) + rapid-drawn points, leak/stuck oracle by goroutine snapshot",
    "rule": ("Distinct = (program, cancel position k, perturbation seed). Non-trivial = 0 < k < T (strictly inside the run) with at least one node goroutine started."),
    "tests": [
        {"name": "TestC07Points", "checks": {"quick": 80, "thorough": 400}, "shards": {"quick": 12, "thorough": 16}, "gomaxprocs": [4, 2, 16, 1]},
        {"name": "TestC07Generated", "checks": {"quick": 60, "thorough": 1500}, "shards": {"quick": 4, "thorough": 16}, "gomaxprocs": [4, 2, 16, 1]},
        # the members of a process set are instances too: sets of 1..3 plain executable processes (no message flows) cancelled at any trace position
        {"name": "TestC18Cancel", "pkg": "props/c18", "label": "process-set", "checks": {"quick": 40, "thorough": 1500}, "shards": {"quick": 4, "thorough": 16}, "gomaxprocs": [4, 2, 16, 1]},
    ],
}

REGISTRY["C17"] = {
    "pkg": "props/c17",
    "race": True,
    "level": "exploration",
    "level_text": ("Under the Go race detector: rapid-generated C01-style programs (all block kinds, sub-processes, loops, conditional flows, optional catch-event "
                   "tail) whose task results are never read by a condition, so that all answers commute and the sequential outcome is unique. In every step ALL "
                   "pending tasks are answered concurrently from separate goroutines (with results and data objects), or the listening catch event is woken, "
                   "while 1..4 goroutines read the locator (CloneVariables/GetVariable/CloneItems), 0..3 subscribe and unsubscribe extra trace subscribers, "
                   "0..3 sit in WaitUntilComplete and 0..3 deliver non-matching events; schedule perturbation at all hook sites, GOMAXPROCS 4/16. Oracle: any "
                   "race report with a frame in a non-test file of the repository is a violation (reports wholly inside the harness fail the run as inconclusive); "
                   "any panic / worker crash is a violation; at every quiescent point the pending set, and at the end completion and the flows taken, equal the "
                   "sequential token game's. In addition the C06 (event-based gateway, competing events delivered concurrently), C10 (boundary events racing the answer), "
                   "C11 (catch events, concurrent and back-to-back deliveries) and C18 (process sets: several throw events passed at the same moment into one catch event or waiting process, "
                   "concurrent waiters) campaigns run under the race detector with the same race / crash / outcome oracles."),
    "level_note": "Trusted: the Go race detector (reports only races that occur on executed schedules; none through unsafe).",
    "technique": "rapid property test under the race detector: concurrent API use against a sequential-semantics oracle; crash detection via journal",
    "rule": ("Distinct = descriptor. Non-trivial = >=3 API calls overlapped in time (measured by an active-call counter) and >=2 tasks were pending at once (live tokens); "
             "for the C06/C10/C11 campaigns run under -race the non-trivial rule of that property applies (competing events / event racing the answer / delivery with and without effect)."),
    "tests": [
        {"name": "TestC17Concurrent", "checks": {"quick": 60, "thorough": 2500}, "shards": {"quick": 12, "thorough": 16}, "gomaxprocs": [4, 16, 8, 2],
         "limit": {"quick": 900, "thorough": 5400}},
        # the C06 / C10 / C11 campaigns (concurrent bursts of events and answers, perturbation) under the race detector
        {"name": "TestC06EventGateway", "pkg": "props/c06", "label": "race-C06", "checks": {"quick": 50, "thorough": 1500},
         "shards": {"quick": 4, "thorough": 8}, "gomaxprocs": [4, 16, 8, 2], "limit": {"quick": 900, "thorough": 5400}},
        {"name": "TestC10Boundary", "pkg": "props/c10", "label": "race-C10", "checks": {"quick": 50, "thorough": 1500},
         "shards": {"quick": 4, "thorough": 8}, "gomaxprocs": [4, 16, 8, 2], "limit": {"quick": 900, "thorough": 5400}},
        {"name": "TestC11Delivery", "pkg": "props/c11", "label": "race-C11", "checks": {"quick": 50, "thorough": 1500},
         "shards": {"quick": 4, "thorough": 8}, "gomaxprocs": [4, 16, 8, 2], "limit": {"quick": 900, "thorough": 5400}},
        # process sets: several throws into one catch event / waiting process at the same moment, waiters, caller tracers
        {"name": "TestC18ProcessSet", "pkg": "props/c18", "label": "race-C18", "checks": {"quick": 60, "thorough": 1500},
         "shards": {"quick": 8, "thorough": 8}, "gomaxprocs": [4, 16, 8, 2], "limit": {"quick": 900, "thorough": 5400}},
    ],
}


# Thorough tier: case counts of the rapid campaigns (and fuzzing seconds) are multiplied by this factor per property.
# Chosen from measured runs (three checks side by side on 16 cores) so that every thorough check needs roughly 10-20 minutes.
THOROUGH_SCALE = {"C01": 1, "C02": 1.5, "C03": 2, "C04": 4, "C05": 2, "C06": 2, "C07": 6, "C08": 3, "C09": 2, "C10": 1.5,
                  "C11": 2, "C12": 1.5, "C13": 2, "C14": 3, "C15": 1.5, "C16": 2, "C17": 1, "C18": 2, "C19": 2, "C20": 2}
