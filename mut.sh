#!/bin/bash
# mut.sh <patch.diff> <ID> [tier]  : apply a patch to /repo, run a check, restore /repo. For sensitivity tests only.
P=$1; ID=$2; TIER=${3:-quick}
if [ -n "$(git -C /repo status --porcelain)" ]; then echo "repo dirty"; exit 3; fi
git -C /repo apply "$P" || { echo "patch does not apply"; exit 3; }
( cd /repo && go build ./... ) || { git -C /repo checkout -- .; echo "does not build"; exit 3; }
cd /verif && VERIF_EVIDENCE_DIR=/verif/.build/mut-evidence python3 check.py $ID $TIER > /verif/.build/mut.out 2>&1
rc=$?
git -C /repo checkout -- . ; git -C /repo clean -fdq
grep -E "^VIOLATION|^KNOWN|^C[0-9]+ |INCONCLUSIVE" /verif/.build/mut.out | head -8
echo "mut exit=$rc"
