#!/usr/bin/env python3
"""seed.py <ID> [--checks C01,C09] [--tier quick] [--name suffix]
Verifies an independently produced regression (from /tmp/wt/<ID>-out) in a fresh scratch worktree,
runs the registered checks against it (patch applied to /repo, undone straight afterwards) and stores
it under /verif/seeded/<ID>[-suffix]/. Development helper; not used by any check."""
import json, os, shutil, subprocess, sys, time

def sh(cmd, cwd=None, timeout=900, env=None):
    e = dict(os.environ); e.update({"GOPROXY": "off", "GOSUMDB": "off", "GOTOOLCHAIN": "local"}); e.pop("GOFLAGS", None); e.pop("GOWORK", None)
    if env: e.update(env)
    try:
        p = subprocess.run(cmd, shell=True, cwd=cwd, capture_output=True, text=True, timeout=timeout, env=e)
        return p.returncode, (p.stdout + p.stderr)
    except subprocess.TimeoutExpired as ex:
        return 124, "TIMEOUT " + str(ex)

def main():
    pid = sys.argv[1]
    checks = [pid]; tier = "quick"; suffix = ""; src = None
    a = sys.argv[2:]
    while a:
        if a[0] == "--checks": checks = a[1].split(","); a = a[2:]
        elif a[0] == "--tier": tier = a[1]; a = a[2:]
        elif a[0] == "--name": suffix = "-" + a[1]; a = a[2:]
        elif a[0] == "--src": src = a[1]; a = a[2:]
        else: a = a[1:]
    out = src or "/tmp/wt/%s-out" % pid
    meta = json.load(open(os.path.join(out, "meta.json")))
    patch = os.path.join(out, "patch.diff")
    demo = os.path.join(out, "demo_test.go")
    vt = "/tmp/wt/verify-%s%s" % (pid, suffix)
    sh("git -C /repo worktree remove --force %s" % vt); shutil.rmtree(vt, ignore_errors=True)
    rc, o = sh("git -C /repo worktree add -q --detach %s HEAD" % vt)
    ran = {}
    try:
        rc, o = sh("git apply %s" % patch, cwd=vt)
        if rc: print("PATCH DOES NOT APPLY", o); return 1
        rc, o = sh("go build ./... && cd schema && go build ./...", cwd=vt); ran["build"] = rc
        if rc: print("DOES NOT BUILD", o[-2000:]); return 1
        rc1, o1 = sh("go test -vet=off -count=1 -timeout 150s ./... 2>&1 | grep -v 'no test files' | tail -15", cwd=vt)
        bad = [l for l in o1.splitlines() if l.startswith("FAIL") or l.startswith("--- FAIL") or "panic:" in l]
        if bad:
            # one retry for the known flaky test
            rc1, o1 = sh("go test -vet=off -count=1 -timeout 150s ./... 2>&1 | grep -v 'no test files' | tail -15", cwd=vt)
            bad = [l for l in o1.splitlines() if l.startswith("FAIL") or l.startswith("--- FAIL") or "panic:" in l]
        rc2, o2 = sh("go test -vet=off -count=1 ./... 2>&1 | tail -3", cwd=os.path.join(vt, "schema"))
        bad2 = [l for l in o2.splitlines() if l.startswith("FAIL")]
        ran["existing_tests_with_patch"] = "root: %s | schema: %s" % ("FAIL " + "; ".join(bad) if bad else "pass", "FAIL" if bad2 else "pass")
        print("existing tests with patch:", ran["existing_tests_with_patch"])
        ddir = os.path.join(vt, meta.get("demo_dir", ".").strip("/") or ".")
        os.makedirs(ddir, exist_ok=True)
        shutil.copy(demo, os.path.join(ddir, "zz_demo_test.go"))
        cmd = meta.get("demo_cmd", "go test -count=1 -run Demo .")
        # the agent's command line may name its own worktree: run in the verification worktree instead
        for base in ("/tmp/wt2", "/tmp/wt"):
            cmd = cmd.replace("%s/%s-out" % (base, pid), out).replace("%s/%s" % (base, pid), vt)
        if "-count" not in cmd:
            cmd = cmd.replace("go test", "go test -count=1", 1)
        rcw, ow = sh(cmd + " 2>&1 | tail -15", cwd=vt, timeout=900)
        failed_with = ("FAIL" in ow) or ("panic" in ow) or rcw != 0
        sh("git checkout -- .", cwd=vt)
        rcn, on = sh(cmd + " 2>&1 | tail -8", cwd=vt, timeout=900)
        passed_without = ("FAIL" not in on) and ("panic" not in on)
        ran["demo_with_patch"] = "fails" if failed_with else "PASSES (unexpected)"
        ran["demo_without_patch"] = "passes" if passed_without else "FAILS (unexpected)"
        print("demo with patch:", ran["demo_with_patch"], "| without:", ran["demo_without_patch"])
        if not failed_with: print(ow[-1500:])
        if not passed_without: print(on[-1500:])
    finally:
        sh("git -C /repo worktree remove --force %s" % vt); shutil.rmtree(vt, ignore_errors=True)
    # run the registered checks against the change
    if subprocess.run("git -C /repo status --porcelain", shell=True, capture_output=True, text=True).stdout.strip():
        print("/repo dirty, abort"); return 1
    results = {}
    rc, o = sh("git -C /repo apply %s" % patch)
    if rc: print("patch does not apply to /repo", o); return 1
    try:
        for c in checks:
            t0 = time.time()
            e = {"VERIF_EVIDENCE_DIR": "/verif/.build/seed-evidence"}
            rc, o = sh("python3 check.py %s %s" % (c, tier), cwd="/verif", timeout=3600, env=e)
            viol = [l for l in o.splitlines() if l.startswith("VIOLATION")]
            results[c] = {"tier": tier, "exit": rc, "violations": len(viol), "first": viol[0] if viol else "", "wall_s": round(time.time() - t0, 1)}
            print("check", c, tier, "exit", rc, len(viol), "violations")
    finally:
        sh("git -C /repo checkout -- . && git -C /repo clean -fdq")
    dst = "/verif/seeded/%s%s" % (pid, suffix)
    os.makedirs(dst, exist_ok=True)
    shutil.copy(patch, os.path.join(dst, "patch.diff"))
    shutil.copy(demo, os.path.join(dst, "demo_test.go"))
    meta["verified"] = ran
    meta["checks_run"] = results
    meta["caught_by"] = [c for c, r in results.items() if r["exit"] == 1 and r["violations"] > 0]
    json.dump(meta, open(os.path.join(dst, "meta.json"), "w"), indent=1)
    print("stored", dst, "caught_by", meta["caught_by"])
    return 0

sys.exit(main())
