#!/usr/bin/env python3
"""Regenerates MANIFEST.json from checks_registry.py (single source of truth)."""
import json, os, sys
ROOT = os.path.dirname(os.path.abspath(__file__))
sys.path.insert(0, ROOT)
from checks_registry import REGISTRY, NOT_APPLICABLE
import subprocess
HOOK_COMMITS = [l.split()[0] for l in subprocess.run(["git", "-C", "/repo", "log", "--format=%H %s"], capture_output=True, text=True).stdout.splitlines() if " verif hooks" in l]

ALL = ["C%02d" % i for i in range(1, 21)]
checks = []
for pid in ALL:
    if pid not in REGISTRY:
        continue
    c = REGISTRY[pid]
    checks.append({
        "property_id": pid,
        "quick_cmd": "python3 check.py %s quick" % pid,
        "thorough_cmd": "python3 check.py %s thorough" % pid,
        "evidence_file": "/verif/evidence/%s.json" % pid,
        "replay_cmd_template": "python3 check.py %s --replay {path}" % pid,
        "engine": "harness",
        "level_claimed": {"category": c["level"], "text": c["level_text"], "design_ref": c.get("design_ref", "DESIGN.md section 5 " + pid)},
        "level_note": c["level_note"],
        "technique": c["technique"],
    })
na = [{"property_id": p, "reason": NOT_APPLICABLE.get(p, "check not built yet in this session; see DESIGN.md")} for p in ALL if p not in REGISTRY]
m = {
    "version": 1,
    "setup_cmd": "python3 setup.py",
    "hooks": {
        "guard": "verif (Go build tag)",
        "enable": "go test -tags verif (check.py passes -tags verif to every build of the harness, which compiles /repo from source via replace directives)",
        "baseline_off_cmd": "cd /repo && GOFLAGS=-mod=mod go test -vet=off -count=1 -timeout 25m ./... && cd /repo/schema && GOFLAGS=-mod=mod go test -vet=off -count=1 -timeout 25m ./...",
        "source_commits": HOOK_COMMITS,
        "add_only": True,
    },
    "engines": [{"name": "harness", "path": "/verif/harness", "serves_properties": [c["property_id"] for c in checks],
                 "kind_free_text": "Go module with pgregory.net/rapid v1.3.0 property tests, a reference BPMN token game, a lock-step instance driver with goroutine-snapshot quiescence detection, native go fuzz targets; driven by check.py (sharding, journal, evidence)"}],
    "checks": checks,
    "not_applicable": na,
    "notes": "All checks are property-based tests / fuzzing (generated inputs, histories and schedules against explicit oracles). See DESIGN.md.",
}
with open(os.path.join(ROOT, "MANIFEST.json"), "w") as f:
    json.dump(m, f, indent=1)
print("wrote MANIFEST.json with %d checks, %d not_applicable" % (len(checks), len(na)))
