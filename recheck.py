#!/usr/bin/env python3
"""recheck.py <seeded-dir-name> [check ids...] : re-run registered quick checks against a stored seeded
regression (patch applied to /repo, undone straight afterwards) and update its meta.json. Development helper."""
import json, os, subprocess, sys, time
name = sys.argv[1]; d = "/verif/seeded/" + name
meta = json.load(open(d + "/meta.json"))
checks = sys.argv[2:] or [meta["property"]]
tier = os.environ.get("TIER", "quick")
if subprocess.run("git -C /repo status --porcelain", shell=True, capture_output=True, text=True).stdout.strip():
    sys.exit("/repo dirty")
if subprocess.run("git -C /repo apply %s/patch.diff" % d, shell=True).returncode:
    sys.exit("patch does not apply")
res = meta.get("checks_run", {})
try:
    for c in checks:
        t0 = time.time()
        e = dict(os.environ); e["VERIF_EVIDENCE_DIR"] = "/verif/.build/seed-evidence"
        p = subprocess.run("python3 check.py %s %s" % (c, tier), shell=True, cwd="/verif", capture_output=True, text=True, env=e)
        viol = [l for l in p.stdout.splitlines() if l.startswith("VIOLATION")]
        res[c] = {"tier": tier, "exit": p.returncode, "violations": len(viol), "first": viol[0] if viol else "", "wall_s": round(time.time() - t0, 1), "verif_commit": subprocess.run("git -C /verif rev-parse --short HEAD", shell=True, capture_output=True, text=True).stdout.strip()}
        print(name, c, tier, "exit", p.returncode, len(viol), "violations")
finally:
    subprocess.run("git -C /repo checkout -- . && git -C /repo clean -fdq", shell=True)
meta["checks_run"] = res
meta["caught_by"] = sorted(c for c, r in res.items() if r["exit"] == 1 and r["violations"] > 0)
json.dump(meta, open(d + "/meta.json", "w"), indent=1)
