#!/bin/bash
# dev helper: ./dev.sh <pkg> <TestName> <checks> [seed]  -> runs and prints the last failure compactly
export GOFLAGS=-mod=mod GOPROXY=off GOSUMDB=off GOTOOLCHAIN=local GOWORK=off
cd /verif/harness
D=/verif/.build/dev; rm -rf $D; mkdir -p $D
export VERIF_KNOWN=${KNOWN:-C05-F1,C01-F1}
export VERIF_REPLAY_DIR=$D/replays VERIF_OUT=$D/out.jsonl VERIF_JOURNAL=$D/journal.jsonl
go test -tags verif ./props/$1 -count=1 -run "^$2\$" -rapid.checks=${3:-200} -rapid.seed=${4:-1} -rapid.nofailfile -rapid.shrinktime=${SHRINK:-15s} -timeout ${TIMEOUT:-300s} > $D/log 2>&1
echo "exit=$?"; grep -v "^VERIF-FAIL\|^$\|\[rapid\] draw" $D/log | tail -${TAIL:-15}
L=$(grep "^VERIF-FAIL" $D/log | tail -1 | sed 's/.*replay=//')
if [ -n "$L" ] && [ -f "$L" ]; then echo "REPLAY $L"; python3 - "$L" <<'PY'
import json,sys
r=json.load(open(sys.argv[1]))
print("symptom:",r["symptom"]); print("detail:",r["detail"][:1500])
h=r.get("history") or {}
if isinstance(h,dict):
    for s in h.get("steps",[]): print("  step",s)
    print(h.get("xml","")[:6000])
    tr=h.get("traces") or []
    print("traces(%d):"%len(tr)," ".join(tr[-60:]))
print("descriptor:",json.dumps(r["descriptor"])[:3000])
g=r.get("goroutines","")
if g and "-g" in sys.argv: print(g[:6000])
PY
fi
