#!/bin/bash
# runs the repository's own test suite (guard OFF) the way the baseline does
unset GOFLAGS GOWORK
export GOPROXY=off GOSUMDB=off GOTOOLCHAIN=local
rc=0
(cd /repo && go test -vet=off -count=1 -timeout 25m ./... 2>&1 | grep -v "no test files" | tail -${TAIL:-25}; exit ${PIPESTATUS[0]}) || rc=1
(cd /repo/schema && go test -vet=off -count=1 -timeout 25m ./... 2>&1 | tail -5; exit ${PIPESTATUS[0]}) || rc=1
git -C /repo status --short
exit $rc
