#!/usr/bin/env python3
"""addfinding.py fixed <PROP> <ID> <commit-subject-fragment> <what>   (dev helper; never used by checks)"""
import json, subprocess, sys
kind, prop, fid, key, what = sys.argv[1:6]
out = subprocess.run(["git", "-C", "/repo", "log", "--format=%h %s"], capture_output=True, text=True).stdout.splitlines()
sha = next(l.split()[0] for l in out if key in l)
d = json.load(open("/verif/known_findings.json"))
d["findings"] = [f for f in d["findings"] if f["id"] != fid]
d["findings"].append({"status": "fixed", "property": prop, "id": fid, "commit": sha, "what": what,
                      "line": "fixed: property=%s %s %s" % (prop, sha, what)})
json.dump(d, open("/verif/known_findings.json", "w"), indent=1)
print("recorded", fid, sha)
